#!/usr/bin/env python3
"""Systematic operator-level mutation sweep over the non-test code of /repo (scratch copies only).

For every mutant that still compiles and passes the crate's unit tests (`cargo test --offline --lib`), all 18
checks are run against the scratch copy. Output: one JSON line per surviving mutant with the checks that report it.
Mutants no check reports are candidates for triage (equivalent mutant, out-of-scope behaviour, or a gap).

Usage: selftest/mutation_sweep.py [--workers N] [--only REGEX] [--out FILE] [--limit N]
Never touches /repo; every scratch copy and its build output is removed at the end.
"""
import argparse
import concurrent.futures as cf
import json
import os
import re
import shutil
import subprocess
import sys
import tempfile
import threading

VERIF = os.path.dirname(os.path.dirname(os.path.abspath(__file__)))
ALL = ["C%02d" % i for i in range(1, 19)]
REGIONS = {"src/lib.rs": None, "src/range.rs": None}     # up to the first test module / test macro

SUBS = [
    (r"<=", "<"), (r"(?<![<=-])<(?![=<])(?=\s)", "<="), (r">=", ">"), (r"(?<![->=])>(?![=>])(?=\s)", ">="),
    (r"==", "!="), (r"!=", "=="), (r"&&", "||"), (r"\|\|", "&&"),
    (r"\bLess\b", "Greater"), (r"\bGreater\b", "Less"), (r"\bLess\b", "Equal"), (r"\bGreater\b", "Equal"),
    (r"\bIncluding\b", "Excluding"), (r"\bExcluding\b", "Including"),
    (r"\btrue\b", "false"), (r"\bfalse\b", "true"),
    (r"(?<![\w.])0(?![\w.])", "1"), (r"(?<![\w.])1(?![\w.])", "0"), (r"(?<![\w.])1(?![\w.])", "2"),
    (r"\+ 1\b", "+ 0"), (r"\+ 1\b", "+ 2"), (r"- 1\b", "- 0"),
    (r"\bmin\b", "max"), (r"\bmax\b", "min"), (r"\bis_some\b", "is_none"), (r"\bis_none\b", "is_some"),
    (r"\bany\(", "all("), (r"\ball\(", "any("), (r"\bis_empty\(\)", "len() == 1"),
    (r"!(?=[a-z(])", ""),
    (r"\.major\b", ".minor"), (r"\.minor\b", ".patch"), (r"\.patch\b", ".minor"),
    (r"\bmajor\b", "minor"), (r"\bminor\b", "patch"), (r"\bpatch\b", "minor"),
    (r"\bLower\(", "Upper("), (r"\bUpper\(", "Lower("),
    (r"\bspace0\b", "space1"), (r"\bspace1\b", "space0"), (r"\bopt\((?=literal)", "("),
    (r"\bSome\(([a-z_0-9]+)\)", r"None"), (r"\.pre_release\b", ".build"), (r"\.build\b", ".pre_release"),
    (r"\bunwrap_or\(0\)", "unwrap_or(1)"), (r"\bMAX_SAFE_INTEGER\b", "(MAX_SAFE_INTEGER - 1)"),
    (r"\bMAX_LENGTH\b", "(MAX_LENGTH - 1)"), (r"\bpre_release\.is_empty\(\)", "build.is_empty()"),
    (r"\.then\(", ".or("), (r"\bself\b(?=\.(lower|upper))", "other"), (r"\bother\b(?=\.(lower|upper))", "self"),
    (r"\.lower\b", ".upper"), (r"\.upper\b", ".lower"),
    (r"\bv1\b", "v2"), (r"\bv2\b", "v1"), (r"\blower\b", "upper"), (r"\bupper\b", "lower"),
    (r"(?<![<=-])<(?![=<])(?=\s)", ">"), (r"(?<![->=])>(?![=>])(?=\s)", "<"), (r"\.rev\(\)", ""),
    (r"\bhigh_version\b", "low_version"), (r"\blow_version\b", "high_version"),
    (r"\bNumeric\b", "AlphaNumeric"), (r"\bPre(Major|Minor|Patch)\b", r"\1"), (r"\b(Major|Minor|Patch)\b", r"Pre\1"),
    (r"\.is_prerelease\(\)", ".pre_release.is_empty()"), (r"\bUnbounded\b", "Including(Version::from((0, 0, 0)))"),
    (r"\bintersect\b", "difference"), (r"\ballows_any\b", "allows_all"), (r"\ballows_all\b", "allows_any"),
]


def region_end(lines):
    for i, l in enumerate(lines):
        if "#[cfg(test)]" in l or l.startswith("macro_rules! create_tests_for"):
            return i
    return len(lines)


def mutants():
    out = []
    for rel in REGIONS:
        lines = open(os.path.join("/repo", rel)).read().split("\n")
        end = region_end(lines)
        in_block = False
        for i in range(end):
            l = lines[i]
            st = l.strip()
            if in_block:
                if "*/" in st:
                    in_block = False
                continue
            if st.startswith("/*"):
                if "*/" not in st:
                    in_block = True
                continue
            if not st or st.startswith("//") or st.startswith("#[") or st.startswith("#![") or st.startswith("debug_assert!"):
                continue
            code = l.split("//")[0] if "//" in l and '"' not in l else l
            for pat, rep in SUBS:
                for m in re.finditer(pat, code):
                    new = code[:m.start()] + m.expand(rep) + code[m.end():] + l[len(code):]
                    if new != l:
                        out.append({"file": rel, "line": i + 1, "old": l.strip(), "new": new.strip(), "col": m.start(),
                                    "full": new})
    # dedupe
    seen, res = set(), []
    for m in out:
        k = (m["file"], m["line"], m["full"])
        if k not in seen:
            seen.add(k)
            res.append(m)
    return res


class Worker(object):
    def __init__(self, idx, root):
        self.dir = os.path.join(root, "w%d" % idx)
        self.repo = os.path.join(self.dir, "repo")
        self.target = os.path.join(self.dir, "target")
        os.makedirs(self.dir)
        subprocess.run(["rsync", "-a", "--exclude", "target", "--exclude", ".git", "/repo/", self.repo + "/"], check=True)
        self.env = dict(os.environ, CARGO_TARGET_DIR=self.target, CARGO_NET_OFFLINE="true")
        subprocess.run(["cargo", "test", "--offline", "--lib", "--no-run", "-q"], cwd=self.repo, env=self.env, capture_output=True)

    def run(self, m, props):
        path = os.path.join(self.repo, m["file"])
        orig = open(os.path.join("/repo", m["file"])).read()
        lines = orig.split("\n")
        lines[m["line"] - 1] = m["full"]
        open(path, "w").write("\n".join(lines))
        try:
            b = subprocess.run(["cargo", "test", "--offline", "--lib", "--no-run", "-q"], cwd=self.repo, env=self.env,
                               capture_output=True, text=True)
            if b.returncode != 0:
                return "nocompile", {}
            try:
                t = subprocess.run(["cargo", "test", "--offline", "--lib", "-q"], cwd=self.repo, env=self.env,
                                   capture_output=True, text=True, timeout=120)
            except subprocess.TimeoutExpired:
                return "suite-timeout", {}
            if t.returncode != 0:
                return "suite-kills", {}
            res = {}

            def one(p):
                env = dict(os.environ, SA_REPO=self.repo)
                try:
                    r = subprocess.run([os.path.join(VERIF, "check"), p], capture_output=True, text=True, env=env, timeout=900)
                except subprocess.TimeoutExpired:
                    return p, 3, []
                keys = [l.split("key:", 1)[1].strip() for l in r.stdout.splitlines() if l.strip().startswith("key:")]
                return p, r.returncode, keys[:2]
            with cf.ThreadPoolExecutor(4) as ex:
                for p, rc, keys in ex.map(one, props):
                    res[p] = (rc, keys)
            return "survivor", res
        finally:
            open(path, "w").write(orig)


def main():
    ap = argparse.ArgumentParser()
    ap.add_argument("--workers", type=int, default=4)
    ap.add_argument("--only", default=None)
    ap.add_argument("--out", default="/tmp/mutation_sweep.jsonl")
    ap.add_argument("--limit", type=int, default=0)
    ap.add_argument("--list", action="store_true")
    ap.add_argument("--props", default=None)
    ap.add_argument("--reuse", default=None, help="jsonl of an earlier sweep: mutants it found not to compile / killed by the suite are skipped")
    a = ap.parse_args()
    ms = mutants()
    if a.only:
        ms = [m for m in ms if re.search(a.only, "%s:%d %s" % (m["file"], m["line"], m["old"]))]
    if a.reuse and os.path.exists(a.reuse):
        old = {}
        for l in open(a.reuse):
            r = json.loads(l)
            old[(r["file"], r["line"], r["new"])] = r["status"]
        ms = [m for m in ms if old.get((m["file"], m["line"], m["new"])) not in ("nocompile", "suite-kills")]
    if a.limit:
        ms = ms[:a.limit]
    print("%d mutants" % len(ms), flush=True)
    if a.list:
        for m in ms:
            print("%s:%d  %s  =>  %s" % (m["file"], m["line"], m["old"], m["new"]))
        return
    props = a.props.split(",") if a.props else ALL
    root = tempfile.mkdtemp(prefix="msweep-", dir="/tmp")
    lock = threading.Lock()
    counts = {}
    try:
        workers = [Worker(i, root) for i in range(a.workers)]
        free = list(workers)
        out = open(a.out, "a")

        def job(m):
            with lock:
                w = free.pop()
            try:
                st, res = w.run(m, props)
            finally:
                with lock:
                    free.append(w)
            with lock:
                counts[st] = counts.get(st, 0) + 1
                rec = {"file": m["file"], "line": m["line"], "old": m["old"], "new": m["new"], "status": st}
                if st == "survivor":
                    rec["caught_by"] = sorted(p for p, (rc, _) in res.items() if rc == 1)
                    rec["inconclusive"] = sorted(p for p, (rc, _) in res.items() if rc not in (0, 1))
                    rec["keys"] = {p: k for p, (rc, k) in res.items() if rc == 1}
                    print("%s:%d  %s => %s   caught=%s inconclusive=%s" % (m["file"], m["line"], m["old"][:60], m["new"][:60],
                                                                         rec["caught_by"], rec["inconclusive"]), flush=True)
                out.write(json.dumps(rec) + "\n")
                out.flush()
        with cf.ThreadPoolExecutor(a.workers) as ex:
            list(ex.map(job, ms))
        print(counts)
    finally:
        shutil.rmtree(root, ignore_errors=True)


if __name__ == "__main__":
    main()
