"""Self-test corpus: (name, properties whose checks must react, edits, expectation)."""
CASES = []


def mutant(name, props, *edits):
    CASES.append({"name": "mut-" + name, "props": props, "edits": list(edits), "expect": "violation"})


def neutral(name, props, *edits):
    CASES.append({"name": "neu-" + name, "props": props, "edits": list(edits), "expect": "silent"})


R = "src/range.rs"
L = "src/lib.rs"

# ---- C04
mutant("c04-patch-before-minor", ["C04"],
       (L, "        match self.minor.cmp(&other.minor) {", "        match self.patch.cmp(&other.patch) {"),
       (L, "        match self.patch.cmp(&other.patch) {\n            Ordering::Equal => {}\n            //if difference in patch",
           "        match self.minor.cmp(&other.minor) {\n            Ordering::Equal => {}\n            //if difference in patch"))
mutant("c04-release-below-prerelease", ["C04"], (L, "            (0, _) => Ordering::Greater,", "            (0, _) => Ordering::Less,"))
mutant("c04-hash-build", ["C04"], (L, "        self.pre_release.hash(state);", "        self.pre_release.hash(state);\n        self.build.hash(state);"))
mutant("c04-eq-build", ["C04"], (L, "            && self.pre_release == other.pre_release", "            && self.pre_release == other.pre_release\n            && self.build == other.build"))
mutant("c04-variant-order", ["C04"],
       (L, "    /// An identifier that's solely numbers.\n    Numeric(u64),\n    /// An identifier with letters and numbers.\n    AlphaNumeric(String),",
           "    /// An identifier with letters and numbers.\n    AlphaNumeric(String),\n    /// An identifier that's solely numbers.\n    Numeric(u64),"))
mutant("c04-parse-u32", ["C04"], (L, "            str::parse::<u64>(s)\n                .map(Identifier::Numeric)", "            str::parse::<u32>(s)\n                .map(|n| Identifier::Numeric(n as u64))"))

# ---- C16
mutant("c16-minor-before-patch", ["C16"],
       (L, "            if high_version.patch != 0 {\n                // anything higher than a patch bump would result in the wrong version\n                return Some(VersionDiff::Patch);\n            }\n\n            if high_version.minor != 0 {\n                // anything higher than a minor bump would result in the wrong version\n                return Some(VersionDiff::Minor);\n            }",
           "            if high_version.minor != 0 {\n                return Some(VersionDiff::Minor);\n            }\n\n            if high_version.patch != 0 {\n                return Some(VersionDiff::Patch);\n            }"))
mutant("c16-drop-minor-conjunct", ["C16"], (L, "if low_version.patch == 0 && low_version.minor == 0 {", "if low_version.patch == 0 {"))
mutant("c16-self-instead-of-high", ["C16"], (L, "            if high_version.patch != 0 {", "            if self.patch != 0 {"))
mutant("c16-prepatch-to-patch", ["C16"], (L, "                return Some(VersionDiff::PrePatch);", "                return Some(VersionDiff::Patch);"))
mutant("c16-display-name", ["C16"], (L, 'VersionDiff::PreMinor => write!(f, "preminor"),', 'VersionDiff::PreMinor => write!(f, "pre-minor"),'))

# ---- C03
mutant("c03-drop-patch-eq", ["C03"], (R, "                    && version.patch == upper_version.patch\n", ""))
mutant("c03-gate-and-to-or", ["C03"], (R, "                if lower_version.is_prerelease()\n                    && version.major == lower_version.major", "                if lower_version.is_prerelease()\n                    || version.major == lower_version.major"))
mutant("c03-true-before-gate", ["C03"], (R, "        if version.is_prerelease() {\n            let lower_version", "        if version.is_prerelease() && self.lower.as_ref() == self.upper.as_ref() {\n            let lower_version"))
mutant("c03-lower-inclusive-as-exclusive", ["C03"], (R, "            Lower(Including(lower)) => lower <= version,", "            Lower(Including(lower)) => lower < version,"))

# ---- C07..C10
mutant("c07-max-to-min", ["C07"], (R, "let lower: &Bound = std::cmp::max(&self.lower, &other.lower);", "let lower: &Bound = std::cmp::min(&self.lower, &other.lower);"))
mutant("c07-cmp-cell", ["C07", "C10"], (R, "            (Lower(Excluding(v1)), Lower(Including(v2))) => {\n                if v1 < v2 {", "            (Lower(Excluding(v1)), Lower(Including(v2))) => {\n                if v1 <= v2 {"))
mutant("c07-new-emptiness", ["C07"], (R, "            (Lower(Excluding(v1)), Upper(Including(v2)))\n            | (Lower(Including(v1)), Upper(Excluding(v2)))\n                if v1 == v2 =>", "            (Lower(Excluding(v1)), Upper(Excluding(v2)))\n                if v1 == v2 =>"))
mutant("c08-flip-identity", ["C08"], (R, "            Excluding(v) => Including(v),", "            Excluding(v) => Excluding(v),"))
mutant("c08-range-diff-unthreaded", ["C08"], (R, "                for piece in &remainders {", "                for piece in &[lefty.clone()] {"))
mutant("c09-allows-any-one-sided", ["C09"], (R, "        if self.upper < other.lower {\n            return false;\n        }\n", ""))
mutant("c09-range-any-first-only", ["C09"], (R, "    pub fn allows_any(&self, other: &Range) -> bool {\n        for this in &self.0 {\n            for that in &other.0 {", "    pub fn allows_any(&self, other: &Range) -> bool {\n        for this in &self.0 {\n            for that in other.0.iter().take(1) {"))
mutant("c10-allows-all-lower-only", ["C10"], (R, "        self.lower <= other.lower && other.upper <= self.upper", "        self.lower <= other.lower"))

# ---- C14
mutant("c14-max-min-swapped", ["C14"], (R, "        versions.iter().filter(|v| self.satisfies(v)).max()", "        versions.iter().filter(|v| self.satisfies(v)).min()"))
mutant("c14-negated-filter", ["C14"], (R, "        versions.iter().filter(|v| self.satisfies(v)).min()", "        versions.iter().filter(|v| !self.satisfies(v)).min()"))
mutant("c14-first-match", ["C14"], (R, "        versions.iter().filter(|v| self.satisfies(v)).max()", "        versions.iter().rev().find(|v| self.satisfies(v))"))

# ---- C18
mutant("c18-swap-signed", ["C18"],
       (L, "                    debug_assert!(patch >= 0, \"Version patch must be non-negative, got {}\", patch);\n\n                    Version {\n                        major: major as u64,\n                        minor: minor as u64,\n                        patch: patch as u64,\n                        build: Vec::new(),\n                        pre_release: Vec::new(),",
           "                    debug_assert!(patch >= 0, \"Version patch must be non-negative, got {}\", patch);\n\n                    Version {\n                        major: major as u64,\n                        minor: patch as u64,\n                        patch: minor as u64,\n                        build: Vec::new(),\n                        pre_release: Vec::new(),"))
mutant("c18-drop-i16", ["C18"], (L, "impl_from_signed_for_version!(i8, i16, i32, i64, isize);", "impl_from_signed_for_version!(i8, i32, i64, isize);"))
mutant("c18-pre-plus-one", ["C18"], (L, "                        pre_release: vec![Identifier::Numeric(pre_release as u64)],\n                    }\n                }\n            }\n        )+\n    }\n}\n\nmacro_rules! impl_from_signed", "                        pre_release: vec![Identifier::Numeric(pre_release as u64 + 1)],\n                    }\n                }\n            }\n        )+\n    }\n}\n\nmacro_rules! impl_from_signed"))
mutant("c18-display-build-first", ["C18"],
       (L, "        for (i, ident) in self.pre_release.iter().enumerate() {\n            if i == 0 {\n                write!(f, \"-\")?;", "        for (i, ident) in self.pre_release.iter().enumerate() {\n            if i == 0 {\n                write!(f, \"~\")?;"))

# ---- neutral edits (must stay silent)
neutral("cmp-arm-reorder", ["C07", "C09"],
        (R, "            (Upper(Unbounded), _) | (_, Lower(Unbounded)) => Ordering::Greater,\n            (Lower(Unbounded), _) | (_, Upper(Unbounded)) => Ordering::Less,\n",
            "            (Upper(Unbounded), _) | (_, Lower(Unbounded)) => Ordering::Greater,\n            (_, Upper(Unbounded)) | (Lower(Unbounded), _) => Ordering::Less,\n"))
neutral("allows-any-one-expression", ["C09"],
        (R, "        if other.upper < self.lower {\n            return false;\n        }\n\n        if self.upper < other.lower {\n            return false;\n        }\n\n        true",
            "        !(other.upper < self.lower || self.upper < other.lower)"))
neutral("range-satisfies-any", ["C07", "C14"],
        (R, "        for range in &self.0 {\n            if range.satisfies(version) {\n                return true;\n            }\n        }\n\n        false",
            "        self.0.iter().any(|range| range.satisfies(version))"))
neutral("version-cmp-then", ["C04", "C16"],
        (L, "        match self.major.cmp(&other.major) {\n            Ordering::Equal => {}\n            //if difference in major version, just return result\n            order_result => return order_result,\n        }\n",
            "        let m = self.major.cmp(&other.major);\n        if m != Ordering::Equal {\n            return m;\n        }\n"))
neutral("diff-renamed-locals", ["C16"],
        (L, "        let high_has_pre = high_version.is_prerelease();\n        let low_has_pre = low_version.is_prerelease();\n\n        if low_has_pre && !high_has_pre {",
            "        let hp = !high_version.pre_release.is_empty();\n        let lp = !low_version.pre_release.is_empty();\n        let (high_has_pre, low_has_pre) = (hp, lp);\n\n        if !high_has_pre && low_has_pre {"))
neutral("max-satisfying-loop", ["C14"],
        (R, "        versions.iter().filter(|v| self.satisfies(v)).max()",
            "        let mut best: Option<&'v Version> = None;\n        for v in versions {\n            if self.satisfies(v) {\n                best = match best {\n                    Some(b) if b > v => Some(b),\n                    _ => Some(v),\n                };\n            }\n        }\n        best"))

# ---- C01 / C02
mutant("c01-tilde-minor-no-inc", ["C01"], (R, "            Bound::Upper(Predicate::Excluding((major, minor + 1, 0, 0).into())),\n        ),\n        (\n            None,\n            Partial {\n                major: Some(major),\n                minor: Some(minor),\n                patch: Some(patch),",
                                            "            Bound::Upper(Predicate::Excluding((major, minor, 0, 0).into())),\n        ),\n        (\n            None,\n            Partial {\n                major: Some(major),\n                minor: Some(minor),\n                patch: Some(patch),"))
mutant("c01-caret-drop-dash-zero", ["C01"], (R, "                    (0, 0, n) => Version::from((0, 0, n + 1, 0)),", "                    (0, 0, n) => Version::from((0, 0, n + 1)),"))
mutant("c01-caret-arm-order", ["C01"], (R, "                    (0, 0, n) => Version::from((0, 0, n + 1, 0)),\n                    (0, n, _) => Version::from((0, n + 1, 0, 0)),", "                    (0, n, _) => Version::from((0, n + 1, 0, 0)),\n                    (0, 0, n) => Version::from((0, 0, n + 1, 0)),"))
mutant("c01-gt-major-incl-excl", ["C01"], (R, "            ) => BoundSet::at_least(Predicate::Including((major + 1, 0, 0).into())),", "            ) => BoundSet::at_least(Predicate::Excluding((major + 1, 0, 0).into())),"))
mutant("c01-operator-shadow", ["C01"], (R, "        Parser::map(literal(\">=\"), |_| GreaterThanEquals),\n        Parser::map(literal(\">\"), |_| GreaterThan),", "        Parser::map(literal(\">\"), |_| GreaterThan),\n        Parser::map(literal(\">=\"), |_| GreaterThanEquals),"))
mutant("c01-operator-swapped", ["C01"], (R, "        Parser::map(literal(\"<=\"), |_| LessThanEquals),\n        Parser::map(literal(\"<\"), |_| LessThan),", "        Parser::map(literal(\"<=\"), |_| LessThan),\n        Parser::map(literal(\"<\"), |_| LessThanEquals),"))
mutant("c01-no-peek-on-tilde", ["C01"], (R, "        terminated(tilde, peek(alt((space1, literal(\"||\"), eof)))),", "        tilde,"))
mutant("c01-partial-before-hyphen", ["C01"], (R, "        terminated(hyphen, peek(alt((space1, literal(\"||\"), eof)))),\n        terminated(primitive, peek(alt((space1, literal(\"||\"), eof)))),\n        terminated(partial, peek(alt((space1, literal(\"||\"), eof)))),", "        terminated(partial, peek(alt((space1, literal(\"||\"), eof)))),\n        terminated(hyphen, peek(alt((space1, literal(\"||\"), eof)))),\n        terminated(primitive, peek(alt((space1, literal(\"||\"), eof)))),"))
mutant("c01-hyphen-upper-minor", ["C01"], (R, "            } => Predicate::Excluding(Version {\n                major,\n                minor: minor + 1,\n                patch: 0,\n                pre_release: vec![Identifier::Numeric(0)],\n                build: vec![],\n            }),\n            partial => Predicate::Including(partial.into()),", "            } => Predicate::Including(Version {\n                major,\n                minor: minor + 1,\n                patch: 0,\n                pre_release: vec![Identifier::Numeric(0)],\n                build: vec![],\n            }),\n            partial => Predicate::Including(partial.into()),"))
mutant("c01-normalisation-lost", ["C01"], (R, "    let patch = if minor.is_some() {\n        patch.flatten()\n    } else {\n        None\n    };", "    let patch = patch.flatten();"))
mutant("c02-fold-widens-again", ["C02", "C01"], (R, "                    .try_fold(first, |acc, bs| acc.intersect(&bs))\n                    .into_iter()\n                    .collect(),", "                    .fold(vec![first], |mut acc: Vec<BoundSet>, bs| {\n                        match acc.last().and_then(|l| l.intersect(&bs)) {\n                            Some(b) => {\n                                acc.pop();\n                                acc.push(b)\n                            }\n                            None => acc.push(bs),\n                        }\n                        acc\n                    }),"))
mutant("c02-fold-restart-after-empty", ["C02"], (R, "                    .try_fold(first, |acc, bs| acc.intersect(&bs))\n                    .into_iter()\n                    .collect(),", "                    .fold(Some(first), |acc, bs| match acc {\n                        Some(a) => a.intersect(&bs),\n                        None => Some(bs),\n                    })\n                    .into_iter()\n                    .collect(),"))
mutant("c02-or-drops-alternative", ["C02"], (R, "        |sets: Vec<Vec<BoundSet>>| sets.into_iter().flatten().collect(),", "        |sets: Vec<Vec<BoundSet>>| sets.into_iter().take(2).flatten().collect(),"))
mutant("c02-satisfies-all", ["C02"], (R, "        for range in &self.0 {\n            if range.satisfies(version) {\n                return true;\n            }\n        }\n\n        false", "        for range in &self.0 {\n            if !range.satisfies(version) {\n                return false;\n            }\n        }\n\n        true"))
neutral("caret-merge-duplicate-arms", ["C01"], (R, "            // TODO: can be compressed?\n            Partial {\n                major: Some(major),\n                minor: None,\n                patch: None,\n                ..\n            } => BoundSet::new(\n                Bound::Lower(Predicate::Including((major, 0, 0).into())),\n                Bound::Upper(Predicate::Excluding((major + 1, 0, 0, 0).into())),\n            ),\n            Partial {\n                major: Some(major),\n                minor: Some(minor),\n                patch: None,\n                ..\n            } => BoundSet::new(\n                Bound::Lower(Predicate::Including((major, minor, 0).into())),",
           "            Partial {\n                major: Some(major),\n                minor,\n                patch: None,\n                ..\n            } => BoundSet::new(\n                Bound::Lower(Predicate::Including((major, minor.unwrap_or(0), 0).into())),"))
neutral("simple-reorder-tilde-caret", ["C01"], (R, "        terminated(tilde, peek(alt((space1, literal(\"||\"), eof)))),\n        terminated(caret, peek(alt((space1, literal(\"||\"), eof)))),", "        terminated(caret, peek(alt((space1, literal(\"||\"), eof)))),\n        terminated(tilde, peek(alt((space1, literal(\"||\"), eof)))),"))
neutral("desugar-version-literal", ["C01"], (R, "            ) => BoundSet::at_least(Predicate::Including((major, minor + 1, 0).into())),", "            ) => BoundSet::at_least(Predicate::Including(Version {\n                major,\n                minor: minor + 1,\n                patch: 0,\n                pre_release: Vec::new(),\n                build: Vec::new(),\n            })),"))
neutral("fold-explicit-loop", ["C02", "C01"], (R, "            let mut sets = bs.into_iter().flatten();\n            match sets.next() {\n                Some(first) => sets\n                    .try_fold(first, |acc, bs| acc.intersect(&bs))\n                    .into_iter()\n                    .collect(),\n                None => Vec::new(),\n            }",
           "            let mut acc: Option<BoundSet> = None;\n            let mut any = false;\n            for b in bs.into_iter().flatten() {\n                if !any {\n                    acc = Some(b);\n                    any = true;\n                } else if let Some(a) = acc.take() {\n                    acc = a.intersect(&b);\n                }\n            }\n            acc.into_iter().collect()"))

# ---- C17
mutant("c17-advanced-input", ["C17"], (L, "                ErrMode::Backtrack(e) | ErrMode::Cut(e) => SemverError {\n                    input: original.into(),", "                ErrMode::Backtrack(e) | ErrMode::Cut(e) => SemverError {\n                    input: input.into(),"))
mutant("c17-advanced-base-range", ["C17"], (R, "span: (e.input.as_ptr() as usize - original.as_ptr() as usize, 0).into(),", "span: (e.input.as_ptr() as usize - input.as_ptr() as usize, 0).into(),"))
mutant("c17-len-minus-1", ["C17"], (L, "                span: (input.len(), 0).into(),\n                kind: SemverErrorKind::MaxLengthError,", "                span: (input.len() - 1, 0).into(),\n                kind: SemverErrorKind::MaxLengthError,"))
mutant("c17-maxint-ge", ["C17"], (L, "        if value > MAX_SAFE_INTEGER {", "        if value >= MAX_SAFE_INTEGER {"))
mutant("c17-maxint-wrong-position", ["C17"], (L, "            return Err(SemverParseError {\n                input: copied,\n                context: None,\n                kind: Some(SemverErrorKind::MaxIntError(value)),", "            return Err(SemverParseError {\n                input: raw,\n                context: None,\n                kind: Some(SemverErrorKind::MaxIntError(value)),"))
mutant("c17-kind-lost-in-append", ["C17"], (L, "            input: input.clone(),\n            context: self.context,\n            kind: self.kind,", "            input: input.clone(),\n            context: self.context,\n            kind: None,"))
mutant("c17-guard-after-parse", ["C17"], (L, "        if input.len() > MAX_LENGTH {", "        if input.len() > MAX_LENGTH + 1 {"))
mutant("c17-context-before-kind", ["C17"], (R, "                    kind: if let Some(kind) = e.kind {\n                        kind\n                    } else if let Some(ctx) = e.context {\n                        SemverErrorKind::Context(ctx)\n                    } else {", "                    kind: if let Some(ctx) = e.context {\n                        SemverErrorKind::Context(ctx)\n                    } else if let Some(kind) = e.kind {\n                        kind\n                    } else {"))
mutant("c17-novalid-never", ["C17"], (R, "        if sets.is_empty() {\n            Err(SemverParseError {", "        if sets.len() > 1000 {\n            Err(SemverParseError {"))
neutral("parse-original-shadow", ["C17"], (L, "        let original = input.as_ref();\n        let mut input = original;\n\n        if input.len() > MAX_LENGTH {", "        let original: &str = input.as_ref();\n        let mut input: &str = <&str>::clone(&original);\n\n        if original.len() > MAX_LENGTH {"))

# ---- C06
mutant("c06-unwrap-in-hyphen", ["C06"], (R, "        Ok(BoundSet::new(\n            Bound::Lower(Predicate::Including(lower.into())),\n            Bound::Upper(upper),\n        ))", "        Ok(Some(BoundSet::new(\n            Bound::Lower(Predicate::Including(lower.into())),\n            Bound::Upper(upper),\n        ).unwrap()))"))
neutral("exact-unwrap-never-fails", ["C06"], (R, "        partial => BoundSet::exact(partial.into()),\n    })\n    .context(\"plain version range (ex: 1.2)\")", "        partial => Some(BoundSet::exact(partial.into()).unwrap()),\n    })\n    .context(\"plain version range (ex: 1.2)\")"))
mutant("c06-separator-space0", ["C06"], (R, "        separated(0.., simple, space1),", "        separated(0.., simple, space0),"))
mutant("c06-recursion", ["C06"], (R, "        self.0.iter().filter_map(BoundSet::min_version).min()", "        self.0.iter().filter_map(BoundSet::min_version).min().or_else(|| self.min_version())"))
mutant("c06-index-vec", ["C11"], (R, "        self.0.iter().filter_map(BoundSet::min_version).min()", "        self.0[0].min_version()"))
mutant("c06-cmp-cell-reverted", ["C06", "C07"],
       (R, "            | (Lower(Including(v1)), Upper(Excluding(v2)))\n            | (Upper(Including(v1)), Upper(Excluding(v2))) => {", "            | (Lower(Including(v1)), Upper(Excluding(v2))) => {"),
       (R, "            (Upper(Including(v1)), Lower(Excluding(v2)))\n            | (Lower(Excluding(v1)), Upper(Including(v2))) => {", "            (Upper(Including(v1)), Lower(Excluding(v2)))\n            | (Upper(Including(v1)), Upper(Excluding(v2)))\n            | (Lower(Excluding(v1)), Upper(Including(v2))) => {"))
mutant("c06-while-loop", ["C06"], (R, "    pub fn any() -> Self {\n        Self(vec![BoundSet::new(Bound::lower(), Bound::upper()).unwrap()])", "    pub fn any() -> Self {\n        let mut n = 0u64;\n        while n < MAX_SAFE_INTEGER {\n            n += 2;\n        }\n        Self(vec![BoundSet::new(Bound::lower(), Bound::upper()).unwrap()])"))
mutant("c06-len-minus-one", ["C06"], (L, "                span: (input.len(), 0).into(),\n                kind: SemverErrorKind::MaxLengthError,", "                span: (input.len() - 300, 0).into(),\n                kind: SemverErrorKind::MaxLengthError,"))
neutral("range-any-expect-free", ["C06"], (R, "        Self(vec![BoundSet::new(Bound::lower(), Bound::upper()).unwrap()])", "        Self(BoundSet::new(Bound::lower(), Bound::upper()).into_iter().collect())"))

# ---- C05
mutant("c05-pre-release-nullable", ["C05"], (L, "    preceded(opt(literal(\"-\")), separated(1.., identifier, literal(\".\")))", "    preceded(opt(literal(\"-\")), separated(0.., identifier, literal(\".\")))"))
mutant("c05-no-eof", ["C05"], (L, "        extras,\n        space0,\n        eof,\n    )\n        .map(\n            |(_, _, (major, minor, patch), (pre_release, build), _, _)| Version {", "        extras,\n        space0,\n    )\n        .map(\n            |(_, _, (major, minor, patch), (pre_release, build), _)| Version {"))
mutant("c05-ident-as-u8", ["C05"], (L, "|x: char| x.is_ascii_alphanumeric() || x == '-'", "|x: char| (x as u8).is_ascii_alphanumeric() || x == '-'"))
mutant("c05-ident-allows-underscore", ["C05"], (L, "|x: char| x.is_ascii_alphanumeric() || x == '-'", "|x: char| x.is_ascii_alphanumeric() || x == '-' || x == '_'"))
mutant("c05-swap-pre-build", ["C05"], (L, "                pre_release,\n                build,\n            },\n        )\n        .context(\"version\")", "                pre_release: build,\n                build: pre_release,\n            },\n        )\n        .context(\"version\")"))
mutant("c05-no-length-guard", ["C05"], (L, "        if input.len() > MAX_LENGTH {", "        if input.len() > MAX_LENGTH && input.starts_with('v') {"))
mutant("c05-minor-patch-swapped", ["C05"], (L, "        .map(|(major, _, minor, _, patch)| (major, minor, patch))", "        .map(|(major, _, minor, _, patch)| (major, patch, minor))"))
mutant("c05-build-before-core-sep", ["C05"], (L, "    (number, literal(\".\"), number, literal(\".\"), number)", "    (number, literal(\".\"), number, alt((literal(\".\"), literal(\"-\"))), number)"))
neutral("extras-alt-reordered", ["C05"], (L, "            Parser::map((pre_release, build), Extras::ReleaseAndBuild),\n            Parser::map(pre_release, Extras::Release),\n            Parser::map(build, Extras::Build),", "            Parser::map(build, Extras::Build),\n            Parser::map((pre_release, build), Extras::ReleaseAndBuild),\n            Parser::map(pre_release, Extras::Release),"))
neutral("ident-class-matches", ["C05"], (L, "|x: char| x.is_ascii_alphanumeric() || x == '-'", "|x: char| matches!(x, '0'..='9' | 'a'..='z' | 'A'..='Z' | '-')"))

# ---- C11
mutant("c11-min-to-max", ["C11"], (R, "        self.0.iter().filter_map(BoundSet::min_version).min()", "        self.0.iter().filter_map(BoundSet::min_version).max()"))
mutant("c11-unchecked-candidate", ["C11"], (R, "        candidates.into_iter().find(|v| self.satisfies(v))", "        candidates.into_iter().next()"))
mutant("c11-patch-plus-two", ["C11", "C06"], (R, "                    next.patch += 1;\n                    let release = next.clone();", "                    next.patch += 2;\n                    let release = next.clone();"))
mutant("c11-first-alternative-only", ["C11"], (R, "        self.0.iter().filter_map(BoundSet::min_version).min()", "        self.0.iter().filter_map(BoundSet::min_version).next()"))

# ---- C12 / C13 / C15
mutant("c12-display-dot-for-build", ["C12", "C18"], (L, "        for (i, ident) in self.build.iter().enumerate() {\n            if i == 0 {\n                write!(f, \"+\")?;", "        for (i, ident) in self.build.iter().enumerate() {\n            if i == 0 {\n                write!(f, \".\")?;"))
mutant("c12-display-no-hyphen", ["C12"], (L, "            if i == 0 {\n                write!(f, \"-\")?;\n            } else {\n                write!(f, \".\")?;\n            }\n            write!(f, \"{}\", ident)?;\n        }\n\n        for (i, ident) in self.build", "            if i == 0 {\n                write!(f, \"\")?;\n            } else {\n                write!(f, \".\")?;\n            }\n            write!(f, \"{}\", ident)?;\n        }\n\n        for (i, ident) in self.build"))
mutant("c12-ident-display-prefix", ["C12"], (L, "            Identifier::AlphaNumeric(s) => write!(f, \"{}\", s),", "            Identifier::AlphaNumeric(s) => write!(f, \"a{}\", s),"))
mutant("c12-build-separator-comma", ["C12"], (L, "    preceded(literal(\"+\"), separated(1.., identifier, literal(\".\")))", "    preceded(literal(\"+\"), separated(1.., identifier, literal(\",\")))"))
mutant("c13-display-swapped-ops", ["C13"], (R, "            (Lower(Unbounded), Upper(Including(v))) => write!(f, \"<={}\", v),\n            (Lower(Unbounded), Upper(Excluding(v))) => write!(f, \"<{}\", v),", "            (Lower(Unbounded), Upper(Including(v))) => write!(f, \"<{}\", v),\n            (Lower(Unbounded), Upper(Excluding(v))) => write!(f, \"<={}\", v),"))
mutant("c13-display-two-sided-order", ["C13"], (R, "write!(f, \">{} <={}\", v, v2),", "write!(f, \">{} <={}\", v2, v),"))
mutant("c13-display-join-single-bar", ["C13"], (R, "            if i > 0 {\n                write!(f, \"||\")?;", "            if i > 0 {\n                write!(f, \"|\")?;"))
mutant("c13-display-exact-as-range", ["C13"], (R, "            (Lower(Including(v)), Upper(Including(v2))) if v == v2 => write!(f, \"{}\", v),", "            (Lower(Including(v)), Upper(Including(v2))) if v == v2 => write!(f, \"~{}\", v),"))
mutant("c15-intersect-swaps-sides", ["C15", "C07"], (R, "        let upper: &Bound = std::cmp::min(&self.upper, &other.upper);", "        let upper: &Bound = std::cmp::min(&self.upper, &self.upper);"))
neutral("display-write-str", ["C13"], (R, "            (Lower(Unbounded), Upper(Unbounded)) => write!(f, \"*\"),", "            (Lower(Unbounded), Upper(Unbounded)) => f.write_str(\"*\"),"))

# ---- representation refactors (must stay silent)
neutral("boundset-unboxed", ["C07", "C08", "C09", "C03", "C01", "C11", "C13"],
        (R, "struct BoundSet {\n    upper: Box<Bound>,\n    lower: Box<Bound>,\n}", "struct BoundSet {\n    upper: Bound,\n    lower: Bound,\n}"),
        (R, "            (Lower(Including(v1)), Upper(Including(v2))) if v1 == v2 => Some(Self {\n                lower: Box::new(Lower(Including(v1))),\n                upper: Box::new(Upper(Including(v2))),\n            }),\n            (lower, upper) if lower < upper => Some(Self {\n                lower: Box::new(lower),\n                upper: Box::new(upper),\n            }),",
            "            (Lower(Including(v1)), Upper(Including(v2))) if v1 == v2 => Some(Self {\n                lower: Lower(Including(v1)),\n                upper: Upper(Including(v2)),\n            }),\n            (lower, upper) if lower < upper => Some(Self {\n                lower,\n                upper,\n            }),"),
        (R, "        let lower_bound = match &self.lower.as_ref() {", "        let lower_bound = match &&self.lower {"),
        (R, "        let upper_bound = match &self.upper.as_ref() {", "        let upper_bound = match &&self.upper {"),
        (R, "            let lower_version = match &self.lower.as_ref() {", "            let lower_version = match &&self.lower {"),
        (R, "            let upper_version = match &self.upper.as_ref() {", "            let upper_version = match &&self.upper {"),
        (R, "        let candidates = match self.lower.as_ref() {", "        let candidates = match &self.lower {"),
        (R, "                    BoundSet::new(*self.lower.clone(), Upper(overlap.lower.predicate().flip()))\n                        .unwrap(),\n                    BoundSet::new(Lower(overlap.upper.predicate().flip()), *self.upper.clone())\n                        .unwrap(),",
            "                    BoundSet::new(self.lower.clone(), Upper(overlap.lower.predicate().flip()))\n                        .unwrap(),\n                    BoundSet::new(Lower(overlap.upper.predicate().flip()), self.upper.clone())\n                        .unwrap(),"),
        (R, "                return BoundSet::new(*self.lower.clone(), Upper(overlap.lower.predicate().flip()))\n                    .map(|f| vec![f]);", "                return BoundSet::new(self.lower.clone(), Upper(overlap.lower.predicate().flip()))\n                    .map(|f| vec![f]);"),
        (R, "            BoundSet::new(Lower(overlap.upper.predicate().flip()), *self.upper.clone())\n                .map(|f| vec![f])", "            BoundSet::new(Lower(overlap.upper.predicate().flip()), self.upper.clone())\n                .map(|f| vec![f])"),
        (R, "        match (&self.lower.as_ref(), &self.upper.as_ref()) {", "        match (&&self.lower, &&self.upper) {"))

# ---- C01 token level
mutant("c01-no-blank-after-operator", ["C01"], (R, "        (operation, preceded(space0, partial_version)),", "        (operation, partial_version),"))
mutant("c01-capital-x-lost", ["C01"], (R, "alt((literal(\"x\"), literal(\"X\"), literal(\"*\")))", "alt((literal(\"x\"), literal(\"*\")))"))
mutant("c01-hyphen-single-blank", ["C01"], (R, "        let _ = space1(input)?;\n        let _ = literal(\"-\").parse_next(input)?;\n        let _ = space1(input)?;", "        let _ = literal(\" \").parse_next(input)?;\n        let _ = literal(\"-\").parse_next(input)?;\n        let _ = literal(\" \").parse_next(input)?;"))
mutant("c01-caret-no-blank", ["C01"], (R, "        preceded((literal(\"^\"), space0), partial_version),", "        preceded(literal(\"^\"), partial_version),"))
mutant("c01-peek-drops-bar", ["C01"], (R, "        terminated(primitive, peek(alt((space1, literal(\"||\"), eof)))),", "        terminated(primitive, peek(alt((space1, eof)))),"))

# ---- more behaviour-preserving rewrites (must stay silent)
neutral("gate-helper-fn", ["C03", "C01", "C11"],
        (R, "            if let Some(lower_version) = lower_version {\n                if lower_version.is_prerelease()\n                    && version.major == lower_version.major\n                    && version.minor == lower_version.minor\n                    && version.patch == lower_version.patch\n                {\n                    return true;\n                }\n            }",
            "            fn same_tuple(a: &Version, b: &Version) -> bool {\n                (a.major, a.minor, a.patch) == (b.major, b.minor, b.patch)\n            }\n            if let Some(lower_version) = lower_version {\n                if lower_version.is_prerelease() && same_tuple(version, lower_version) {\n                    return true;\n                }\n            }"))
neutral("new-without-special-arms", ["C07", "C08", "C13"],
        (R, "            (Lower(Including(v1)), Upper(Including(v2))) if v1 == v2 => Some(Self {\n                lower: Box::new(Lower(Including(v1))),\n                upper: Box::new(Upper(Including(v2))),\n            }),\n            (lower, upper) if lower < upper => Some(Self {",
            "            (lower, upper)\n                if lower < upper\n                    || matches!((&lower, &upper), (Lower(Including(a)), Upper(Including(b))) if a == b) =>\n            {\n                Some(Self {"),
        (R, "                lower: Box::new(lower),\n                upper: Box::new(upper),\n            }),\n            _ => None,", "                    lower: Box::new(lower),\n                    upper: Box::new(upper),\n                })\n            }\n            _ => None,"))
neutral("diff-match-style", ["C16"],
        (L, "        if self.major != other.major {\n            if high_has_pre {\n                return Some(VersionDiff::PreMajor);\n            }\n\n            return Some(VersionDiff::Major);\n        }",
            "        if self.major != other.major {\n            return Some(match high_has_pre {\n                true => VersionDiff::PreMajor,\n                false => VersionDiff::Major,\n            });\n        }"))
neutral("display-version-write-char", ["C12", "C18", "C13"],
        (L, "            if i == 0 {\n                write!(f, \"-\")?;\n            } else {\n                write!(f, \".\")?;\n            }\n            write!(f, \"{}\", ident)?;\n        }\n\n        for (i, ident) in self.build",
            "            f.write_str(if i == 0 { \"-\" } else { \".\" })?;\n            write!(f, \"{}\", ident)?;\n        }\n\n        for (i, ident) in self.build"))
neutral("intersect-explicit-compare", ["C07", "C09", "C15"],
        (R, "        let lower: &Bound = std::cmp::max(&self.lower, &other.lower);\n        let upper: &Bound = std::cmp::min(&self.upper, &other.upper);",
            "        let lower: &Bound = if self.lower >= other.lower { &self.lower } else { &other.lower };\n        let upper: &Bound = if self.upper <= other.upper { &self.upper } else { &other.upper };"))
neutral("range-intersect-iterators", ["C07", "C15"],
        (R, "        let mut sets = Vec::new();\n\n        for lefty in &self.0 {\n            for righty in &other.0 {\n                if let Some(set) = lefty.intersect(righty) {\n                    sets.push(set)\n                }\n            }\n        }\n",
            "        let sets: Vec<BoundSet> = self\n            .0\n            .iter()\n            .flat_map(|lefty| other.0.iter().filter_map(move |righty| lefty.intersect(righty)))\n            .collect();\n"))
neutral("parse-entry-map-err", ["C17", "C05", "C06"],
        (R, "        match range_set.parse_next(&mut input) {\n            Ok(range) => Ok(range),\n            Err(err) => Err(match err {", "        match range_set.parse_next(&mut input) {\n            Ok(range) => Ok(range),\n            Err(err) => Err(match err {"),
        (L, "    pub fn is_prerelease(&self) -> bool {\n        !self.pre_release.is_empty()\n    }", "    pub fn is_prerelease(&self) -> bool {\n        self.pre_release.first().is_some()\n    }"))
neutral("version-eq-tuple", ["C04", "C16", "C03"],
        (L, "        self.major == other.major\n            && self.minor == other.minor\n            && self.patch == other.patch\n            && self.pre_release == other.pre_release",
            "        (self.major, self.minor, self.patch) == (other.major, other.minor, other.patch)\n            && self.pre_release == other.pre_release"))
neutral("min-version-match", ["C11", "C06"],
        (R, "        candidates.into_iter().find(|v| self.satisfies(v))", "        for v in candidates {\n            if self.satisfies(&v) {\n                return Some(v);\n            }\n        }\n        None"))

# ---- C17 location()
mutant("c17-location-counts-cr", ["C17"], (L, "        let line_number = bytecount::count(prefix, b'\\n');", "        let line_number = bytecount::count(prefix, b'\\r');"))
mutant("c17-location-column-from-zero", ["C17"], (L, "            .map(|pos| self.offset() - pos)\n            .unwrap_or(0);", "            .map(|pos| self.offset() - pos - 1)\n            .unwrap_or(0);"))
mutant("c17-location-first-newline", ["C17"], (L, "        let line_begin = prefix\n            .iter()\n            .rev()\n            .position(|&b| b == b'\\n')", "        let line_begin = prefix\n            .iter()\n            .position(|&b| b == b'\\n')"))
neutral("location-rposition", ["C17", "C06"], (L, "        let line_begin = prefix\n            .iter()\n            .rev()\n            .position(|&b| b == b'\\n')\n            .map(|pos| self.offset() - pos)\n            .unwrap_or(0);", "        let line_begin = prefix\n            .iter()\n            .rposition(|&b| b == b'\\n')\n            .map(|pos| pos + 1)\n            .unwrap_or(0);"))
