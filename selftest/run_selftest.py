#!/usr/bin/env python3
"""Self-test of the checkers: apply one edit to a scratch copy of /repo and run the relevant checks
against it (SA_REPO=<copy>). Mutants must be reported (exit 1, VIOLATION), neutral edits must stay
silent (exit 0). Not part of any registered check. Usage:
    selftest/run_selftest.py [--suite] [--only NAME_SUBSTRING] [--jobs N]
--suite additionally runs the crate's own tests on each mutant to confirm that they still pass."""
import argparse
import concurrent.futures as cf
import os
import shutil
import subprocess
import sys
import tempfile

HERE = os.path.dirname(os.path.abspath(__file__))
VERIF = os.path.dirname(HERE)
sys.path.insert(0, HERE)
from cases import CASES  # noqa: E402


def run_case(case, suite):
    name, props, edits, expect = case["name"], case["props"], case["edits"], case["expect"]
    tmp = tempfile.mkdtemp(prefix="st-%s-" % name, dir="/tmp")
    repo = os.path.join(tmp, "repo")
    try:
        subprocess.run(["rsync", "-a", "--exclude", "target", "--exclude", ".git", "/repo/", repo + "/"], check=True)
        for (path, old, new) in edits:
            p = os.path.join(repo, path)
            s = open(p).read()
            if s.count(old) != 1:
                return name, "SETUP-ERROR", "pattern occurs %d times in %s" % (s.count(old), path)
            open(p, "w").write(s.replace(old, new))
        out = []
        if suite:
            r = subprocess.run(["cargo", "test", "--offline", "-q"], cwd=repo, capture_output=True, text=True,
                               env=dict(os.environ, CARGO_TARGET_DIR=os.path.join(tmp, "tt"), CARGO_NET_OFFLINE="true"))
            if r.returncode != 0:
                return name, "SUITE-FAILS", (r.stdout + r.stderr)[-600:]
        verdicts = []
        for prop in props:
            env = dict(os.environ, SA_REPO=repo)
            r = subprocess.run([os.path.join(VERIF, "check"), prop], capture_output=True, text=True, env=env)
            verdicts.append((prop, r.returncode))
            out.append(r.stdout[-1500:])
        if expect == "violation":
            good = any(rc == 1 for _, rc in verdicts)
        else:
            good = all(rc == 0 for _, rc in verdicts)
        return name, "ok" if good else "WRONG", "%s expected %s\n%s" % (verdicts, expect, "\n".join(out) if not good else "")
    finally:
        shutil.rmtree(tmp, ignore_errors=True)


def main():
    ap = argparse.ArgumentParser()
    ap.add_argument("--suite", action="store_true")
    ap.add_argument("--only", default=None)
    ap.add_argument("--jobs", type=int, default=6)
    a = ap.parse_args()
    cases = [c for c in CASES if not a.only or a.only in c["name"]]
    bad = 0
    with cf.ThreadPoolExecutor(a.jobs) as ex:
        for name, verdict, detail in ex.map(lambda c: run_case(c, a.suite), cases):
            print("%-44s %s" % (name, verdict))
            if verdict != "ok":
                bad += 1
                print("    " + detail.replace("\n", "\n    "))
    print("%d cases, %d wrong" % (len(cases), bad))
    # evidence files were rewritten by the runs against scratch copies; restore them for /repo
    return 1 if bad else 0


if __name__ == "__main__":
    sys.exit(main())
