#!/usr/bin/env python3
"""Apply seeded changes (patch files) to a scratch copy of /repo and run the checks against it.
Usage: selftest/run_seeded.py [--all-checks] PATCH [PATCH…]   or   selftest/run_seeded.py --dir /verif/seeded
Prints, per patch, which checks report a VIOLATION (exit 1), which stay silent (0) and which are inconclusive (2).
Never touches /repo; the scratch copy and its build output are removed afterwards."""
import argparse
import concurrent.futures as cf
import json
import os
import shutil
import subprocess
import sys
import tempfile

VERIF = os.path.dirname(os.path.dirname(os.path.abspath(__file__)))
ALL = ["C%02d" % i for i in range(1, 19)]


def run_patch(patch, props, suite=False):
    tmp = tempfile.mkdtemp(prefix="seed-", dir="/tmp")
    repo = os.path.join(tmp, "repo")
    try:
        subprocess.run(["rsync", "-a", "--exclude", "target", "--exclude", ".git", "/repo/", repo + "/"], check=True)
        r = subprocess.run(["patch", "-p1", "--no-backup-if-mismatch", "-i", os.path.abspath(patch)], cwd=repo, capture_output=True, text=True)
        if r.returncode != 0:
            return patch, {"error": "patch does not apply: " + r.stdout[-400:] + r.stderr[-400:]}
        res = {}
        if suite:
            t = subprocess.run(["cargo", "test", "--offline", "-q"], cwd=repo, capture_output=True, text=True,
                               env=dict(os.environ, CARGO_TARGET_DIR=os.path.join(tmp, "tt"), CARGO_NET_OFFLINE="true"))
            res["suite"] = "passes" if t.returncode == 0 else "FAILS"

        def one(p):
            env = dict(os.environ, SA_REPO=repo)
            r = subprocess.run([os.path.join(VERIF, "check"), p], capture_output=True, text=True, env=env)
            keys = [l.split("key:", 1)[1].strip() for l in r.stdout.splitlines() if l.strip().startswith("key:")]
            return p, r.returncode, keys
        with cf.ThreadPoolExecutor(6) as ex:
            for p, rc, keys in ex.map(one, props):
                res[p] = (rc, keys[:3])
        return patch, res
    finally:
        shutil.rmtree(tmp, ignore_errors=True)


def main():
    ap = argparse.ArgumentParser()
    ap.add_argument("patches", nargs="*")
    ap.add_argument("--dir", default=None)
    ap.add_argument("--suite", action="store_true")
    ap.add_argument("--props", default=None, help="comma separated; default all 18")
    a = ap.parse_args()
    patches = list(a.patches)
    if a.dir:
        for d in sorted(os.listdir(a.dir)):
            p = os.path.join(a.dir, d, "patch.diff")
            if os.path.exists(p):
                patches.append(p)
    props = a.props.split(",") if a.props else ALL
    out = {}
    for patch in patches:
        name, res = run_patch(patch, props, a.suite)
        out[name] = res
        if "error" in res:
            print("%s: %s" % (name, res["error"]))
            continue
        caught = [p for p in props if res[p][0] == 1]
        inconc = [p for p in props if res[p][0] == 2]
        print("%s: suite=%s caught by %s%s" % (name, res.get("suite", "-"), caught or "NOTHING",
                                               (" inconclusive: %s" % inconc) if inconc else ""))
        for p in caught:
            for k in res[p][1][:2]:
                print("     %s" % k)
    return 0


if __name__ == "__main__":
    sys.exit(main())
