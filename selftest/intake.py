#!/usr/bin/env python3
"""Intake of a change written by a sub-agent: verify it independently in a scratch copy of /repo and store it.
Usage: selftest/intake.py {seeded|neutral} PROPERTY WORKTREE ROUND
WORKTREE/out/ holds patch.diff, demo.rs, notes.txt.  Verified here, never trusted:
  patch applies to a clean copy; `cargo test --offline` (with and without --features serde) passes with it;
  the demo passes on the clean copy; with the patch it fails (seeded) / passes (neutral).
Stored as /verif/<kind>/<PROPERTY>-<next index>/ only when all of that holds.  /repo is never touched."""
import json
import os
import re
import shutil
import subprocess
import sys
import tempfile

VERIF = os.path.dirname(os.path.dirname(os.path.abspath(__file__)))


def cargo(repo, tdir, *args):
    r = subprocess.run(["cargo", "test", "--offline", *args], cwd=repo, capture_output=True, text=True,
                       env=dict(os.environ, CARGO_TARGET_DIR=tdir, CARGO_NET_OFFLINE="true"))
    res = " | ".join(l.strip() for l in r.stdout.splitlines() if l.startswith("test result"))
    return r.returncode == 0, res


def main():
    kind, prop, wt, rnd = sys.argv[1:5]
    out = os.path.join(wt, "out")
    patch = os.path.join(out, "patch.diff")
    demo = os.path.join(out, "demo.rs")
    for f in (patch, demo):
        if not os.path.exists(f):
            print("MISSING", f)
            return 2
    tmp = tempfile.mkdtemp(prefix="intake-", dir="/tmp")
    try:
        clean, pat = os.path.join(tmp, "clean"), os.path.join(tmp, "pat")
        for d in (clean, pat):
            subprocess.run(["rsync", "-a", "--exclude", "target", "--exclude", ".git", "/repo/", d + "/"], check=True)
        r = subprocess.run(["patch", "-p1", "--no-backup-if-mismatch", "-i", patch], cwd=pat, capture_output=True, text=True)
        v = {"patch_applies_to_clean_copy": r.returncode == 0}
        if r.returncode != 0:
            print("REJECT patch does not apply", r.stdout[-300:])
            return 1
        touched = re.findall(r"^\+\+\+ b/(\S+)", open(patch).read(), re.M)
        v["files_touched"] = touched
        if any(not t.startswith("src/") for t in touched):
            print("REJECT touches files outside src/:", touched)
            return 1
        tdir = os.path.join(tmp, "tt")
        ok1, s1 = cargo(pat, tdir)
        ok2, s2 = cargo(pat, tdir, "--features", "serde")
        v["existing_suite_passes_with_patch (cargo test --offline)"] = ok1
        v["existing_suite_passes_with_patch (--features serde)"] = ok2
        v["suite_result"] = s1
        os.makedirs(os.path.join(clean, "tests"), exist_ok=True)
        os.makedirs(os.path.join(pat, "tests"), exist_ok=True)
        shutil.copy(demo, os.path.join(clean, "tests", "seeddemo.rs"))
        shutil.copy(demo, os.path.join(pat, "tests", "seeddemo.rs"))
        okc, sc = cargo(clean, os.path.join(tmp, "tc"), "--test", "seeddemo")
        okp, sp = cargo(pat, tdir, "--test", "seeddemo")
        v["demo_passes_on_clean_copy"] = okc
        v["demo_result_clean"] = sc
        v["demo_result_patched"] = sp
        if kind == "seeded":
            v["demo_fails_with_patch"] = not okp and "FAILED" in sp
            good = ok1 and ok2 and okc and v["demo_fails_with_patch"]
        else:
            v["demo_passes_with_patch"] = okp
            good = ok1 and ok2 and okc and okp
        print(json.dumps(v, indent=1))
        if not good:
            print("REJECT")
            return 1
        base = os.path.join(VERIF, kind)
        idx = 1 + max([int(d.split("-")[1]) for d in os.listdir(base) if d.startswith(prop + "-")] or [0])
        name = "%s-%d" % (prop, idx)
        dst = os.path.join(base, name)
        os.makedirs(dst)
        shutil.copy(patch, os.path.join(dst, "patch.diff"))
        shutil.copy(demo, os.path.join(dst, "demo.rs"))
        notes = open(os.path.join(out, "notes.txt")).read() if os.path.exists(os.path.join(out, "notes.txt")) else ""
        head = subprocess.run(["git", "-C", "/repo", "rev-parse", "--short", "HEAD"], capture_output=True, text=True).stdout.strip()
        meta = {"id": name, "round": int(rnd), "property": prop,
                "origin": "written by a fresh sub-agent that saw only the property text and a scratch worktree of /repo (HEAD %s)" % head,
                "verified_by_me": v, "how_to_run": "selftest/run_seeded.py %s/%s/patch.diff" % (kind, name)}
        if kind == "seeded":
            meta["what_it_needs_to_manifest_and_author_notes"] = notes
        else:
            meta["kind"] = "behaviour-preserving"
            meta["author_notes"] = notes
            meta["expected"] = "every check stays silent (exit 0)"
        json.dump(meta, open(os.path.join(dst, "meta.json"), "w"), indent=1)
        print("STORED", dst)
        return 0
    finally:
        shutil.rmtree(tmp, ignore_errors=True)


if __name__ == "__main__":
    sys.exit(main())
