//! Minimal JSON value + writer (the driver has no Cargo dependencies).
use std::fmt::Write;

#[derive(Clone, Debug)]
pub enum J {
    Null,
    Bool(bool),
    Num(i128),
    Str(String),
    Arr(Vec<J>),
    Obj(Vec<(String, J)>),
}

impl J {
    pub fn s<S: Into<String>>(s: S) -> J {
        J::Str(s.into())
    }
    pub fn obj(items: Vec<(&str, J)>) -> J {
        J::Obj(items.into_iter().map(|(k, v)| (k.to_string(), v)).collect())
    }
    pub fn write(&self, out: &mut String) {
        match self {
            J::Null => out.push_str("null"),
            J::Bool(b) => out.push_str(if *b { "true" } else { "false" }),
            J::Num(n) => {
                let _ = write!(out, "{}", n);
            }
            J::Str(s) => write_str(s, out),
            J::Arr(a) => {
                out.push('[');
                for (i, x) in a.iter().enumerate() {
                    if i > 0 {
                        out.push(',');
                    }
                    x.write(out);
                }
                out.push(']');
            }
            J::Obj(o) => {
                out.push('{');
                for (i, (k, v)) in o.iter().enumerate() {
                    if i > 0 {
                        out.push(',');
                    }
                    write_str(k, out);
                    out.push(':');
                    v.write(out);
                }
                out.push('}');
            }
        }
    }
}

fn write_str(s: &str, out: &mut String) {
    out.push('"');
    for c in s.chars() {
        match c {
            '"' => out.push_str("\\\""),
            '\\' => out.push_str("\\\\"),
            '\n' => out.push_str("\\n"),
            '\r' => out.push_str("\\r"),
            '\t' => out.push_str("\\t"),
            c if (c as u32) < 0x20 => {
                let _ = write!(out, "\\u{:04x}", c as u32);
            }
            c => out.push(c),
        }
    }
    out.push('"');
}
