//! `sa` — fact extractor for the nodejs-semver verification harness.
//!
//! Runs as `RUSTC_WORKSPACE_WRAPPER` under `cargo +nightly check`. For the crate named in
//! `SA_CRATE` (default `nodejs_semver`) it writes one JSON document to `SA_OUT` holding the
//! type-checked program as rustc sees it: every MIR body of the crate with resolved callees,
//! evaluated constants, ADT layouts, trait impl tables, spans. No property is decided here;
//! all engines live in /verif/engine (Python) and read this document.
#![feature(rustc_private)]

extern crate rustc_abi;
extern crate rustc_driver;
extern crate rustc_hir;
extern crate rustc_interface;
extern crate rustc_middle;
extern crate rustc_span;

mod json;

use json::J;
use rustc_driver::Compilation;
use rustc_hir::def::DefKind;
use rustc_hir::def_id::{DefId, LOCAL_CRATE};
use rustc_middle::mir::{
    self, AggregateKind, BinOp, BorrowKind, CastKind, Operand, Place, ProjectionElem, Rvalue,
    StatementKind, TerminatorKind, UnwindAction,
};
use rustc_middle::ty::{self, Ty, TyCtxt, TyKind};
use rustc_span::Span;
use std::collections::HashMap;

struct Cb;

impl rustc_driver::Callbacks for Cb {
    fn after_analysis<'tcx>(
        &mut self,
        _c: &rustc_interface::interface::Compiler,
        tcx: TyCtxt<'tcx>,
    ) -> Compilation {
        let want = std::env::var("SA_CRATE").unwrap_or_else(|_| "nodejs_semver".to_string());
        let name = tcx.crate_name(LOCAL_CRATE).to_string();
        if name == want {
            if let Ok(out) = std::env::var("SA_OUT") {
                let mut ex = Exporter::new(tcx);
                let doc = ex.export();
                let mut s = String::with_capacity(1 << 22);
                doc.write(&mut s);
                std::fs::write(&out, s).expect("SA_OUT not writable");
            }
        }
        Compilation::Continue
    }
}

fn main() {
    let mut args: Vec<String> = std::env::args().collect();
    // As a cargo wrapper we are called as `sa <path-to-rustc> <args…>`.
    if args.len() > 1 && (args[1].ends_with("rustc") || args[1].contains("/rustc")) {
        args.remove(1);
    }
    rustc_driver::run_compiler(&args, &mut Cb);
}

struct Exporter<'tcx> {
    tcx: TyCtxt<'tcx>,
    types: Vec<J>,
    type_ix: HashMap<Ty<'tcx>, usize>,
    adts: Vec<(String, J)>,
    adt_seen: HashMap<DefId, ()>,
}

impl<'tcx> Exporter<'tcx> {
    fn new(tcx: TyCtxt<'tcx>) -> Self {
        Exporter { tcx, types: Vec::new(), type_ix: HashMap::new(), adts: Vec::new(), adt_seen: HashMap::new() }
    }

    fn path(&self, d: DefId) -> String {
        self.tcx.def_path_str(d)
    }

    fn span(&self, sp: Span) -> J {
        let sm = self.tcx.sess.source_map();
        let lo = sm.lookup_char_pos(sp.lo());
        let hi = sm.lookup_char_pos(sp.hi());
        let file = match &lo.file.name {
            rustc_span::FileName::Real(r) => match r.local_path() {
                Some(p) => p.to_string_lossy().to_string(),
                None => format!("{:?}", lo.file.name),
            },
            other => format!("{:?}", other),
        };
        J::obj(vec![
            ("file", J::s(file)),
            ("line", J::Num(lo.line as i128)),
            ("col", J::Num(lo.col.0 as i128)),
            ("eline", J::Num(hi.line as i128)),
            ("ecol", J::Num(hi.col.0 as i128)),
            ("exp", J::Bool(sp.from_expansion())),
        ])
    }

    fn export(&mut self) -> J {
        let tcx = self.tcx;
        let mut bodies = Vec::new();
        let mut owners: Vec<DefId> = Vec::new();
        for ld in tcx.hir_body_owners() {
            let d = ld.to_def_id();
            match tcx.def_kind(d) {
                DefKind::Fn | DefKind::AssocFn | DefKind::Closure => owners.push(d),
                _ => {}
            }
        }
        for d in owners {
            bodies.push((self.body_key(d), self.body(d)));
        }
        // trait impl table of the crate
        let mut impls = Vec::new();
        for (trait_did, impl_list) in tcx.all_local_trait_impls(()).iter() {
            for impl_ld in impl_list {
                let impl_did = impl_ld.to_def_id();
                let self_ty = tcx.type_of(impl_did).instantiate_identity().skip_norm_wip();
                let trait_ref = tcx.impl_trait_ref(impl_did).instantiate_identity().skip_norm_wip();
                let mut items = Vec::new();
                for it in tcx.associated_items(impl_did).in_definition_order() {
                    if it.is_fn() {
                        items.push((it.name().to_string(), J::s(self.body_key(it.def_id))));
                    }
                }
                let sty = self.ty(self_ty);
                impls.push(J::obj(vec![
                    ("trait", J::s(self.path(*trait_did))),
                    ("trait_ref", J::s(format!("{}", trait_ref))),
                    ("self_ty", J::Num(sty as i128)),
                    ("self_str", J::s(format!("{}", self_ty))),
                    ("derived", J::Bool(tcx.is_automatically_derived(impl_did))),
                    ("span", self.span(tcx.def_span(impl_did))),
                    ("items", J::Obj(items)),
                ]));
            }
        }
        // constants of the crate root (MAX_SAFE_INTEGER, MAX_LENGTH)
        let mut consts = Vec::new();
        for ld in tcx.hir_crate_items(()).definitions() {
            let d = ld.to_def_id();
            if matches!(tcx.def_kind(d), DefKind::Const { .. } | DefKind::AssocConst { .. }) {
                let env = ty::TypingEnv::fully_monomorphized();
                if let Ok(v) = tcx.const_eval_poly(d) {
                    let t = tcx.type_of(d).instantiate_identity().skip_norm_wip();
                    let mut o = vec![("ty", J::Num(self.ty(t) as i128))];
                    if let Some(si) = v.try_to_scalar_int() {
                        o.push(("v", J::s(self.scalar_str(si, t))));
                    }
                    let _ = env;
                    // aggregate constants (tables): their CTFE body, interpreted on demand by the engines
                    if v.try_to_scalar_int().is_none() {
                        let body = tcx.mir_for_ctfe(d);
                        let mut bo = match self.body_json(d, body) {
                            J::Obj(v) => v,
                            _ => unreachable!(),
                        };
                        let mut proms = Vec::new();
                        for pb in tcx.promoted_mir(d).iter() {
                            proms.push(self.body_json(d, pb));
                        }
                        bo.push(("promoted".to_string(), J::Arr(proms)));
                        o.push(("body", J::Obj(bo)));
                    }
                    consts.push((self.path(d), J::obj(o)));
                }
            }
        }
        let features: Vec<J> = std::env::var("CARGO_CFG_FEATURE")
            .unwrap_or_default()
            .split(',')
            .filter(|s| !s.is_empty())
            .map(J::s)
            .collect();
        let feat2: Vec<J> = tcx
            .sess
            .opts
            .cg
            .target_feature
            .split(',')
            .filter(|s| !s.is_empty())
            .map(J::s)
            .collect();
        let _ = feat2;
        let cfgs: Vec<J> = tcx
            .sess
            .config
            .iter()
            .filter(|(k, _)| k.as_str() == "feature" || k.as_str() == "debug_assertions" || k.as_str() == "overflow_checks")
            .map(|(k, v)| J::s(format!("{}={}", k, v.map(|s| s.to_string()).unwrap_or_default())))
            .collect();
        J::Obj(vec![
            ("crate".to_string(), J::s(tcx.crate_name(LOCAL_CRATE).to_string())),
            ("nonce".to_string(), J::s(std::env::var("SA_NONCE").unwrap_or_default())),
            ("features".to_string(), J::Arr(features)),
            ("cfg".to_string(), J::Arr(cfgs)),
            ("bodies".to_string(), J::Obj(bodies)),
            ("impls".to_string(), J::Arr(impls)),
            ("consts".to_string(), J::Obj(consts)),
            ("adts".to_string(), J::Obj(std::mem::take(&mut self.adts))),
            ("types".to_string(), J::Arr(std::mem::take(&mut self.types))),
        ])
    }

    /// A stable, human readable key for a body: the def path, made unique for trait impls by
    /// spelling out trait and self type (def_path_str already does that for impls).
    fn body_key(&self, d: DefId) -> String {
        self.tcx.def_path_str(d)
    }

    fn adt(&mut self, def: ty::AdtDef<'tcx>) {
        let did = def.did();
        if self.adt_seen.contains_key(&did) {
            return;
        }
        self.adt_seen.insert(did, ());
        let tcx = self.tcx;
        let mut variants = Vec::new();
        for (vi, v) in def.variants().iter_enumerated() {
            let discr = if def.is_enum() {
                let d = def.discriminant_for_variant(tcx, vi);
                J::s(format!("{}", d.val))
            } else {
                J::Null
            };
            let fields: Vec<J> = v.fields.iter().map(|f| J::s(f.name.to_string())).collect();
            variants.push(J::obj(vec![
                ("name", J::s(v.name.to_string())),
                ("discr", discr),
                ("fields", J::Arr(fields)),
            ]));
        }
        let kind = if def.is_enum() {
            "enum"
        } else if def.is_union() {
            "union"
        } else {
            "struct"
        };
        let mut o = vec![
            ("kind", J::s(kind)),
            ("local", J::Bool(did.is_local())),
            ("variants", J::Arr(variants)),
        ];
        if did.is_local() {
            o.push(("span", self.span(tcx.def_span(did))));
            // field types of local ADTs (identity substitution)
            let mut ftys = Vec::new();
            for v in def.variants().iter() {
                let mut one = Vec::new();
                for f in v.fields.iter() {
                    let t = tcx.type_of(f.did).instantiate_identity().skip_norm_wip();
                    one.push(J::Num(self.ty(t) as i128));
                }
                ftys.push(J::Arr(one));
            }
            o.push(("field_tys", J::Arr(ftys)));
        }
        let p = self.path(did);
        self.adts.push((p, J::obj(o)));
    }

    fn ty(&mut self, t: Ty<'tcx>) -> usize {
        if let Some(i) = self.type_ix.get(&t) {
            return *i;
        }
        // reserve the slot first (recursive types)
        let ix = self.types.len();
        self.types.push(J::Null);
        self.type_ix.insert(t, ix);
        let s = format!("{}", t);
        let mut o: Vec<(&str, J)> = vec![("s", J::s(s))];
        match t.kind() {
            TyKind::Bool => o.push(("k", J::s("bool"))),
            TyKind::Char => o.push(("k", J::s("char"))),
            TyKind::Int(i) => {
                o.push(("k", J::s("int")));
                o.push(("signed", J::Bool(true)));
                o.push(("bits", J::Num(i.bit_width().unwrap_or(64) as i128)));
                o.push(("name", J::s(i.name_str())));
            }
            TyKind::Uint(u) => {
                o.push(("k", J::s("int")));
                o.push(("signed", J::Bool(false)));
                o.push(("bits", J::Num(u.bit_width().unwrap_or(64) as i128)));
                o.push(("name", J::s(u.name_str())));
            }
            TyKind::Float(_) => o.push(("k", J::s("float"))),
            TyKind::Str => o.push(("k", J::s("str"))),
            TyKind::Never => o.push(("k", J::s("never"))),
            TyKind::Adt(def, args) => {
                self.adt(*def);
                o.push(("k", J::s("adt")));
                o.push(("adt", J::s(self.path(def.did()))));
                let mut a = Vec::new();
                for ga in args.iter() {
                    if let Some(t2) = ga.as_type() {
                        a.push(J::Num(self.ty(t2) as i128));
                    }
                }
                o.push(("args", J::Arr(a)));
            }
            TyKind::Ref(_, inner, m) => {
                o.push(("k", J::s("ref")));
                o.push(("mut", J::Bool(m.is_mut())));
                o.push(("ty", J::Num(self.ty(*inner) as i128)));
            }
            TyKind::RawPtr(inner, m) => {
                o.push(("k", J::s("rawptr")));
                o.push(("mut", J::Bool(m.is_mut())));
                o.push(("ty", J::Num(self.ty(*inner) as i128)));
            }
            TyKind::Slice(inner) => {
                o.push(("k", J::s("slice")));
                o.push(("ty", J::Num(self.ty(*inner) as i128)));
            }
            TyKind::Array(inner, n) => {
                o.push(("k", J::s("array")));
                o.push(("ty", J::Num(self.ty(*inner) as i128)));
                o.push(("len", J::s(format!("{}", n))));
            }
            TyKind::Tuple(tys) => {
                o.push(("k", J::s("tuple")));
                let mut a = Vec::new();
                for t2 in tys.iter() {
                    a.push(J::Num(self.ty(t2) as i128));
                }
                o.push(("tys", J::Arr(a)));
            }
            TyKind::Closure(did, _) => {
                o.push(("k", J::s("closure")));
                o.push(("def", J::s(self.body_key(*did))));
            }
            TyKind::FnDef(did, args) => {
                o.push(("k", J::s("fndef")));
                o.push(("def", J::s(self.path(*did))));
                o.push(("gargs", J::s(format!("{:?}", args))));
            }
            TyKind::FnPtr(..) => o.push(("k", J::s("fnptr"))),
            TyKind::Param(p) => {
                o.push(("k", J::s("param")));
                o.push(("name", J::s(p.name.to_string())));
            }
            TyKind::Dynamic(..) => o.push(("k", J::s("dyn"))),
            TyKind::Alias(..) => o.push(("k", J::s("alias"))),
            _ => o.push(("k", J::s("other"))),
        }
        self.types[ix] = J::obj(o);
        ix
    }

    fn scalar_str(&self, si: ty::ScalarInt, t: Ty<'tcx>) -> String {
        let size = si.size();
        match t.kind() {
            TyKind::Int(_) => format!("{}", si.to_int(size)),
            _ => format!("{}", si.to_uint(size)),
        }
    }

    fn place(&mut self, p: &Place<'tcx>) -> J {
        let mut proj = Vec::new();
        for e in p.projection.iter() {
            proj.push(match e {
                ProjectionElem::Deref => J::Arr(vec![J::s("deref")]),
                ProjectionElem::Field(f, t) => {
                    J::Arr(vec![J::s("field"), J::Num(f.as_usize() as i128), J::Num(self.ty(t) as i128)])
                }
                ProjectionElem::Downcast(name, v) => J::Arr(vec![
                    J::s("downcast"),
                    J::Num(v.as_usize() as i128),
                    J::s(name.map(|s| s.to_string()).unwrap_or_default()),
                ]),
                ProjectionElem::Index(l) => J::Arr(vec![J::s("index"), J::Num(l.as_usize() as i128)]),
                ProjectionElem::ConstantIndex { offset, min_length, from_end } => J::Arr(vec![
                    J::s("cindex"),
                    J::Num(offset as i128),
                    J::Num(min_length as i128),
                    J::Bool(from_end),
                ]),
                ProjectionElem::Subslice { from, to, from_end } => {
                    J::Arr(vec![J::s("subslice"), J::Num(from as i128), J::Num(to as i128), J::Bool(from_end)])
                }
                ProjectionElem::OpaqueCast(_) => J::Arr(vec![J::s("opaque")]),
                ProjectionElem::UnwrapUnsafeBinder(_) => J::Arr(vec![J::s("unwrap_binder")]),
            });
        }
        J::obj(vec![("l", J::Num(p.local.as_usize() as i128)), ("p", J::Arr(proj))])
    }

    fn fn_info(&mut self, owner: DefId, did: DefId, args: ty::GenericArgsRef<'tcx>) -> Vec<(&'static str, J)> {
        let tcx = self.tcx;
        let mut o: Vec<(&'static str, J)> = vec![
            ("kind", J::s("fn")),
            ("def", J::s(self.path(did))),
            ("def_args", J::s(tcx.def_path_str_with_args(did, args))),
            ("local", J::Bool(did.is_local())),
        ];
        let mut targs = Vec::new();
        for ga in args.iter() {
            if let Some(t2) = ga.as_type() {
                targs.push(J::Num(self.ty(t2) as i128));
            }
        }
        o.push(("targs", J::Arr(targs)));
        match tcx.def_kind(did) {
            DefKind::Ctor(of, _) => {
                // tuple-struct / tuple-variant constructor used as a function value
                let parent = tcx.parent(did);
                let (adt_did, vname) = match of {
                    rustc_hir::def::CtorOf::Struct => (parent, tcx.item_name(parent).to_string()),
                    rustc_hir::def::CtorOf::Variant => (tcx.parent(parent), tcx.item_name(parent).to_string()),
                };
                let adt = tcx.adt_def(adt_did);
                self.adt(adt);
                let vidx = adt.variants().iter().position(|v| v.name.to_string() == vname).unwrap_or(0);
                o.push((
                    "ctor",
                    J::obj(vec![("adt", J::s(self.path(adt_did))), ("variant", J::Num(vidx as i128))]),
                ));
            }
            DefKind::AssocFn => {
                if let Some(tr) = tcx.trait_of_assoc(did) {
                    o.push(("trait", J::s(self.path(tr))));
                    o.push(("method", J::s(tcx.item_name(did).to_string())));
                }
            }
            _ => {}
        }
        // resolution in the owner's typing environment
        let env = ty::TypingEnv::post_analysis(tcx, owner);
        if let Ok(Some(inst)) = ty::Instance::try_resolve(tcx, env, did, args) {
            let rd = inst.def_id();
            let kind = format!("{:?}", inst.def);
            let kind = kind.split(|c: char| c == '(' || c == ' ' || c == '{').next().unwrap_or("").to_string();
            let mut r = vec![
                ("def", J::s(self.body_key(rd))),
                ("def_args", J::s(tcx.def_path_str_with_args(rd, inst.args))),
                ("kind", J::s(kind)),
                ("local", J::Bool(rd.is_local())),
            ];
            if matches!(tcx.def_kind(rd), DefKind::AssocFn) {
                let parent = tcx.parent(rd);
                if matches!(tcx.def_kind(parent), DefKind::Impl { .. }) {
                    if tcx.impl_opt_trait_ref(parent).is_some() {
                        let tr = tcx.impl_trait_ref(parent).instantiate_identity().skip_norm_wip();
                        r.push(("impl_trait", J::s(self.path(tr.def_id))));
                    }
                    let st = tcx.type_of(parent).instantiate_identity().skip_norm_wip();
                    r.push(("impl_self", J::s(format!("{}", st))));
                    r.push(("method", J::s(tcx.item_name(rd).to_string())));
                } else if matches!(tcx.def_kind(parent), DefKind::Trait) {
                    r.push(("trait_default", J::s(self.path(parent))));
                    r.push(("method", J::s(tcx.item_name(rd).to_string())));
                }
            }
            o.push(("resolved", J::obj(r)));
        }
        o
    }

    fn constant(&mut self, owner: DefId, c: &mir::ConstOperand<'tcx>) -> J {
        let tcx = self.tcx;
        let t = c.const_.ty();
        let tix = self.ty(t);
        let mut o: Vec<(&'static str, J)> = Vec::new();
        match t.kind() {
            TyKind::FnDef(did, args) => {
                o = self.fn_info(owner, *did, args);
            }
            TyKind::Closure(did, _) => {
                o.push(("kind", J::s("closure")));
                o.push(("def", J::s(self.body_key(*did))));
            }
            _ if matches!(c.const_, mir::Const::Unevaluated(uv, _) if uv.promoted.is_some()) => {
                if let mir::Const::Unevaluated(uv, _) = c.const_ {
                    o.push(("kind", J::s("promoted")));
                    o.push(("index", J::Num(uv.promoted.unwrap().as_usize() as i128)));
                    o.push(("owner", J::s(self.body_key(uv.def))));
                }
            }
            _ => {
                let env = ty::TypingEnv::post_analysis(tcx, owner);
                let mut done = false;
                if let Some(si) = c.const_.try_eval_scalar_int(tcx, env) {
                    match t.kind() {
                        TyKind::Bool => {
                            o.push(("kind", J::s("bool")));
                            o.push(("v", J::Bool(si.to_uint(si.size()) != 0)));
                            done = true;
                        }
                        TyKind::Char => {
                            o.push(("kind", J::s("char")));
                            o.push(("v", J::Num(si.to_uint(si.size()) as i128)));
                            done = true;
                        }
                        TyKind::Int(_) | TyKind::Uint(_) => {
                            o.push(("kind", J::s("int")));
                            o.push(("v", J::s(self.scalar_str(si, t))));
                            done = true;
                        }
                        _ => {}
                    }
                }
                if !done {
                    if let Ok(val) = c.const_.eval(tcx, env, c.span) {
                        match val {
                            mir::ConstValue::ZeroSized => {
                                o.push(("kind", J::s("zst")));
                                done = true;
                            }
                            mir::ConstValue::Slice { .. } | mir::ConstValue::Indirect { .. } => {
                                // only texts and byte strings are exported by value; any other aggregate constant
                                // (a table) stays symbolic and is evaluated from its CTFE body by the engines
                                let is_u8_seq = |x: ty::Ty<'tcx>| match x.kind() {
                                    TyKind::Slice(e) | TyKind::Array(e, _) => matches!(e.kind(), TyKind::Uint(ty::UintTy::U8)),
                                    _ => false,
                                };
                                let byteish = match t.kind() {
                                    TyKind::Ref(_, inner, _) => inner.is_str() || is_u8_seq(*inner),
                                    _ => is_u8_seq(t),
                                };
                                if !byteish {
                                    // fall through to "other"
                                } else if let Some(bytes) = val.try_get_slice_bytes_for_diagnostics(tcx) {
                                    let is_str = matches!(t.kind(), TyKind::Ref(_, inner, _) if inner.is_str());
                                    if is_str {
                                        o.push(("kind", J::s("str")));
                                        o.push(("v", J::s(String::from_utf8_lossy(bytes).to_string())));
                                    } else {
                                        o.push(("kind", J::s("bytes")));
                                        o.push(("v", J::Arr(bytes.iter().map(|b| J::Num(*b as i128)).collect())));
                                    }
                                    done = true;
                                }
                            }
                            mir::ConstValue::Scalar(mir::interpret::Scalar::Ptr(ptr, _)) => {
                                // e.g. `&[u8; N]` byte-string templates of format_args!
                                let (prov, off) = ptr.prov_and_relative_offset();
                                if let Some(rustc_middle::mir::interpret::GlobalAlloc::Memory(alloc)) =
                                    tcx.try_get_global_alloc(prov.alloc_id())
                                {
                                    let a = alloc.inner();
                                    let start = off.bytes() as usize;
                                    let len = a.len();
                                    if a.provenance().ptrs().is_empty() {
                                        let bytes = a.inspect_with_uninit_and_ptr_outside_interpreter(start..len);
                                        o.push(("kind", J::s("bytes")));
                                        o.push(("v", J::Arr(bytes.iter().map(|b| J::Num(*b as i128)).collect())));
                                        done = true;
                                    }
                                }
                            }
                            _ => {}
                        }
                    }
                }
                if !done {
                    o.push(("kind", J::s("other")));
                }
            }
        }
        o.push(("ty", J::Num(tix as i128)));
        o.push(("s", J::s(format!("{}", c.const_))));
        J::obj(vec![("const", J::obj(o))])
    }

    fn operand(&mut self, owner: DefId, op: &Operand<'tcx>) -> J {
        match op {
            Operand::Copy(p) => J::obj(vec![("copy", self.place(p))]),
            Operand::Move(p) => J::obj(vec![("move", self.place(p))]),
            Operand::Constant(c) => self.constant(owner, c),
            other => J::obj(vec![("other", J::s(format!("{:?}", other)))]),
        }
    }

    fn rvalue(&mut self, owner: DefId, body: &mir::Body<'tcx>, rv: &Rvalue<'tcx>) -> J {
        let tcx = self.tcx;
        match rv {
            Rvalue::Use(op, _) => J::obj(vec![("k", J::s("use")), ("op", self.operand(owner, op))]),
            Rvalue::CopyForDeref(p) => {
                J::obj(vec![("k", J::s("use")), ("op", J::obj(vec![("copy", self.place(p))]))])
            }
            Rvalue::Ref(_, bk, p) => J::obj(vec![
                ("k", J::s("ref")),
                ("mut", J::Bool(matches!(bk, BorrowKind::Mut { .. }))),
                ("place", self.place(p)),
            ]),
            Rvalue::RawPtr(kind, p) => J::obj(vec![
                ("k", J::s("rawptr")),
                ("kind", J::s(format!("{:?}", kind))),
                ("place", self.place(p)),
            ]),
            Rvalue::Cast(ck, op, t) => {
                let kind = match ck {
                    CastKind::IntToInt => "IntToInt".to_string(),
                    CastKind::Transmute => "Transmute".to_string(),
                    CastKind::PtrToPtr => "PtrToPtr".to_string(),
                    other => format!("{:?}", other),
                };
                let from = op.ty(body, tcx);
                J::obj(vec![
                    ("k", J::s("cast")),
                    ("kind", J::s(kind)),
                    ("op", self.operand(owner, op)),
                    ("from", J::Num(self.ty(from) as i128)),
                    ("to", J::Num(self.ty(*t) as i128)),
                ])
            }
            Rvalue::BinaryOp(op, ab) => {
                let (a, b) = &**ab;
                let name = match op {
                    BinOp::AddWithOverflow => "AddWithOverflow".to_string(),
                    other => format!("{:?}", other),
                };
                let lt = a.ty(body, tcx);
                J::obj(vec![
                    ("k", J::s("binop")),
                    ("op", J::s(name)),
                    ("a", self.operand(owner, a)),
                    ("b", self.operand(owner, b)),
                    ("ty", J::Num(self.ty(lt) as i128)),
                ])
            }
            Rvalue::UnaryOp(op, a) => J::obj(vec![
                ("k", J::s("unop")),
                ("op", J::s(format!("{:?}", op))),
                ("a", self.operand(owner, a)),
            ]),
            Rvalue::Discriminant(p) => J::obj(vec![("k", J::s("discr")), ("place", self.place(p))]),
            Rvalue::Aggregate(kind, ops) => {
                let mut o: Vec<(&str, J)> = vec![("k", J::s("aggr"))];
                match &**kind {
                    AggregateKind::Array(_) => o.push(("ak", J::s("array"))),
                    AggregateKind::Tuple => o.push(("ak", J::s("tuple"))),
                    AggregateKind::Adt(did, vidx, _, _, active) => {
                        let adt = tcx.adt_def(*did);
                        self.adt(adt);
                        o.push(("ak", J::s("adt")));
                        o.push(("adt", J::s(self.path(*did))));
                        o.push(("variant", J::Num(vidx.as_usize() as i128)));
                        if let Some(f) = active {
                            o.push(("active", J::Num(f.as_usize() as i128)));
                        }
                    }
                    AggregateKind::Closure(did, _) => {
                        o.push(("ak", J::s("closure")));
                        o.push(("def", J::s(self.body_key(*did))));
                    }
                    AggregateKind::RawPtr(..) => o.push(("ak", J::s("rawptr"))),
                    other => {
                        o.push(("ak", J::s("other")));
                        o.push(("s", J::s(format!("{:?}", other))));
                    }
                }
                let mut a = Vec::new();
                for x in ops.iter() {
                    a.push(self.operand(owner, x));
                }
                o.push(("ops", J::Arr(a)));
                J::obj(o)
            }
            Rvalue::Repeat(op, n) => J::obj(vec![
                ("k", J::s("repeat")),
                ("op", self.operand(owner, op)),
                ("n", J::s(format!("{}", n))),
            ]),
            other => J::obj(vec![("k", J::s("other")), ("s", J::s(format!("{:?}", other)))]),
        }
    }

    fn unwind(&self, u: &UnwindAction) -> J {
        match u {
            UnwindAction::Cleanup(bb) => J::Num(bb.as_usize() as i128),
            _ => J::Null,
        }
    }

    fn body(&mut self, d: DefId) -> J {
        let tcx = self.tcx;
        let body = tcx.optimized_mir(d);
        let mut o = match self.body_json(d, body) {
            J::Obj(v) => v,
            _ => unreachable!(),
        };
        let mut proms = Vec::new();
        for pb in tcx.promoted_mir(d).iter() {
            proms.push(self.body_json(d, pb));
        }
        o.push(("promoted".to_string(), J::Arr(proms)));
        J::Obj(o)
    }

    fn body_json(&mut self, d: DefId, body: &mir::Body<'tcx>) -> J {
        let tcx = self.tcx;
        let kind = match tcx.def_kind(d) {
            DefKind::Fn => "Fn",
            DefKind::AssocFn => "AssocFn",
            DefKind::Closure => "Closure",
            _ => "Other",
        };
        let mut locals = Vec::new();
        for ld in body.local_decls.iter() {
            locals.push(J::Num(self.ty(ld.ty) as i128));
        }
        let mut dbg = Vec::new();
        for v in body.var_debug_info.iter() {
            if let mir::VarDebugInfoContents::Place(p) = &v.value {
                dbg.push(J::obj(vec![("name", J::s(v.name.to_string())), ("place", self.place(p))]));
            }
        }
        let mut blocks = Vec::new();
        for (_bb, data) in body.basic_blocks.iter_enumerated() {
            let mut stmts = Vec::new();
            for st in data.statements.iter() {
                let sp = st.source_info.span;
                match &st.kind {
                    StatementKind::Assign(b) => {
                        let (p, rv) = &**b;
                        stmts.push(J::obj(vec![
                            ("k", J::s("assign")),
                            ("place", self.place(p)),
                            ("rv", self.rvalue(d, body, rv)),
                            ("span", self.span(sp)),
                        ]));
                    }
                    StatementKind::SetDiscriminant { place, variant_index } => {
                        stmts.push(J::obj(vec![
                            ("k", J::s("setdiscr")),
                            ("place", self.place(place)),
                            ("variant", J::Num(variant_index.as_usize() as i128)),
                            ("span", self.span(sp)),
                        ]));
                    }
                    StatementKind::StorageLive(_)
                    | StatementKind::StorageDead(_)
                    | StatementKind::Nop
                    | StatementKind::FakeRead(..)
                    | StatementKind::AscribeUserType(..)
                    | StatementKind::PlaceMention(..)
                    | StatementKind::Coverage(..)
                    | StatementKind::ConstEvalCounter
                    | StatementKind::BackwardIncompatibleDropHint { .. } => {}
                    StatementKind::Intrinsic(i) => {
                        stmts.push(J::obj(vec![
                            ("k", J::s("intrinsic")),
                            ("s", J::s(format!("{:?}", i))),
                            ("span", self.span(sp)),
                        ]));
                    }
                    other => {
                        stmts.push(J::obj(vec![
                            ("k", J::s("other")),
                            ("s", J::s(format!("{:?}", other))),
                            ("span", self.span(sp)),
                        ]));
                    }
                }
            }
            let term = data.terminator();
            let tsp = term.source_info.span;
            let t = match &term.kind {
                TerminatorKind::Goto { target } => {
                    J::obj(vec![("k", J::s("goto")), ("target", J::Num(target.as_usize() as i128))])
                }
                TerminatorKind::SwitchInt { discr, targets } => {
                    let mut ts = Vec::new();
                    for (v, bb) in targets.iter() {
                        ts.push(J::Arr(vec![J::s(format!("{}", v)), J::Num(bb.as_usize() as i128)]));
                    }
                    let dt = discr.ty(body, tcx);
                    J::obj(vec![
                        ("k", J::s("switch")),
                        ("discr", self.operand(d, discr)),
                        ("ty", J::Num(self.ty(dt) as i128)),
                        ("targets", J::Arr(ts)),
                        ("otherwise", J::Num(targets.otherwise().as_usize() as i128)),
                    ])
                }
                TerminatorKind::Return => J::obj(vec![("k", J::s("return"))]),
                TerminatorKind::Unreachable => J::obj(vec![("k", J::s("unreachable"))]),
                TerminatorKind::UnwindResume => J::obj(vec![("k", J::s("resume"))]),
                TerminatorKind::UnwindTerminate(_) => J::obj(vec![("k", J::s("terminate"))]),
                TerminatorKind::Drop { place, target, unwind, .. } => J::obj(vec![
                    ("k", J::s("drop")),
                    ("place", self.place(place)),
                    ("target", J::Num(target.as_usize() as i128)),
                    ("unwind", self.unwind(unwind)),
                ]),
                TerminatorKind::Call { func, args, destination, target, unwind, fn_span, .. } => {
                    let mut a = Vec::new();
                    for x in args.iter() {
                        a.push(self.operand(d, &x.node));
                    }
                    J::obj(vec![
                        ("k", J::s("call")),
                        ("func", self.operand(d, func)),
                        ("args", J::Arr(a)),
                        ("dest", self.place(destination)),
                        ("target", target.map(|b| J::Num(b.as_usize() as i128)).unwrap_or(J::Null)),
                        ("unwind", self.unwind(unwind)),
                        ("fn_span", self.span(*fn_span)),
                    ])
                }
                TerminatorKind::Assert { cond, expected, msg, target, unwind } => {
                    let mk = format!("{:?}", msg);
                    let kind = mk.split(|c: char| c == '(' || c == ' ' || c == '{').next().unwrap_or("").to_string();
                    J::obj(vec![
                        ("k", J::s("assert")),
                        ("cond", self.operand(d, cond)),
                        ("expected", J::Bool(*expected)),
                        ("msg", J::s(kind)),
                        ("msg_full", J::s(mk)),
                        ("target", J::Num(target.as_usize() as i128)),
                        ("unwind", self.unwind(unwind)),
                    ])
                }
                TerminatorKind::FalseEdge { real_target, .. } => {
                    J::obj(vec![("k", J::s("goto")), ("target", J::Num(real_target.as_usize() as i128))])
                }
                TerminatorKind::FalseUnwind { real_target, .. } => {
                    J::obj(vec![("k", J::s("goto")), ("target", J::Num(real_target.as_usize() as i128))])
                }
                other => J::obj(vec![("k", J::s("other")), ("s", J::s(format!("{:?}", other)))]),
            };
            let mut t = match t {
                J::Obj(v) => v,
                _ => unreachable!(),
            };
            t.push(("span".to_string(), self.span(tsp)));
            blocks.push(J::obj(vec![
                ("stmts", J::Arr(stmts)),
                ("term", J::Obj(t)),
                ("cleanup", J::Bool(data.is_cleanup)),
            ]));
        }
        let vis = match tcx.def_kind(d) {
            DefKind::Fn | DefKind::AssocFn => {
                if tcx.visibility(d).is_public() {
                    "pub"
                } else {
                    "restricted"
                }
            }
            _ => "n/a",
        };
        // parent impl info
        let mut o = vec![
            ("def_kind", J::s(kind)),
            ("span", self.span(tcx.def_span(d))),
            ("arg_count", J::Num(body.arg_count as i128)),
            ("locals", J::Arr(locals)),
            ("debug", J::Arr(dbg)),
            ("blocks", J::Arr(blocks)),
            ("vis", J::s(vis)),
            ("name", J::s(tcx.opt_item_name(d).map(|s| s.to_string()).unwrap_or_default())),
        ];
        if let Some(sp) = body.spread_arg {
            o.push(("spread_arg", J::Num(sp.as_usize() as i128)));
        }
        // names of the type parameters in the order of the generic arguments (parents first): lets the engines
        // substitute the caller's type arguments when they interpret a generic body
        if matches!(tcx.def_kind(d), DefKind::Fn | DefKind::AssocFn) {
            let g = tcx.generics_of(d);
            let mut names = Vec::new();
            for i in 0..g.count() {
                let p = g.param_at(i, tcx);
                if matches!(p.kind, ty::GenericParamDefKind::Type { .. }) {
                    names.push(J::s(p.name.to_string()));
                }
            }
            o.push(("type_params", J::Arr(names)));
        }
        if matches!(tcx.def_kind(d), DefKind::AssocFn) {
            let parent = tcx.parent(d);
            if matches!(tcx.def_kind(parent), DefKind::Impl { .. }) {
                let st = tcx.type_of(parent).instantiate_identity().skip_norm_wip();
                o.push(("impl_self", J::s(format!("{}", st))));
                o.push(("derived", J::Bool(tcx.is_automatically_derived(parent))));
                if tcx.impl_opt_trait_ref(parent).is_some() {
                    let tr = tcx.impl_trait_ref(parent).instantiate_identity().skip_norm_wip();
                    o.push(("impl_trait", J::s(self.path(tr.def_id))));
                }
            }
        }
        if matches!(tcx.def_kind(d), DefKind::Closure) {
            o.push(("parent", J::s(self.body_key(tcx.parent(d)))));
        }
        J::obj(o)
    }
}
