#!/bin/sh
# run every registered quick (or $1 = thorough) check against /repo, in parallel; print verdict summary
cd "$(dirname "$0")" || exit 2
TIER=${1:-quick}
IDS=$(python3 -c "import json;print(' '.join(c['property_id'] for c in json.load(open('MANIFEST.json'))['checks']))")
mkdir -p .work/logs
for id in $IDS; do
  ( ./check $id --tier $TIER > .work/logs/$id.log 2>&1; echo "$id exit=$?" ) &
done
wait
for id in $IDS; do tail -2 .work/logs/$id.log | head -1; done
grep -l "VIOLATION\|INCONCLUSIVE" .work/logs/*.log 2>/dev/null
exit 0
