"""E-GRAM part 2: exact PEG denotations of the (non-recursive) winnow grammar as regular languages.

winnow is a PEG: ordered choice, greedy repetition, no backtracking into a sub-parser that has
succeeded. Every parser P gets its exact denotation as a pair of regular sets over the class alphabet
plus a marker `#`:

    M(P) = { u#v | P applied to the input uv succeeds and consumes exactly u }
    F(P) = { w   | P applied to the input w fails }

Both are computed by structural induction with automata products (DESIGN §3.4). Nothing here executes
the crate or winnow: the input is the combinator tree extracted from MIR.
"""
import itertools

from .interp import Inconclusive


class DFA(object):
    """complete deterministic automaton; symbols 0..nsym-1 (the last one may be the marker)"""
    __slots__ = ("n", "nsym", "delta", "acc", "start")

    def __init__(self, nsym, delta, acc, start=0):
        self.nsym = nsym
        self.delta = delta      # list of lists
        self.acc = set(acc)
        self.start = start
        self.n = len(delta)

    def step(self, q, a):
        return self.delta[q][a]

    def complement(self):
        return DFA(self.nsym, self.delta, set(range(self.n)) - self.acc, self.start)

    def is_empty(self):
        return self.witness() is None

    def witness(self):
        """shortest accepted word or None"""
        from collections import deque
        prev = {self.start: None}
        dq = deque([self.start])
        while dq:
            q = dq.popleft()
            if q in self.acc:
                w = []
                while prev[q] is not None:
                    q, a = prev[q]
                    w.append(a)
                return list(reversed(w))
            for a in range(self.nsym):
                r = self.delta[q][a]
                if r not in prev:
                    prev[r] = (q, a)
                    dq.append(r)
        return None


def product(a, b, op):
    """op: function (bool, bool) -> bool"""
    assert a.nsym == b.nsym
    index = {(a.start, b.start): 0}
    order = [(a.start, b.start)]
    delta = []
    i = 0
    while i < len(order):
        p, q = order[i]
        row = []
        for s in range(a.nsym):
            t = (a.delta[p][s], b.delta[q][s])
            if t not in index:
                index[t] = len(order)
                order.append(t)
            row.append(index[t])
        delta.append(row)
        i += 1
    acc = [k for k, (p, q) in enumerate(order) if op(p in a.acc, q in b.acc)]
    return minimize(DFA(a.nsym, delta, acc, 0))


def union(a, b):
    return product(a, b, lambda x, y: x or y)


def inter(a, b):
    return product(a, b, lambda x, y: x and y)


def diff(a, b):
    return product(a, b, lambda x, y: x and not y)


def minimize(d):
    """Moore partition refinement on the reachable part"""
    # reachable
    seen = [d.start]
    idx = {d.start: 0}
    for q in seen:
        for a in range(d.nsym):
            r = d.delta[q][a]
            if r not in idx:
                idx[r] = len(seen)
                seen.append(r)
    part = {q: (1 if q in d.acc else 0) for q in seen}
    while True:
        sig = {}
        newpart = {}
        for q in seen:
            s = (part[q],) + tuple(part[d.delta[q][a]] for a in range(d.nsym))
            if s not in sig:
                sig[s] = len(sig)
            newpart[q] = sig[s]
        if len(sig) == len(set(part.values())):
            part = newpart
            break
        part = newpart
    # renumber with the start state first
    ren = {}
    order = []
    for q in seen:
        c = part[q]
        if c not in ren:
            ren[c] = len(ren)
            order.append(q)
    delta = [[ren[part[d.delta[q][a]]] for a in range(d.nsym)] for q in order]
    acc = [ren[part[q]] for q in order if q in d.acc]
    return DFA(d.nsym, delta, acc, ren[part[d.start]])


class NFA(object):
    """NFA with epsilon moves built incrementally; determinised by subset construction"""

    def __init__(self, nsym):
        self.nsym = nsym
        self.trans = {}     # state -> {sym: set(states)}
        self.eps = {}       # state -> set(states)
        self.acc = set()
        self.start = None

    def closure(self, states):
        stack = list(states)
        seen = set(states)
        while stack:
            q = stack.pop()
            for r in self.eps.get(q, ()):
                if r not in seen:
                    seen.add(r)
                    stack.append(r)
        return frozenset(seen)


def determinize(nsym, start_states, step, eps, accepting):
    """generic subset construction over lazily generated states.
    step(q, a) -> iterable of states; eps(q) -> iterable of states; accepting(q) -> bool"""
    def closure(S):
        stack = list(S)
        seen = set(S)
        while stack:
            q = stack.pop()
            for r in eps(q):
                if r not in seen:
                    seen.add(r)
                    stack.append(r)
        return frozenset(seen)
    s0 = closure(start_states)
    index = {s0: 0}
    order = [s0]
    delta = []
    i = 0
    while i < len(order):
        S = order[i]
        row = []
        for a in range(nsym):
            T = set()
            for q in S:
                T.update(step(q, a))
            T = closure(T)
            if T not in index:
                index[T] = len(order)
                order.append(T)
                if len(order) > 200000:
                    raise Inconclusive("automaton construction exceeds 200000 states")
            row.append(index[T])
        delta.append(row)
        i += 1
    acc = [k for k, S in enumerate(order) if any(accepting(q) for q in S)]
    return minimize(DFA(nsym, delta, acc, 0))


class Lang(object):
    """languages over the class alphabet: `k` classes, marker symbol = k"""

    def __init__(self, k):
        self.k = k
        self.MARK = k
        self.nsym = k + 1

    # ---- plain regular expressions over classes (no marker): built as DFAs over nsym symbols that reject '#'
    def empty(self):
        return DFA(self.nsym, [[0] * self.nsym], [], 0)

    def eps(self):
        return DFA(self.nsym, [[1] * self.nsym, [1] * self.nsym], [0], 0)

    def sigma_star(self):
        d = [[0] * self.nsym, [1] * self.nsym]
        d[0][self.MARK] = 1
        return DFA(self.nsym, d, [0], 0)

    def sym(self, classes):
        """one symbol from `classes`"""
        cl = set(classes)
        d = [[2] * self.nsym, [2] * self.nsym, [2] * self.nsym]
        for c in cl:
            d[0][c] = 1
        return DFA(self.nsym, d, [1], 0)

    def concat(self, a, b):
        def step(q, s):
            tag, x = q
            if tag == 0:
                return [(0, a.delta[x][s])]
            return [(1, b.delta[x][s])]

        def eps(q):
            tag, x = q
            if tag == 0 and x in a.acc:
                return [(1, b.start)]
            return []
        return determinize(self.nsym, [(0, a.start)], step, eps, lambda q: q[0] == 1 and q[1] in b.acc)

    def star(self, a):
        def step(q, s):
            return [a.delta[q][s]] if q != "S" else []

        def eps(q):
            if q == "S":
                return [a.start]
            if q in a.acc:
                return ["S"]
            return []
        return determinize(self.nsym, ["S"], step, eps, lambda q: q == "S")

    def plus(self, a):
        return self.concat(a, self.star(a))

    def opt(self, a):
        return union(a, self.eps())

    def seq(self, *parts):
        r = parts[0]
        for p in parts[1:]:
            r = self.concat(r, p)
        return r

    def mark(self):
        """the single-marker word '#'"""
        d = [[2] * self.nsym, [2] * self.nsym, [2] * self.nsym]
        d[0][self.MARK] = 1
        return DFA(self.nsym, d, [1], 0)

    def unmarked(self, a):
        """restrict to words without marker (a is assumed built from class symbols only)"""
        return a

    def with_marker_anywhere(self, L):
        """{ u#v | uv in L }  (L: marker-free language)"""
        def step(q, s):
            x, seen = q
            if s == self.MARK:
                return [] if seen else [(x, True)]
            return [(L.delta[x][s], seen)]
        return determinize(self.nsym, [(L.start, False)], step, lambda q: [], lambda q: q[1] and q[0] in L.acc)

    def marker_at_start(self, L):
        """{ #w | w in L }"""
        return self.concat(self.mark(), L)

    def erase_marker(self, Mk):
        """{ uv | u#v in Mk }"""
        def step(q, s):
            x, seen = q
            if s == self.MARK:
                return []
            return [(Mk.delta[x][s], seen)]

        def eps(q):
            x, seen = q
            return [] if seen else [(Mk.delta[x][self.MARK], True)]
        return determinize(self.nsym, [(Mk.start, False)], step, eps, lambda q: q[1] and q[0] in Mk.acc)

    def consumed_prefixes(self, Mk):
        """{ u | u#v in Mk for some v }"""
        n = Mk.n
        # states from which an accepting state is reachable
        rev = [[] for _ in range(n)]
        for q in range(n):
            for a in range(Mk.nsym):
                rev[Mk.delta[q][a]].append(q)
        co = set(Mk.acc)
        stack = list(co)
        while stack:
            q = stack.pop()
            for r in rev[q]:
                if r not in co:
                    co.add(r)
                    stack.append(r)
        dead = n
        delta = [list(row) for row in Mk.delta] + [[dead] * Mk.nsym]
        for q in range(n + 1):
            delta[q][self.MARK] = dead
        acc = [q for q in range(n) if Mk.delta[q][self.MARK] in co]
        return minimize(DFA(Mk.nsym, delta, acc, Mk.start))

    def consumed_whole(self, Mk):
        """{ u | u# in Mk }"""
        return self.erase_marker(inter(Mk, self.concat(self.sigma_star(), self.mark())))

    def word_str(self, w, reps):
        return "".join("#" if a == self.MARK else reps[a] for a in w)


class Peg(object):
    """M/F denotations of combinator trees"""

    def __init__(self, lang, grammar, classes):
        self.L = lang
        self.g = grammar
        self.verify_langs = {}      # id(verify node) -> DFA of the texts its predicate accepts (engine/verifyre.py)
        self.classes = classes      # name -> set of class indices: 'digit', 'space', ('lit', ch) -> {idx}, closure key -> set
        self.memo = {}

    def cls_plus(self, cl, lo):
        """greedy repetition of a character class, at least `lo`: (M, F)"""
        L = self.L
        c = L.sym(cl)
        notc = L.sym(set(range(L.k)) - set(cl))
        tail = L.opt(L.concat(notc, L.sigma_star()))
        body = L.star(c)
        for _ in range(lo):
            body = L.concat(c, body)
        M = L.seq(body, L.mark(), tail)
        if lo == 0:
            F = L.empty()
        else:
            # fewer than `lo` class characters at the start
            F = L.empty()
            pre = L.eps()
            for i in range(lo):
                F = union(F, L.concat(pre, tail))
                pre = L.concat(pre, c)
        return M, F

    def lit(self, s):
        L = self.L
        parts = [L.sym(self.classes[("lit", ch)]) for ch in s]
        word = L.seq(*parts) if parts else L.eps()
        M = L.seq(word, L.mark(), L.sigma_star())
        F = diff(L.sigma_star(), L.concat(word, L.sigma_star()))
        return M, F

    def seq2(self, P, Q):
        L = self.L
        A, FA = P
        B, FB = Q
        MARK = L.MARK

        def step(q, s):
            mode = q[0]
            if mode == 0:                        # before P's marker
                if s == MARK:
                    return []
                return [(0, A.delta[q[1]][s])]
            if mode == 1:                        # after P's marker, before Q's marker
                if s == MARK:
                    return [(2, q[1], B.delta[q[2]][MARK])]
                return [(1, A.delta[q[1]][s], B.delta[q[2]][s])]
            if s == MARK:
                return []
            return [(2, A.delta[q[1]][s], B.delta[q[2]][s])]

        def eps(q):
            if q[0] == 0:
                return [(1, A.delta[q[1]][MARK], B.start)]
            return []
        M = determinize(L.nsym, [(0, A.start)], step, eps,
                        lambda q: q[0] == 2 and q[1] in A.acc and q[2] in B.acc)

        def fstep(q, s):
            if s == MARK:
                return []
            if q[0] == 0:
                return [(0, A.delta[q[1]][s])]
            return [(1, A.delta[q[1]][s], FB.delta[q[2]][s])]

        def feps(q):
            if q[0] == 0:
                return [(1, A.delta[q[1]][MARK], FB.start)]
            return []
        F2 = determinize(L.nsym, [(0, A.start)], fstep, feps, lambda q: q[0] == 1 and q[1] in A.acc and q[2] in FB.acc)
        return M, union(FA, F2)

    def alt2(self, P, Q):
        L = self.L
        A, FA = P
        B, FB = Q
        M = union(A, inter(B, L.with_marker_anywhere(FA)))
        return M, inter(FA, FB)

    def star(self, R):
        """greedy zero-or-more of R (R consumes at least one symbol when it succeeds); an iteration that fails
        is undone and ends the repetition"""
        L = self.L
        A, FA = R
        MARK = L.MARK
        # state: (mode, pending frozenset of A-post states, current)
        #   mode 0: inside an iteration (current = A-pre state), flag boundary
        #   mode 2: after the real marker (current = FA state)
        def step(q, s):
            mode, pend, cur, boundary = q
            if mode == 0:
                if s == MARK:
                    if not boundary:
                        return []
                    return [(2, pend, FA.start, False)]
                return [(0, frozenset(A.delta[x][s] for x in pend), A.delta[cur][s], False)]
            if s == MARK:
                return []
            return [(2, frozenset(A.delta[x][s] for x in pend), FA.delta[cur][s], False)]

        def eps(q):
            mode, pend, cur, boundary = q
            if mode == 0 and not boundary:
                # end of an iteration here: R's marker
                return [(0, pend | frozenset([A.delta[cur][MARK]]), A.start, True)]
            return []
        M = determinize(L.nsym, [(0, frozenset(), A.start, True)], step, eps,
                        lambda q: q[0] == 2 and all(x in A.acc for x in q[1]) and q[2] in FA.acc)
        return M, L.empty()

    def den(self, p):
        """(M, F) of a tree"""
        key = id(p)
        if key in self.memo:
            return self.memo[key]
        r = self._den(p)
        self.memo[key] = r
        return r

    def _den(self, p):
        L = self.L
        k = p.kind
        if k in ("map", "try_map", "context", "take", "value", "void", "cut_err"):
            return self.den(p.args[0])
        if k == "verify_map":
            raise Inconclusive("verify_map() is not regular-transparent (its function may reject any text)")
        if k == "verify":
            # M' = { u#v in M : pred(u) },  F' = F  u  { uv : u#v in M, not pred(u) }   with pred regular (verifyre.py)
            R = self.verify_langs.get(id(p))
            if R is None:
                raise Inconclusive("verify() is not regular-transparent")
            M, F = self.den(p.args[0])
            tail = L.concat(L.mark(), L.sigma_star())
            Mok = inter(M, L.concat(R, tail))
            Mbad = inter(M, L.concat(diff(L.sigma_star(), R), tail))
            return Mok, union(F, L.erase_marker(Mbad))
        if k == "lit":
            return self.lit(p.extra)
        if k == "prim":
            n = p.extra
            if n == "digit1":
                return self.cls_plus(self.classes["digit"], 1)
            if n == "digit0":
                return self.cls_plus(self.classes["digit"], 0)
            if n == "space0":
                return self.cls_plus(self.classes["space"], 0)
            if n == "space1":
                return self.cls_plus(self.classes["space"], 1)
            if n == "eof":
                return L.mark(), L.concat(L.sym(range(L.k)), L.sigma_star())
            if n == "any":
                return L.seq(L.sym(range(L.k)), L.mark(), L.sigma_star()), L.eps()
            raise Inconclusive("primitive parser %s has no denotation" % n)
        if k == "take_while":
            lo, hi = p.extra
            clo = p.args[0]
            cl = self.classes.get(("closure", clo.key))
            if cl is None:
                raise Inconclusive("character class of %s unknown" % clo.key)
            if hi is None:
                return self.cls_plus(cl, lo)
            if (lo, hi) == (1, 1):          # one_of
                c = L.sym(cl)
                return L.seq(c, L.mark(), L.sigma_star()), diff(L.sigma_star(), L.concat(c, L.sigma_star()))
            raise Inconclusive("bounded take_while %r" % (p.extra,))
        if k == "repeat":
            lo, hi = p.extra
            if hi is not None or lo > 1:
                raise Inconclusive("repeat with range %r" % (p.extra,))
            E = self.den(p.args[0])
            st = self.star(E)
            return self.seq2(E, st) if lo == 1 else st
        if k == "ref":
            if p.extra not in self.g:
                raise Inconclusive("grammar function %s not extracted" % p.extra)
            return self.den(self.g[p.extra])
        if k in ("seq", "preceded", "terminated", "delimited"):
            r = self.den(p.args[0])
            for a in p.args[1:]:
                r = self.seq2(r, self.den(a))
            return r
        if k == "alt":
            r = self.den(p.args[0])
            for a in p.args[1:]:
                r = self.alt2(r, self.den(a))
            return r
        if k == "opt":
            A, FA = self.den(p.args[0])
            return union(A, L.marker_at_start(FA)), L.empty()
        if k == "peek":
            A, FA = self.den(p.args[0])
            return L.marker_at_start(diff(L.sigma_star(), FA)), FA
        if k == "not":
            A, FA = self.den(p.args[0])
            return L.marker_at_start(FA), diff(L.sigma_star(), FA)
        if k == "separated":
            lo, hi = p.extra
            if hi is not None or lo > 1:
                raise Inconclusive("separated with range %r" % (p.extra,))
            E = self.den(p.args[0])
            S = self.den(p.args[1])
            one = self.seq2(E, self.star(self.seq2(S, E)))
            if lo == 1:
                return one
            A, FA = one
            return union(A, L.marker_at_start(FA)), L.empty()
        if k == "paths":
            # imperative parser explored path by path: the paths are mutually exclusive (they differ in the outcome of
            # an `opt`), so ordered choice over them is exact
            r = self.den(p.args[0])
            for a in p.args[1:]:
                r = self.alt2(r, self.den(a))
            return r
        if k == "repeat_till":
            lo, hi = p.extra
            if lo != 0 or hi is not None:
                raise Inconclusive("repeat_till with range %r" % (p.extra,))
            # loop: if the terminator matches stop, else the element must match
            E = self.den(p.args[0])
            T = self.den(p.args[1])
            A, FA = T
            notT = (self.L.marker_at_start(FA), diff(self.L.sigma_star(), FA))
            return self.seq2(self.star(self.seq2(notT, E)), T)
        raise Inconclusive("combinator %s has no regular denotation here" % k)


# --------------------------------------------------------------------------- alphabet

def build_alphabet(preds, reps):
    """preds: ordered dict name -> function(codepoint) -> bool; reps: iterable of code points.
    Returns (class_of: dict cp -> class index, k, classes: name -> set of class indices, representative chars)"""
    sigs = {}
    class_of = {}
    for cp in reps:
        s = tuple(bool(f(cp)) for f in preds.values())
        if s not in sigs:
            sigs[s] = len(sigs)
        class_of[cp] = sigs[s]
    k = len(sigs)
    classes = {}
    for i, name in enumerate(preds):
        classes[name] = set(c for s, c in sigs.items() if s[i])
    rep_char = {}
    for cp in sorted(class_of):
        c = class_of[cp]
        if c not in rep_char:
            rep_char[c] = cp
    # prefer printable representatives
    for cp in sorted(class_of):
        c = class_of[cp]
        if 0x21 <= cp < 0x7F and not (0x21 <= rep_char[c] < 0x7F):
            rep_char[c] = cp
    return class_of, k, classes, {c: _show(cp) for c, cp in rep_char.items()}


def _show(cp):
    if cp == 0x20:
        return " "
    if cp == 0x09:
        return "\\t"
    if 0x21 <= cp < 0x7F:
        return chr(cp)
    if cp >= 0x100:
        # representative of "high bits set, low byte b": choose a real character with that low byte
        return chr(cp)
    return "\\x%02x" % cp


# --------------------------------------------------------------------------- direct PEG evaluator (cross-check of the automata)

def eval_peg(g, classes, p, w, i):
    """Direct operational semantics of the extracted tree on a word of class indices: returns the new position or
    None. Independent of the automata constructions above; used only to cross-check them on enumerated words."""
    k = p.kind
    if k in ("map", "try_map", "context", "take", "value", "void", "cut_err"):
        return eval_peg(g, classes, p.args[0], w, i)
    if k == "lit":
        j = i
        for ch in p.extra:
            if j < len(w) and w[j] in classes[("lit", ch)]:
                j += 1
            else:
                return None
        return j
    if k == "prim" or k == "take_while":
        if k == "prim":
            n = p.extra
            if n == "eof":
                return i if i == len(w) else None
            if n == "any":
                return i + 1 if i < len(w) else None
            cl, lo = {"digit1": ("digit", 1), "digit0": ("digit", 0), "space0": ("space", 0), "space1": ("space", 1)}[n]
            cl = classes[cl]
        else:
            cl, lo = classes[("closure", p.args[0].key)], p.extra[0]
            if p.extra[1] is not None:
                hi = p.extra[1]
                j = i
                while j < len(w) and w[j] in cl and j - i < hi:
                    j += 1
                return j if j - i >= lo else None
        j = i
        while j < len(w) and w[j] in cl:
            j += 1
        return j if j - i >= lo else None
    if k == "ref":
        return eval_peg(g, classes, g[p.extra], w, i)
    if k in ("seq", "preceded", "terminated", "delimited"):
        j = i
        for a in p.args:
            j = eval_peg(g, classes, a, w, j)
            if j is None:
                return None
        return j
    if k == "alt":
        for a in p.args:
            j = eval_peg(g, classes, a, w, i)
            if j is not None:
                return j
        return None
    if k == "opt":
        j = eval_peg(g, classes, p.args[0], w, i)
        return i if j is None else j
    if k == "peek":
        return i if eval_peg(g, classes, p.args[0], w, i) is not None else None
    if k == "not":
        return i if eval_peg(g, classes, p.args[0], w, i) is None else None
    if k == "separated":
        lo = p.extra[0]
        j = eval_peg(g, classes, p.args[0], w, i)
        if j is None:
            return i if lo == 0 else None
        while True:
            s = eval_peg(g, classes, p.args[1], w, j)
            if s is None:
                return j
            e = eval_peg(g, classes, p.args[0], w, s)
            if e is None:
                return j
            j = e
    if k == "repeat":
        lo = p.extra[0]
        j = i
        n = 0
        while True:
            e = eval_peg(g, classes, p.args[0], w, j)
            if e is None or e == j:
                break
            j = e
            n += 1
        return j if n >= lo else None
    if k == "paths":
        for a in p.args:
            j = eval_peg(g, classes, a, w, i)
            if j is not None:
                return j
        return None
    if k == "repeat_till":
        j = i
        while True:
            t = eval_peg(g, classes, p.args[1], w, j)
            if t is not None:
                return t
            e = eval_peg(g, classes, p.args[0], w, j)
            if e is None or e == j:
                return None
            j = e
    if k in ("verify", "verify_map"):
        j = eval_peg(g, classes, p.args[0], w, i)
        if j is None:
            return None
        h = VERIFY_HOOK[0]
        if h is None:
            raise Inconclusive("direct evaluator: combinator verify (no concrete text at hand)")
        return j if h(p, i, j, w) else None
    raise Inconclusive("direct evaluator: combinator %s" % k)


# verify(pred): a predicate on the matched text. Not regular in general; the word-level evaluator can decide it when the
# caller has the concrete text of the word (hook: (parser node, from, to, word) -> bool; c05.build answers from the predicate's regular language, entrytext.py by interpreting the predicate on the text)
VERIFY_HOOK = [None]


def eval_peg_trace(g, classes, p, w, i, watch):
    """eval_peg that also reports which watched nodes matched which part of the word on the *successful* path:
    returns None or (new position, ((id(node), from, to), …))."""
    k = p.kind
    if id(p) in watch:
        inner = P_inner(p)
        r = eval_peg_trace(g, classes, inner, w, i, watch) if inner is not None else None
        if r is None:
            return None
        return r[0], r[1] + ((id(p), i, r[0]),)
    if k in ("map", "try_map", "context", "take", "value", "void", "cut_err"):
        return eval_peg_trace(g, classes, p.args[0], w, i, watch)
    if k in ("lit", "prim", "take_while"):
        j = eval_peg(g, classes, p, w, i)
        return None if j is None else (j, ())
    if k == "ref":
        return eval_peg_trace(g, classes, g[p.extra], w, i, watch)
    if k in ("seq", "preceded", "terminated", "delimited"):
        j, ev = i, ()
        for a in p.args:
            r = eval_peg_trace(g, classes, a, w, j, watch)
            if r is None:
                return None
            j, ev = r[0], ev + r[1]
        return j, ev
    if k in ("alt", "paths"):
        for a in p.args:
            r = eval_peg_trace(g, classes, a, w, i, watch)
            if r is not None:
                return r
        return None
    if k == "opt":
        r = eval_peg_trace(g, classes, p.args[0], w, i, watch)
        return (i, ()) if r is None else r
    if k == "peek":
        return (i, ()) if eval_peg(g, classes, p.args[0], w, i) is not None else None
    if k == "not":
        return (i, ()) if eval_peg(g, classes, p.args[0], w, i) is None else None
    if k == "separated":
        lo = p.extra[0]
        r = eval_peg_trace(g, classes, p.args[0], w, i, watch)
        if r is None:
            return (i, ()) if lo == 0 else None
        j, ev = r
        while True:
            s_ = eval_peg_trace(g, classes, p.args[1], w, j, watch)
            if s_ is None:
                return j, ev
            e = eval_peg_trace(g, classes, p.args[0], w, s_[0], watch)
            if e is None:
                return j, ev
            j, ev = e[0], ev + s_[1] + e[1]
    if k == "repeat":
        lo = p.extra[0]
        j, ev, n = i, (), 0
        while True:
            e = eval_peg_trace(g, classes, p.args[0], w, j, watch)
            if e is None or e[0] == j:
                break
            j, ev = e[0], ev + e[1]
            n += 1
        return (j, ev) if n >= lo else None
    if k == "repeat_till":
        j, ev = i, ()
        while True:
            t = eval_peg_trace(g, classes, p.args[1], w, j, watch)
            if t is not None:
                return t[0], ev + t[1]
            e = eval_peg_trace(g, classes, p.args[0], w, j, watch)
            if e is None or e[0] == j:
                return None
            j, ev = e[0], ev + e[1]
    if k in ("verify", "verify_map"):
        r = eval_peg_trace(g, classes, p.args[0], w, i, watch)
        if r is None:
            return None
        h = VERIFY_HOOK[0]
        if h is None:
            raise Inconclusive("direct evaluator: combinator verify (no concrete text at hand)")
        return r if h(p, i, r[0], w) else None
    raise Inconclusive("direct evaluator: combinator %s" % k)


def P_inner(p):
    return p.args[0] if p.args else None


def dfa_accepts(d, w):
    q = d.start
    for a in w:
        q = d.delta[q][a]
    return q in d.acc
