"""C05 (entry clause): `Version::parse` interpreted as a whole over the text abstraction of location.py.

The language rules of C05 are decided on the grammar function `version`; they carry over to `Version::parse` only if the
entry point hands its input to the grammar unchanged and returns what the grammar returns. When the entry point does
its own text processing (a fast path, trimming, a pre-check), this table decides the combination: every word over eight
character classes (digit, zero, `+`, `-`, `.`, `v`, blank, letter — one representative each) up to a length bound is
given to `Version::parse`; the grammar call inside it is answered by the PEG evaluation of the extracted grammar on the
remaining text, everything else (splitting, integer parsing, slicing, comparisons) is interpreted on the representative
text. Ok must imply membership in the loose reference language, membership in the canonical language must imply Ok.
Bounded (word length), stated as such in the evidence.
"""
import itertools

from . import location, peg
from .interp import Adt, Cell, Inconclusive, Interp, ListV, NONE, Panic, Policy, Ptr, StrV, Tok, err, ok, some
from .location import TextV, _text
from .models import IterV
from .report import path_sig

ALPHABET = "10+-.v a"


def words(maxlen):
    for n in range(0, min(maxlen, 5) + 1):
        for w in itertools.product(ALPHABET, repeat=n):
            yield "".join(w)
    for n in range(6, maxlen + 1):
        for w in itertools.product(ALPHABET, repeat=n):
            if w.count(".") >= 2:
                yield "".join(w)


def _pattern_bytes(interp, pat):
    """a char / &str / array-of-chars pattern as a list of alternative byte strings"""
    if isinstance(pat, (Ptr,)):
        pat = interp.load(pat)
    if isinstance(pat, int) and not isinstance(pat, bool):
        return [chr(pat).encode("utf-8")]
    if isinstance(pat, StrV):
        return [pat.s.encode("utf-8")]
    if isinstance(pat, ListV) and all(isinstance(x, int) for x in pat.items):
        return [chr(x).encode("utf-8") for x in pat.items]
    if isinstance(pat, tuple) and all(isinstance(x, int) for x in pat):
        return [chr(x).encode("utf-8") for x in pat]
    raise Inconclusive("text pattern %r" % (pat,), interp.where())


def m_split(interp, args, info):
    t = _text(interp, args[0])
    if t is None or t.kind != "str":
        return NotImplemented
    alts = _pattern_bytes(interp, args[1])
    b = t.bytes()
    pieces, pos, i = [], 0, 0
    while i < len(b):
        hit = next((a for a in alts if a and b.startswith(a, i)), None)
        if hit:
            pieces.append(TextV(t.base, t.start + pos, t.start + i, "str"))
            i += len(hit)
            pos = i
        else:
            i += 1
    pieces.append(TextV(t.base, t.start + pos, t.start + len(b), "str"))
    return IterV("vec", ListV(pieces))


def m_strip_prefix(interp, args, info):
    t = _text(interp, args[0])
    if t is None:
        return NotImplemented
    b = t.bytes()
    for a in _pattern_bytes(interp, args[1]):
        if b.startswith(a):
            return some(TextV(t.base, t.start + len(a), t.end, "str"))
    return NONE


def m_strip_suffix(interp, args, info):
    t = _text(interp, args[0])
    if t is None:
        return NotImplemented
    b = t.bytes()
    for a in _pattern_bytes(interp, args[1]):
        if b.endswith(a):
            return some(TextV(t.base, t.start, t.end - len(a), "str"))
    return NONE


def m_starts_with(interp, args, info):
    t = _text(interp, args[0])
    if t is None:
        return NotImplemented
    which = info["def"].rsplit("::", 1)[1]
    b = t.bytes()
    alts = _pattern_bytes(interp, args[1])
    if which == "starts_with":
        return any(b.startswith(a) for a in alts)
    if which == "ends_with":
        return any(b.endswith(a) for a in alts)
    return any(a in b for a in alts)


WS = (b" ", b"\t", b"\n", b"\r", b"\x0b", b"\x0c")


def m_trim(interp, args, info):
    t = _text(interp, args[0])
    if t is None:
        return NotImplemented
    which = info["def"].rsplit("::", 1)[1]
    b = t.bytes()
    lo, hi = 0, len(b)
    if which in ("trim_matches", "trim_start_matches", "trim_end_matches"):
        alts = _pattern_bytes(interp, args[1])
    else:
        alts = list(WS)
    if which in ("trim", "trim_start", "trim_matches", "trim_start_matches"):
        moved = True
        while moved:
            moved = False
            for a in alts:
                if a and b.startswith(a, lo) and lo + len(a) <= hi:
                    lo += len(a)
                    moved = True
    if which in ("trim", "trim_end", "trim_matches", "trim_end_matches"):
        moved = True
        while moved:
            moved = False
            for a in alts:
                if a and b[lo:hi].endswith(a):
                    hi -= len(a)
                    moved = True
    return TextV(t.base, t.start + lo, t.start + hi, "str")


def m_to_owned(interp, args, info):
    t = _text(interp, args[0])
    if t is None:
        return NotImplemented
    return t            # an owned copy of the same text


_DONE = []


def install():
    location.install()          # installs the models below as well


def install_text_models():
    if _DONE:
        return
    _DONE.append(1)
    w = location._wrap
    w("core::str::<impl str>::split", m_split)
    for n in ("into:&str->std::string::String", "<T as std::string::ToString>::to_string", "<str as std::string::ToString>::to_string",
              "std::string::String::from", "std::str::<impl std::borrow::ToOwned for str>::to_owned",
              "alloc::str::<impl std::borrow::ToOwned for str>::to_owned", "<std::string::String as std::convert::From<&str>>::from",
              "core::str::<impl str>::to_string", "std::str::<impl str>::to_owned"):
        w(n, m_to_owned)
    w("core::str::<impl str>::strip_prefix", m_strip_prefix)
    w("core::str::<impl str>::strip_suffix", m_strip_suffix)
    for n in ("starts_with", "ends_with", "contains"):
        w("core::str::<impl str>::" + n, m_starts_with)
    for n in ("trim", "trim_start", "trim_matches", "trim_start_matches", "trim_end_matches"):
        w("core::str::<impl str>::" + n, m_trim)


def text_u64_parse(interp, args, info):
    """str::parse::<u64> on a representative text, as documented: optional `+`, decimal digits, no overflow"""
    import re
    t = _text(interp, args[0])
    tys = [interp.prog.ty_str(x) for x in info.get("targs", [])]
    if t is None or "u64" not in tys:
        raise Inconclusive("str::parse::<%s> on %r" % (tys, args[0]), interp.where())
    s = t.bytes().decode("utf-8", "replace")
    if re.fullmatch(r"\+?[0-9]+", s) and int(s) < (1 << 64):
        return ok(int(s))
    return err(Tok("O", "parse_int_error"))


def _decode_version(prog, it, v):
    """(major, minor, patch, pre, build) of a Version the entry point built itself (numbers as ints, identifiers as
    ('n', int) / ('s', text)); None when the value is the opaque result of the grammar call or anything not concrete"""
    from .interp import StrV
    v = it.strip(v)
    if not (isinstance(v, Adt) and v.name == "Version"):
        return None
    names = prog.field_names("Version")
    f = dict(zip(names, v.fields))
    out = []
    for fn in ("major", "minor", "patch"):
        x = f[fn]
        if isinstance(x, bool) or not isinstance(x, int):
            return None
        out.append(x)
    for fn in ("pre_release", "build"):
        lst = it.strip(f[fn])
        if not isinstance(lst, ListV):
            return None
        ids = []
        for x in lst.items:
            x = it.strip(x)
            if not (isinstance(x, Adt) and x.name == "Identifier" and x.fields):
                return None
            kind = prog.variant_name("Identifier", x.variant)
            p0 = it.strip(x.fields[0])
            if kind == "Numeric" and isinstance(p0, int) and not isinstance(p0, bool):
                ids.append(("n", p0))
            elif kind == "AlphaNumeric" and isinstance(p0, TextV):
                ids.append(("s", p0.bytes().decode("utf-8", "replace")))
            elif kind == "AlphaNumeric" and isinstance(p0, StrV):
                ids.append(("s", p0.s))
            else:
                return None
        out.append(tuple(ids))
    return tuple(out)


_ST = {}


def _worker(chunk):
    prog, g, classes, class_of, gram_key = _ST["prog"], _ST["g"], _ST["classes"], _ST["class_of"], _ST["gram_key"]
    SPE = "SemverParseError"
    EM = next(k for k in prog.adts if k.startswith("winnow::error::ErrMode"))
    BT = prog.variant_index(EM, "Backtrack")
    names = prog.field_names(SPE)
    out = []
    for word in chunk:
        text = word.encode("utf-8")

        def grammar(interp, args, info):
            c, path = interp.deref(args[0])
            t = _text(interp, interp.read(c, path))
            if t is None:
                raise Inconclusive("grammar called on %r" % (interp.read(c, path),), interp.where())
            rest = t.bytes().decode("utf-8", "replace")
            w = [class_of[ord(ch)] for ch in rest]

            def verify(p, a, b, _w):
                lo, hi = len(rest[:a].encode("utf-8")), len(rest[:b].encode("utf-8"))
                r = interp.call_value(p.extra, [TextV(t.base, t.start + lo, t.start + hi, "str")])
                if p.kind == "verify_map":
                    from .interp import is_some
                    return is_some(r)
                if not isinstance(r, bool):
                    raise Inconclusive("verify() predicate answered %r" % (r,), interp.where())
                return r
            saved = peg.VERIFY_HOOK[0]
            peg.VERIFY_HOOK[0] = verify
            try:
                j = peg.eval_peg(g, classes, g[gram_key], w, 0)
            finally:
                peg.VERIFY_HOOK[0] = saved
            if j is None:
                f = {"input": t, "context": NONE, "kind": NONE}
                return err(Adt(EM, BT, (Adt(SPE, 0, [f[n] for n in names]),)))
            adv = len(rest[:j].encode("utf-8"))
            interp.write(c, path, TextV(t.base, t.start + adv, t.end, "str"))
            return ok(Tok("O", "parsed-version"))
        class TextPolicy(Policy):
            def parse_next(pself, interp, p, inp, info):
                q = p
                while q.kind in ("context", "cut_err"):
                    q = q.args[0]
                if q.kind == "ref" and q.extra == gram_key:
                    return grammar(interp, [inp], info)
                raise Inconclusive("the entry point runs a parser other than `%s`: %r" % (gram_key, p), interp.where())
        pol = TextPolicy()
        pol.witness = True
        pol.allow_sub = True
        pol.str_parse = text_u64_parse
        it = Interp(prog, pol, overrides={gram_key: grammar})
        try:
            r = it.call_body("Version::parse", [TextV(text, 0, len(text), "str")])
            st = "ok" if (isinstance(r, Adt) and r.variant == 0) else "err"
            detail = None
            if st == "ok":
                detail = _decode_version(prog, it, r.fields[0])
        except Panic as p:
            st, detail = "panic", str(p)
        except Inconclusive as e:
            st, detail = "inconclusive", (e.reason, e.where)
        out.append((word, st, detail, path_sig(it)))
    return out


def table(prog, g, classes, class_of, maxlen, gram_key="version"):
    import multiprocessing as mp
    import os
    install()
    ws = list(words(maxlen))
    _ST.update(prog=prog, g=g, classes=classes, class_of=class_of, gram_key=gram_key)
    procs = min(16, os.cpu_count() or 1)
    n = max(1, len(ws) // (procs * 8))
    chunks = [ws[i:i + n] for i in range(0, len(ws), n)]
    with mp.get_context("fork").Pool(procs) as pool:
        res = pool.map(_worker, chunks)
    return [r for part in res for r in part]
