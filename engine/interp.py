"""E-TAB: abstract interpreter for the MIR exported by the `sa` driver.

The interpreter runs crate bodies over *abstract values*: concrete constructors (ADTs, tuples,
lists, pointers into a small heap) whose leaves are opaque tokens. A token stands for an
equivalence class of runtime values; it carries a representative (`val`) chosen by the world
generator of the analysis, and every operation applied to a token is checked against a
whitelist (`Policy`) of operations that are invariant on the class. Anything else raises
`Inconclusive`, naming the construct: a table that *is* produced therefore proves that the
function used its inputs only through the whitelisted atoms.

No function of the crate is executed natively; functions of core/alloc/winnow are *modelled*
in `models.py`.
"""
import sys

sys.setrecursionlimit(10000)


class Inconclusive(Exception):
    def __init__(self, reason, where=None):
        Exception.__init__(self, reason)
        self.reason = reason
        self.where = where


class Panic(Exception):
    """The interpreted crate code reaches a panic (unwrap on None, assert, unreachable!, ...)."""

    def __init__(self, kind, where, detail=""):
        Exception.__init__(self, "%s at %s %s" % (kind, where, detail))
        self.kind = kind
        self.where = where
        self.detail = detail


class _Uninit(object):
    def __repr__(self):
        return "UNINIT"


UNINIT = _Uninit()
UNIT = ()


class Cell(object):
    __slots__ = ("v", "tag")

    def __init__(self, v=UNINIT, tag=None):
        self.v = v
        self.tag = tag


class Adt(object):
    __slots__ = ("name", "variant", "fields")

    def __init__(self, name, variant, fields=()):
        self.name = name
        self.variant = variant
        self.fields = tuple(fields)

    def __repr__(self):
        return "Adt(%s#%d%r)" % (self.name, self.variant, self.fields)


class Ptr(object):
    __slots__ = ("cell", "path")

    def __init__(self, cell, path=()):
        self.cell = cell
        self.path = tuple(path)

    def __repr__(self):
        return "Ptr(%x,%r)" % (id(self.cell) & 0xFFFF, self.path)


class BoxV(object):
    __slots__ = ("cell",)

    def __init__(self, cell):
        self.cell = cell

    def __repr__(self):
        return "Box(%r)" % (self.cell.v,)


class Clo(object):
    __slots__ = ("key", "caps")

    def __init__(self, key, caps=()):
        self.key = key
        self.caps = tuple(caps)

    def __repr__(self):
        return "Clo(%s)" % self.key


class FnV(object):
    __slots__ = ("info",)

    def __init__(self, info):
        self.info = info

    def key(self):
        r = self.info.get("resolved")
        return r["def"] if r else self.info["def"]

    def __repr__(self):
        return "Fn(%s)" % self.key()


class ListV(object):
    """A Vec / array / slice content of statically known length."""
    __slots__ = ("items",)

    def __init__(self, items=()):
        self.items = tuple(items)

    def __repr__(self):
        return "List%r" % (self.items,)


class StrV(object):
    __slots__ = ("s",)

    def __init__(self, s):
        self.s = s

    def __repr__(self):
        return "Str(%r)" % self.s


class BytesV(object):
    __slots__ = ("b",)

    def __init__(self, b):
        self.b = tuple(b)


class Sparse(object):
    """Partially initialised aggregate (MaybeUninit written through field projections)."""
    __slots__ = ("d",)

    def __init__(self, d=None):
        self.d = dict(d or {})


class Tok(object):
    """Opaque token. kind: 'V' version, 'I' integer, 'L' identifier list, 'S' interval set,
    'C' char, 'T' text/str, 'O' other. `val` is the representative, `off` a constant added to
    an integer token, `dom` the comparison domain (tokens of different domains must not be
    compared), `name` identifies the token in reports."""
    __slots__ = ("kind", "name", "val", "off", "dom", "extra")

    def __init__(self, kind, name, val=None, off=0, dom=None, extra=None):
        self.kind = kind
        self.name = name
        self.val = val
        self.off = off
        self.dom = dom
        self.extra = extra

    def __repr__(self):
        if self.off:
            return "%s+%d" % (self.name, self.off)
        return "%s" % (self.name,)


def ordering(n):
    return Adt("std::cmp::Ordering", 0 if n < 0 else (1 if n == 0 else 2))


def ordering_to_int(v):
    if not (isinstance(v, Adt) and v.name == "std::cmp::Ordering"):
        raise Inconclusive("expected Ordering, got %r" % (v,))
    return v.variant - 1


def some(v):
    return Adt("std::option::Option", 1, (v,))


NONE = Adt("std::option::Option", 0, ())


def ok(v):
    return Adt("std::result::Result", 0, (v,))


def err(v):
    return Adt("std::result::Result", 1, (v,))


def is_some(v):
    return isinstance(v, Adt) and v.name == "std::option::Option" and v.variant == 1


class Policy(object):
    """Whitelist of operations on tokens. Analyses subclass / configure this."""

    def __init__(self):
        self.allow_offset_cmp = False   # difference-bound worlds (min_version table)
        self.allow_int_literals = {0}   # literals an I token may be compared with
        self.notes = []
        # witness mode: integer tokens are their representatives (any comparison between them or with a literal is
        # admitted). Used only to look for a concrete counterexample after an abstraction turned out not to apply:
        # a mismatch found this way is genuine, the absence of one proves nothing.
        self.witness = False

    def int_cmp(self, interp, a, b, op="Cmp"):
        """Return (x, y) concrete representatives for comparing a and b, or raise."""
        ta, tb = isinstance(a, Tok), isinstance(b, Tok)
        for t in (a, b):
            if isinstance(t, Tok) and t.extra and t.extra.get("eq_only") and op not in ("Eq", "Ne"):
                raise Inconclusive("order comparison %s on equality-only token %r" % (op, t), interp.where())
        if self.witness and all((not isinstance(t, Tok)) or t.kind == "I" for t in (a, b)):
            return (a.val + a.off if ta else a), (b.val + b.off if tb else b)
        if ta and tb:
            if a.kind != b.kind:
                raise Inconclusive("comparison of tokens of different kinds %r %r" % (a, b), interp.where())
            if a.dom != b.dom:
                raise Inconclusive("comparison across domains %r(%s) %r(%s)" % (a, a.dom, b, b.dom), interp.where())
            if (a.off or b.off) and not self.allow_offset_cmp:
                raise Inconclusive("comparison of an incremented token %r %r" % (a, b), interp.where())
            return a.val + a.off, b.val + b.off
        t, lit = (a, b) if ta else (b, a)
        if t.kind == "C":
            if not isinstance(lit, int) or lit >= 0x80:
                raise Inconclusive("char token compared with non-ASCII literal %r" % (lit,), interp.where())
            return (t.val, lit) if ta else (lit, t.val)
        if t.kind != "I":
            raise Inconclusive("token %r compared with literal %r" % (t, lit), interp.where())
        if t.off and not self.allow_offset_cmp:
            raise Inconclusive("comparison of an incremented token %r with %r" % (t, lit), interp.where())
        if getattr(self, "log_literals", None) is not None and t.dom in getattr(self, "free_literal_doms", ()):
            self.log_literals.add(lit)
        elif lit not in self.allow_int_literals and not self.allow_offset_cmp:
            # `x >= 1` / `x < 1` on an unsigned token is the zero test in another spelling (e.g. the pattern `1..`)
            zero_test = (lit == 1 and 0 in self.allow_int_literals and t.val + t.off >= 0
                         and ((ta and op in ("Ge", "Lt")) or (not ta and op in ("Le", "Gt"))))
            if not zero_test:
                raise Inconclusive("integer token %r compared with literal %r" % (t, lit), interp.where())
        tv = t.val + t.off
        return (tv, lit) if ta else (lit, tv)


class Ctx(object):
    """Decision oracle for enumerated stub outcomes (`choose`)."""

    def __init__(self, prefix=()):
        self.prefix = list(prefix)
        self.decisions = []
        self.arity = []
        self.labels = []

    def choose(self, label, n):
        i = len(self.decisions)
        d = self.prefix[i] if i < len(self.prefix) else 0
        if d >= n:
            raise Inconclusive("decision replay mismatch at %s" % label)
        self.decisions.append(d)
        self.arity.append(n)
        self.labels.append(label)
        return d


def explore(run, limit=200000):
    """Run `run(ctx)` once per sequence of stub outcomes (depth-first, exhaustive)."""
    stack = [[]]
    n = 0
    while stack:
        prefix = stack.pop()
        ctx = Ctx(prefix)
        res = run(ctx)
        n += 1
        if n > limit:
            raise Inconclusive("decision tree larger than %d" % limit)
        yield ctx, res
        for i in range(len(ctx.decisions) - 1, len(prefix) - 1, -1):
            for alt in range(ctx.arity[i] - 1, 0, -1):
                stack.append(ctx.decisions[:i] + [alt])


MASKS = {}


class Interp(object):
    def __init__(self, prog, policy=None, ctx=None, overrides=None, models=None, max_steps=200000):
        self.prog = prog
        self.policy = policy or Policy()
        self.ctx = ctx or Ctx()
        self.overrides = overrides or {}
        if models is None:
            from . import models as _m
            models = _m
        self.models = models
        self.max_steps = max_steps
        self.steps = 0
        self.stack = []          # (key, bb, span) of active frames
        self.branches = []       # (key, bb, taken) for every SwitchInt executed
        self.calls = []          # keys of crate bodies entered
        self.stubbed = set()     # crate bodies whose call was answered by an override / parser stub instead
        self.ret_span = {}       # key -> span of the last write to _0 of that function
        self.events = []         # analysis specific (models append)
        self.obligations = []    # e.g. overflow sites met
        self.depth = 0

    # ------------------------------------------------------------------ helpers
    def where(self):
        if not self.stack:
            return None
        key, sp = self.stack[-1][0], self.stack[-1][2]
        return "%s (%s:%d)" % (key, sp["file"], sp["line"]) if sp else key

    def type_of(self, ix):
        return self.prog.types[ix]

    def mask_bits(self, tix):
        t = self.prog.types[tix]
        k = t.get("k")
        if k == "int":
            return t["bits"], t["signed"]
        if k == "bool":
            return 1, False
        if k == "char":
            return 32, False
        return 64, False

    # ------------------------------------------------------------------ memory
    def nav(self, v, elem):
        if isinstance(elem, int):
            if isinstance(v, Adt):
                return v.fields[elem]
            if isinstance(v, tuple):
                return v[elem]
            if isinstance(v, Clo):
                return v.caps[elem]
            if isinstance(v, BoxV):
                return v  # Box -> Unique -> NonNull -> *const T all denote the same pointer
            if isinstance(v, Sparse):
                return v.d.get(elem, UNINIT)
            if isinstance(v, Tok):
                return self.models.tok_field(self, v, elem)
            raise Inconclusive("field %r of %r" % (elem, v), self.where())
        if elem[0] == "i":
            if isinstance(v, ListV):
                if elem[1] >= len(v.items):
                    raise Panic("index", self.where(), "index %d out of %d" % (elem[1], len(v.items)))
                return v.items[elem[1]]
            if isinstance(v, BytesV):
                b = v.b if hasattr(v, "b") else v.v
                if elem[1] >= len(b):
                    raise Panic("index", self.where(), "index %d out of %d" % (elem[1], len(b)))
                return b[elem[1]]
            raise Inconclusive("index into %r" % (v,), self.where())
        if elem[0] == "ie":            # constant index counted from the end
            if isinstance(v, ListV):
                if elem[1] > len(v.items):
                    raise Panic("index", self.where(), "index -%d out of %d" % (elem[1], len(v.items)))
                return v.items[len(v.items) - elem[1]]
            raise Inconclusive("index from the end into %r" % (v,), self.where())
        if elem[0] == "sub":           # subslice pattern: a read-only view
            if isinstance(v, ListV):
                lo, to, from_end = elem[1], elem[2], elem[3]
                hi = len(v.items) - to if from_end else to
                return ListV(tuple(v.items[lo:hi]))
            raise Inconclusive("subslice of %r" % (v,), self.where())
        raise Inconclusive("bad path element %r" % (elem,), self.where())

    def read(self, cell, path):
        v = cell.v
        for e in path:
            v = self.nav(v, e)
        return v

    def upd(self, v, path, new):
        if not path:
            return new
        e = path[0]
        if isinstance(e, int):
            if isinstance(v, Adt):
                f = list(v.fields)
                f[e] = self.upd(f[e], path[1:], new)
                return Adt(v.name, v.variant, f)
            if isinstance(v, tuple):
                f = list(v)
                f[e] = self.upd(f[e], path[1:], new)
                return tuple(f)
            if isinstance(v, Clo):
                f = list(v.caps)
                f[e] = self.upd(f[e], path[1:], new)
                return Clo(v.key, f)
            if v is UNINIT:
                return Sparse({e: self.upd(UNINIT, path[1:], new)})
            if isinstance(v, Sparse):
                d = dict(v.d)
                d[e] = self.upd(d.get(e, UNINIT), path[1:], new)
                return Sparse(d)
            raise Inconclusive("write to field %r of %r" % (e, v), self.where())
        if e[0] == "i" and isinstance(v, ListV):
            f = list(v.items)
            f[e[1]] = self.upd(f[e[1]], path[1:], new)
            return ListV(f)
        raise Inconclusive("write through %r of %r" % (e, v), self.where())

    def write(self, cell, path, new):
        cell.v = self.upd(cell.v, path, new)

    def deref(self, v):
        """pointer-like value -> (cell, path)"""
        if isinstance(v, Ptr):
            return v.cell, v.path
        if isinstance(v, BoxV):
            return v.cell, ()
        if isinstance(v, (StrV, BytesV)) or (isinstance(v, Tok) and v.kind == "T"):
            return Cell(v), ()     # `&str` / `&[u8; N]` constants and text tokens: reference and referent coincide
        if getattr(v, "transparent_ref", False):
            return Cell(v), ()     # abstract slices (engine/location.py): a slice value stands for the reference too
        raise Inconclusive("deref of %r" % (v,), self.where())

    def load(self, v):
        c, p = self.deref(v)
        return self.read(c, p)

    def strip(self, v):
        """follow references and boxes down to a non-pointer value"""
        while isinstance(v, (Ptr, BoxV)):
            v = self.load(v)
        return v

    def lvalue(self, frame, place):
        cell, path = frame[place["l"]], ()
        for pe in place["p"]:
            k = pe[0]
            if k == "deref":
                cell, path = self.deref(self.read(cell, path))
            elif k == "field":
                path = path + (pe[1],)
            elif k == "downcast":
                v = self.read(cell, path)
                if isinstance(v, Adt) and v.variant != pe[1]:
                    raise Inconclusive("downcast to variant %d of %r" % (pe[1], v), self.where())
            elif k == "index":
                ix = frame[pe[1]].v
                if not isinstance(ix, int):
                    raise Inconclusive("symbolic index", self.where())
                path = path + (("i", ix),)
            elif k == "cindex":
                if pe[3]:
                    path = path + (("ie", pe[1]),)
                else:
                    path = path + (("i", pe[1]),)
            elif k == "subslice":
                path = path + (("sub", pe[1], pe[2], pe[3]),)
            else:
                raise Inconclusive("projection %s" % k, self.where())
        return cell, path

    def rplace(self, frame, place):
        cell, path = self.lvalue(frame, place)
        v = self.read(cell, path)
        if v is UNINIT:
            raise Inconclusive("read of uninitialised place", self.where())
        return v

    # ------------------------------------------------------------------ operands
    def const(self, c):
        k = c["kind"]
        if k == "int":
            return int(c["v"])
        if k == "bool":
            return bool(c["v"])
        if k == "char":
            return int(c["v"])
        if k == "str":
            return StrV(c["v"])
        if k == "bytes":
            return BytesV(c["v"])
        if k == "fn":
            return FnV(c)
        if k == "closure":
            return Clo(c["def"], ())
        if k == "promoted":
            return self.promoted(c["owner"], c["index"])
        if k == "zst":
            t = self.prog.types[c["ty"]]
            if t.get("k") == "closure":
                return Clo(t["def"], ())
            if t.get("k") == "adt":
                return Adt(t["adt"], 0, ())
            return UNIT
        name = c.get("s")
        if k == "other" and name in getattr(self.prog, "const_bodies", {}):
            return self.const_item(name)
        if k == "other" and name in getattr(self.prog, "consts", {}):
            v = self.prog.consts[name]
            t = self.prog.types[c["ty"]] if "ty" in c else {}
            if t.get("k") == "adt" and t.get("adt") in self.prog.adts:
                # a constant of a field-less enum type (`const X: Ordering = Ordering::Less`): its discriminant
                ad = self.prog.adts[t["adt"]]
                for vi, var in enumerate(ad["variants"]):
                    d = int(var["discr"]) if var.get("discr") is not None else vi
                    if not var.get("fields") and (d == v or any((d - v) % m == 0 and abs(d - v) == m for m in (1 << 8, 1 << 16, 1 << 32, 1 << 64))):
                        return Adt(t["adt"], vi, ())
                raise Inconclusive("constant %s of type %s" % (name, t.get("adt")), self.where())
            return v
        raise Inconclusive("constant %s" % c.get("s"), self.where())

    def const_item(self, name):
        """value of an aggregate `const` item of the crate: its CTFE body is interpreted (memoised per interpreter)"""
        cache = self.__dict__.setdefault("_const_items", {})
        if name not in cache:
            body = self.prog.const_bodies[name]
            frame = [Cell() for _ in body["locals"]]
            self.stack.append([name, 0, body["span"]])
            try:
                cache[name] = self.run(name, body, frame)
            finally:
                self.stack.pop()
        return cache[name]

    def promoted(self, owner, index):
        """evaluate a promoted constant by interpreting its MIR body (memoised per interpreter)"""
        cache = self.__dict__.setdefault("_promoted", {})
        k = (owner, index)
        if k not in cache:
            ob = self.prog.const_bodies[owner] if owner in getattr(self.prog, "const_bodies", {}) and not self.prog.has_body(owner) \
                else self.prog.body(owner)
            body = ob["promoted"][index]
            frame = [Cell() for _ in body["locals"]]
            self.stack.append([owner + "::promoted[%d]" % index, 0, body["span"]])
            try:
                cache[k] = self.run(owner + "::promoted", body, frame)
            finally:
                self.stack.pop()
        return cache[k]

    def operand(self, frame, op):
        if "copy" in op:
            return self.rplace(frame, op["copy"])
        if "move" in op:
            return self.rplace(frame, op["move"])
        if "const" in op:
            return self.const(op["const"])
        raise Inconclusive("operand %r" % (op,), self.where())

    # ------------------------------------------------------------------ rvalues
    def as_int(self, v):
        if isinstance(v, bool):
            return int(v)
        if isinstance(v, int):
            return v
        raise Inconclusive("expected integer, got %r" % (v,), self.where())

    def binop(self, op, a, b, tix):
        cmpops = ("Eq", "Ne", "Lt", "Le", "Gt", "Ge", "Cmp")
        if getattr(self.policy, "witness", False) and op not in cmpops and \
                all((not isinstance(t, Tok)) or (t.kind == "I" and isinstance(t.val, int)) for t in (a, b)) and \
                op.replace("WithOverflow", "").replace("Unchecked", "") in ("Shl", "Shr", "BitOr", "BitAnd", "BitXor", "Mul", "Add", "Sub", "Div", "Rem") and \
                not (op.startswith("Add") and isinstance(a, Tok) and isinstance(b, int) and 0 <= b <= 2):
            # witness mode: integer tokens are their representatives
            a = a.val + a.off if isinstance(a, Tok) else a
            b = b.val + b.off if isinstance(b, Tok) else b
        if isinstance(a, Tok) or isinstance(b, Tok):
            if op in cmpops:
                x, y = self.policy.int_cmp(self, a, b, op)
                return self._cmp(op, x, y)
            if op in ("AddWithOverflow", "Add", "AddUnchecked") and isinstance(a, Tok) and a.kind == "I" \
                    and isinstance(b, int) and 0 <= b <= 2:
                self.obligations.append(("add", self.where(), a, b, (self.stack[-1][0], self.stack[-1][1]) if self.stack else None))
                t = Tok("I", a.name, a.val, a.off + b, a.dom, a.extra)
                return (t, False) if op == "AddWithOverflow" else t
            if op in ("SubWithOverflow", "Sub", "SubUnchecked") and getattr(self.policy, "allow_sub", False):
                free = getattr(self.policy, "log_literals", None) is not None and \
                    isinstance(a, Tok) and a.dom in getattr(self.policy, "free_literal_doms", ())
                if isinstance(a, Tok) and a.kind == "I" and isinstance(b, int) and not isinstance(b, bool) and (0 <= b <= 2 or free):
                    # class-wise exact as long as the world's representatives include the boundaries around b
                    if free:
                        self.policy.log_literals.add(b)
                    self.obligations.append(("sub", self.where(), a, b))
                    t = Tok("I", a.name, a.val, a.off - b, a.dom, a.extra)
                    over = a.val + a.off - b < 0
                    return (t, over) if op == "SubWithOverflow" else t
                if getattr(self.policy, "allow_len_diff", False) and isinstance(a, Tok) and isinstance(b, Tok) \
                        and a.kind == "I" and b.kind == "I" and a.dom == "len" and b.dom == "len" \
                        and a.name.startswith("len(") and b.name.startswith("len(") and not a.off and not b.off:
                    # `whole.len() - rest.len()`: when `rest` is a tail of `whole` (a stream position), this is the
                    # offset of `rest` in `whole`, the same quantity as the pointer difference
                    self.obligations.append(("ptrdiff", self.where(), "ptr(%s)" % b.name[4:-1], "ptr(%s)" % a.name[4:-1]))
                    self.obligations.append(("len-diff", self.where(), a.name, b.name))
                    t = Tok("D", "ptr(%s)-ptr(%s)" % (b.name[4:-1], a.name[4:-1]), None,
                            extra={"minuend": "ptr(%s)" % b.name[4:-1], "subtrahend": "ptr(%s)" % a.name[4:-1]})
                    return (t, False) if op == "SubWithOverflow" else t
                if isinstance(a, Tok) and isinstance(b, Tok) and a.kind == "A" and b.kind == "A":
                    self.obligations.append(("ptrdiff", self.where(), a.name, b.name))
                    t = Tok("D", "%s-%s" % (a.name, b.name), None, extra={"minuend": a.name, "subtrahend": b.name})
                    return (t, False) if op == "SubWithOverflow" else t
            raise Inconclusive("operation %s on token %r %r" % (op, a, b), self.where())
        if isinstance(a, Ptr) or isinstance(b, Ptr):
            raise Inconclusive("pointer arithmetic/comparison %s" % op, self.where())
        if op in cmpops:
            return self._cmp(op, self.as_int(a), self.as_int(b))
        bits, signed = self.mask_bits(tix)
        x, y = self.as_int(a), self.as_int(b)
        if op in ("BitAnd", "BitOr", "BitXor"):
            r = {"BitAnd": x & y, "BitOr": x | y, "BitXor": x ^ y}[op]
            return bool(r) if isinstance(a, bool) else r
        base = op.replace("WithOverflow", "").replace("Unchecked", "")
        if base == "Add":
            r = x + y
        elif base == "Sub":
            r = x - y
        elif base == "Mul":
            r = x * y
        elif base == "Shl":
            if not 0 <= y < bits:
                raise Panic("overflow", self.where(), "shift by %d" % y)
            r = self.wrap(x << y, bits, signed)
        elif base == "Shr":
            if not 0 <= y < bits:
                raise Panic("overflow", self.where(), "shift by %d" % y)
            r = x >> y
        elif base in ("Div", "Rem"):
            if y == 0:
                raise Panic("div_by_zero", self.where(), "%s by zero" % base)
            # Rust: truncating division, remainder takes the sign of the dividend
            q = abs(x) // abs(y)
            if (x < 0) != (y < 0):
                q = -q
            r = q if base == "Div" else x - q * y
        else:
            raise Inconclusive("binary operator %s" % op, self.where())
        lo, hi = (-(1 << (bits - 1)), (1 << (bits - 1)) - 1) if signed else (0, (1 << bits) - 1)
        over = not (lo <= r <= hi)
        wrapped = self.wrap(r, bits, signed)
        if op.endswith("WithOverflow"):
            return (wrapped, over)
        return wrapped

    @staticmethod
    def wrap(r, bits, signed):
        r &= (1 << bits) - 1
        if signed and r >= (1 << (bits - 1)):
            r -= 1 << bits
        return r

    @staticmethod
    def _cmp(op, x, y):
        if op == "Eq":
            return x == y
        if op == "Ne":
            return x != y
        if op == "Lt":
            return x < y
        if op == "Le":
            return x <= y
        if op == "Gt":
            return x > y
        if op == "Ge":
            return x >= y
        return ordering((x > y) - (x < y))

    def cast(self, kind, v, from_ix, to_ix):
        if kind == "IntToInt":
            bits, signed = self.mask_bits(to_ix)
            if isinstance(v, Tok):
                return self.models.tok_cast(self, v, from_ix, to_ix)
            return self.wrap(self.as_int(v), bits, signed)
        if kind == "IntToFloat" and isinstance(v, Tok) and v.kind == "I":
            # lossy for large values: the result is a float token whose comparisons may collide (models._float_cmp)
            return Tok("F", "float(%s)" % v.name, v.val + v.off, dom="float", extra={"of": v})
        if kind == "Subtype":
            return v                     # same value at a supertype (lifetimes of closures / fn items)
        if kind in ("Transmute", "PtrToPtr") or kind.startswith("PointerCoercion") or kind.startswith("PointerExpose"):
            if isinstance(v, BoxV):
                return Ptr(v.cell, ())
            return v
        raise Inconclusive("cast %s" % kind, self.where())

    def rvalue(self, frame, rv):
        k = rv["k"]
        if k == "use":
            return self.operand(frame, rv["op"])
        if k in ("ref", "rawptr"):
            cell, path = self.lvalue(frame, rv["place"])
            return Ptr(cell, path)
        if k == "aggr":
            ops = [self.operand(frame, o) for o in rv["ops"]]
            ak = rv["ak"]
            if ak == "adt":
                return Adt(rv["adt"], rv["variant"], ops)
            if ak == "tuple":
                return tuple(ops)
            if ak == "array":
                return ListV(ops)
            if ak == "closure":
                return Clo(rv["def"], ops)
            raise Inconclusive("aggregate %s" % ak, self.where())
        if k == "discr":
            v = self.rplace(frame, rv["place"])
            if isinstance(v, Adt):
                return self.prog.discr(v.name, v.variant)
            if isinstance(v, Tok):
                return self.models.tok_discr(self, v)
            raise Inconclusive("discriminant of %r" % (v,), self.where())
        if k == "binop":
            return self.binop(rv["op"], self.operand(frame, rv["a"]), self.operand(frame, rv["b"]), rv["ty"])
        if k == "unop":
            a = self.operand(frame, rv["a"])
            op = rv["op"]
            if op == "Not":
                if isinstance(a, bool):
                    return not a
                raise Inconclusive("Not on %r" % (a,), self.where())
            if op == "PtrMetadata":
                t = self.load(a) if isinstance(a, (Ptr, BoxV)) else a
                if isinstance(t, ListV):
                    return len(t.items)
                if isinstance(t, StrV):
                    return len(t.s.encode())
                if isinstance(t, Tok):
                    return self.models.tok_len(self, t)
                raise Inconclusive("PtrMetadata of %r" % (t,), self.where())
            raise Inconclusive("unary operator %s" % op, self.where())
        if k == "cast":
            return self.cast(rv["kind"], self.operand(frame, rv["op"]), rv["from"], rv["to"])
        if k == "repeat":
            import re as _re
            m = _re.search(r"(\d+)_usize|^(\d+)$|: usize = (\d+)|Leaf\(0x([0-9a-f]+)\)", str(rv.get("n", "")))
            if not m:
                raise Inconclusive("array repeat count %r" % (rv.get("n"),), self.where())
            n = int(m.group(4), 16) if m.group(4) else int(next(g for g in m.groups()[:3] if g))
            if n > 4096:
                raise Inconclusive("array repeat of %d elements" % n, self.where())
            v = self.operand(frame, rv["op"])
            return ListV([v] * n)
        raise Inconclusive("rvalue %s" % k, self.where())

    # ------------------------------------------------------------------ calls
    def call_value(self, f, args, info=None):
        """call a function-like value (fn item or closure) with a list of argument values"""
        if isinstance(f, (Ptr, BoxV)):
            f = self.load(f)
        if isinstance(f, FnV):
            return self.call_fn(f.info, args)
        if isinstance(f, Clo):
            return self.call_closure(f, args)
        raise Inconclusive("call of %r" % (f,), self.where())

    def call_closure(self, clo, args, env_ptr=None):
        body = self.prog.body(clo.key)
        t1 = self.prog.types[body["locals"][1]]
        if t1.get("k") == "ref":
            if env_ptr is None:
                env_ptr = Ptr(Cell(clo), ())
            return self.call_body(clo.key, [env_ptr] + list(args))
        return self.call_body(clo.key, [clo] + list(args))

    def resolve_ty(self, tix):
        """type index with a type parameter of the generic body being interpreted replaced by the caller's argument"""
        t = self.prog.types[tix]
        if t.get("k") == "param":
            for sub in reversed(getattr(self, "substs", [])[-1:]):
                if sub and t.get("name") in sub:
                    return sub[t["name"]]
        return tix

    def call_fn(self, info, args):
        if info.get("targs") and getattr(self, "substs", None) and self.substs[-1]:
            rt = [self.resolve_ty(t) for t in info["targs"]]
            if rt != info["targs"]:
                info = dict(info, targs=rt)
        res = info.get("resolved")
        key = res["def"] if res else info["def"]
        ov = self.overrides.get(key)
        if ov is not None:
            self.stubbed.add(key)
            return ov(self, args, info)
        if "ctor" in info:
            return Adt(info["ctor"]["adt"], info["ctor"]["variant"], args)
        if res is not None and res["local"] and self.prog.has_body(key):
            b = self.prog.body(key)
            if b["def_kind"] == "Closure":
                # Fn*/call* on a closure value: args = (closure or &closure, (tupled args))
                f = args[0]
                env_ptr = f if isinstance(f, Ptr) else None
                clo = self.load(f) if isinstance(f, Ptr) else f
                return self.call_closure(clo, list(args[1]), env_ptr)
            return self.call_body(key, args, targs=info.get("targs"))
        if not res and info.get("local") and self.prog.has_body(info["def"]):
            return self.call_body(info["def"], args, targs=info.get("targs"))
        return self.models.call(self, info, args)

    def call_key(self, key, args):
        """call a crate body by key, honouring the overrides of the analysis"""
        ov = self.overrides.get(key)
        if ov is not None:
            self.stubbed.add(key)
            return ov(self, args, {"def": key, "local": True})
        return self.call_body(key, args)

    def call_body(self, key, args, targs=None):
        if not self.prog.has_body(key):
            raise Inconclusive("function %s not found in the crate (renamed or removed?)" % key, self.where())
        body = self.prog.body(key)
        sub = None
        names = body.get("type_params")
        if names and targs and len(names) == len(targs):
            sub = dict(zip(names, targs))
        if not hasattr(self, "substs"):
            self.substs = []
        if sub is None and body["def_kind"] == "Closure" and self.substs:
            sub = self.substs[-1]          # a closure sees the type parameters of the function it is written in
        if self.depth > 60:
            raise Inconclusive("call depth exceeded (recursion?) in %s" % key)
        frame = [Cell() for _ in body["locals"]]
        if "spread_arg" in body:
            raise Inconclusive("spread_arg body %s" % key)
        if len(args) != body["arg_count"]:
            raise Inconclusive("arity mismatch calling %s: %d vs %d" % (key, len(args), body["arg_count"]), self.where())
        for i, a in enumerate(args):
            frame[i + 1].v = a
        self.calls.append(key)
        self.depth += 1
        self.substs.append(sub)
        self.stack.append([key, 0, body["span"]])
        try:
            return self.run(key, body, frame)
        finally:
            self.stack.pop()
            self.substs.pop()
            self.depth -= 1

    def run(self, key, body, frame):
        blocks = body["blocks"]
        bb = 0
        top = self.stack[-1]
        while True:
            blk = blocks[bb]
            top[1] = bb
            for st in blk["stmts"]:
                self.steps += 1
                top[2] = st["span"]
                k = st["k"]
                if k == "assign":
                    v = self.rvalue(frame, st["rv"])
                    pl = st["place"]
                    if pl["l"] == 0:
                        self.ret_span[key] = st["span"]
                    if not pl["p"]:
                        frame[pl["l"]].v = v
                    else:
                        cell, path = self.lvalue(frame, pl)
                        self.write(cell, path, v)
                elif k == "setdiscr":
                    raise Inconclusive("SetDiscriminant", self.where())
                elif k == "intrinsic":
                    pass
                else:
                    raise Inconclusive("statement %s" % st.get("s", k), self.where())
            if self.steps > self.max_steps:
                raise Inconclusive("step budget exceeded (unbounded loop?) in %s" % key, self.where())
            t = blk["term"]
            top[2] = t["span"]
            k = t["k"]
            self.steps += 1
            if k == "goto":
                bb = t["target"]
            elif k == "switch":
                d = self.operand(frame, t["discr"])
                if isinstance(d, Tok):
                    d = self.models.tok_switch(self, d, t)
                d = self.as_int(d)
                bits, _ = self.mask_bits(t["ty"])
                dm = d & ((1 << bits) - 1)
                nxt = t["otherwise"]
                for val, tgt in t["targets"]:
                    if int(val) == dm:
                        nxt = tgt
                        break
                self.branches.append((key, bb, nxt))
                bb = nxt
            elif k == "call":
                fop = t["func"]
                args = [self.operand(frame, a) for a in t["args"]]
                if "const" in fop and fop["const"]["kind"] == "fn":
                    rv = self.call_fn(fop["const"], args)
                else:
                    rv = self.call_value(self.operand(frame, fop), args)
                if t["target"] is None:
                    raise Inconclusive("diverging call returned: %s" % fop.get("const", {}).get("s"), self.where())
                pl = t["dest"]
                if pl["l"] == 0:
                    self.ret_span[key] = t["span"]
                cell, path = self.lvalue(frame, pl)
                self.write(cell, path, rv)
                bb = t["target"]
            elif k == "return":
                v = frame[0].v
                if v is UNINIT:
                    v = UNIT
                return v
            elif k == "drop":
                bb = t["target"]
            elif k == "assert":
                c = self.operand(frame, t["cond"])
                if not isinstance(c, bool):
                    raise Inconclusive("assert on %r" % (c,), self.where())
                if c != t["expected"]:
                    raise Panic("assert:" + t["msg"], self.where(), t["msg_full"])
                bb = t["target"]
            elif k == "unreachable":
                raise Inconclusive("MIR Unreachable executed", self.where())
            else:
                raise Inconclusive("terminator %s" % k, self.where())


def show(interp, v, depth=0):
    """Canonical printable form of a value (pointers are followed)."""
    if depth > 12:
        return "…"
    if isinstance(v, bool):
        return "true" if v else "false"
    if isinstance(v, int):
        return str(v)
    if isinstance(v, Tok):
        return repr(v)
    if isinstance(v, Adt):
        try:
            vn = interp.prog.variant_name(v.name, v.variant)
        except Exception:
            vn = "#%d" % v.variant
        short = v.name.split("::")[-1]
        ad = interp.prog.adts.get(v.name)
        if ad and ad["kind"] == "struct":
            names = ad["variants"][0]["fields"]
            return "%s{%s}" % (short, ",".join("%s:%s" % (n, show(interp, f, depth + 1)) for n, f in zip(names, v.fields)))
        if not v.fields:
            return vn
        return "%s(%s)" % (vn, ",".join(show(interp, f, depth + 1) for f in v.fields))
    if isinstance(v, tuple):
        return "(" + ",".join(show(interp, f, depth + 1) for f in v) + ")"
    if isinstance(v, ListV):
        return "[" + ",".join(show(interp, f, depth + 1) for f in v.items) + "]"
    if isinstance(v, (Ptr, BoxV)):
        try:
            return show(interp, interp.load(v), depth + 1)
        except Exception:
            return "<dangling>"
    if isinstance(v, StrV):
        return repr(v.s)
    if isinstance(v, Clo):
        return "closure(%s)" % v.key
    if isinstance(v, FnV):
        return "fn(%s)" % v.key()
    if v is UNINIT:
        return "UNINIT"
    return repr(v)
