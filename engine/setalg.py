"""E-SET: range-level operations over interval tokens denoting elements of a free Boolean algebra.

A `BoundSet` is abstracted to a token whose denotation is a bitmask over the 2^n *element types*
of n generators (which of the input intervals contain a hypothetical version). A world selects
which element types are inhabited. `BoundSet::{intersect, difference, allows_any, allows_all,
satisfies}` become exact bit operations (their correctness on real intervals is what the level-1
tables of intervals.py establish), and the loops of `Range::*` are interpreted from MIR with
lists of statically known length.
"""
import itertools

from .interp import (Adt, Cell, Ctx, Inconclusive, Interp, ListV, NONE, Panic, Policy, Ptr, Tok, explore, is_some, some)
from .report import path_sig

RANGE = "range::Range"


def stok(name, den):
    return Tok("S", name, den, dom="set")


class SetWorld(object):
    def __init__(self, n, inhabited):
        self.n = n
        self.inh = inhabited
        self.fresh = 0

    def gen(self, i):
        m = 0
        for t in range(1 << self.n):
            if t >> i & 1:
                m |= 1 << t
        return m


def overrides(world, ctx):
    def tok(interp, p):
        v = interp.strip(p)
        if not (isinstance(v, Tok) and v.kind == "S"):
            raise Inconclusive("expected interval token, got %r" % (v,), interp.where())
        return v

    def fresh(den):
        world.fresh += 1
        return stok("r%d" % world.fresh, den)

    def o_intersect(interp, args, info):
        s, t = tok(interp, args[0]), tok(interp, args[1])
        den = s.val & t.val & world.inh
        return some(fresh(den)) if den else NONE

    def _wrap_pieces(interp, lst):
        """the answer in the shape the crate's BoundSet::difference has: Option<Vec<_>> (None = nothing left) or Vec<_>"""
        key = "range::BoundSet::difference"
        plain = False
        if interp.prog.has_body(key):
            plain = interp.prog.ty_str(interp.prog.body(key)["locals"][0]).startswith("std::vec::Vec<")
        if plain:
            return lst if lst is not None else ListV(())
        return some(lst) if lst is not None else NONE

    def o_difference(interp, args, info):
        s, t = tok(interp, args[0]), tok(interp, args[1])
        den = s.val & ~t.val & world.inh
        if not den:
            return _wrap_pieces(interp, None)
        bits = [i for i in range(den.bit_length()) if den >> i & 1]
        # one piece, or any split into two non-empty disjoint pieces (first piece holds the lowest bit)
        nsplit = (1 << (len(bits) - 1)) - 1
        d = ctx.choose("difference-split", 1 + nsplit)
        if d == 0:
            return _wrap_pieces(interp, ListV([fresh(den)]))
        p1 = 1 << bits[0]
        rest = bits[1:]
        # d in 1..nsplit selects a proper subset of `rest` to join piece 1 (all but "everything")
        sel = d - 1
        for j, b in enumerate(rest):
            if sel >> j & 1:
                p1 |= 1 << b
        p2 = den & ~p1
        return _wrap_pieces(interp, ListV([fresh(p1), fresh(p2)]))

    def o_allows_any(interp, args, info):
        s, t = tok(interp, args[0]), tok(interp, args[1])
        return bool(s.val & t.val & world.inh)

    def o_allows_all(interp, args, info):
        s, t = tok(interp, args[0]), tok(interp, args[1])
        return not (t.val & ~s.val & world.inh)

    def o_satisfies(interp, args, info):
        s = tok(interp, args[0])
        v = interp.strip(args[1])
        if not (isinstance(v, Tok) and v.kind == "V" and v.extra and "etype" in v.extra):
            raise Inconclusive("satisfies on %r" % (v,), interp.where())
        return bool(s.val >> v.extra["etype"] & 1)

    def o_clone(interp, args, info):
        return tok(interp, args[0])

    def o_eq(interp, args, info):
        """structural equality of two intervals: the same token is equal; different sets (or different gate tags) are
        not; two distinct tokens denoting the same set may or may not be the same interval (both explored)"""
        s, t = tok(interp, args[0]), tok(interp, args[1])
        if s.name == t.name:
            return True
        if (s.val & world.inh) != (t.val & world.inh):
            return False
        gs, gt = (s.extra or {}).get("gates"), (t.extra or {}).get("gates")
        if gs is not None and gt is not None and gs != gt:
            return False
        return ctx.choose("interval-eq", 2) == 0

    return {
        "<range::BoundSet as std::clone::Clone>::clone": o_clone,
        "<range::BoundSet as std::cmp::PartialEq>::eq": o_eq,
        "range::BoundSet::intersect": o_intersect,
        "range::BoundSet::difference": o_difference,
        "range::BoundSet::allows_any": o_allows_any,
        "range::BoundSet::allows_all": o_allows_all,
        "range::BoundSet::satisfies": o_satisfies,
    }


def mk_range(toks):
    return Adt(RANGE, 0, (ListV(toks),))


def den_of_range(interp, world, v):
    v = interp.strip(v)
    if not (isinstance(v, Adt) and v.name == RANGE):
        raise Inconclusive("expected Range, got %r" % (v,))
    lst = interp.strip(v.fields[0])
    if not isinstance(lst, ListV):
        raise Inconclusive("Range holds %r" % (lst,))
    den = 0
    items = []
    for x in lst.items:
        x = interp.strip(x)
        if not (isinstance(x, Tok) and x.kind == "S"):
            raise Inconclusive("Range element %r" % (x,))
        den |= x.val
        items.append(x)
    return den & world.inh, items


def worlds(n, require_nonempty=True):
    """all inhabited-sets over the 2^n - 1 element types that lie in at least one generator"""
    types = list(range(1, 1 << n))
    w0 = SetWorld(n, 0)
    gens = [w0.gen(i) for i in range(n)]
    for bits in range(1 << len(types)):
        inh = 0
        for j, t in enumerate(types):
            if bits >> j & 1:
                inh |= 1 << t
        if require_nonempty and any(not (g & inh) for g in gens):
            continue
        yield inh


def run_case(prog, op, na, nb, inh, prefix=()):
    """interpret Range::<op>(A, B) with |A| = na, |B| = nb in the world `inh`; one decision path"""
    n = na + nb
    world = SetWorld(n, inh)
    ctx = Ctx(prefix)
    it = Interp(prog, Policy(), ctx=ctx, overrides=overrides(world, ctx))
    A = mk_range([stok("a%d" % i, world.gen(i)) for i in range(na)])
    B = mk_range([stok("b%d" % i, world.gen(na + i)) for i in range(nb)])
    dA = 0
    for i in range(na):
        dA |= world.gen(i)
    dB = 0
    for i in range(nb):
        dB |= world.gen(na + i)
    dA &= inh
    dB &= inh
    key = "range::Range::" + op
    res = {"op": op, "na": na, "nb": nb, "inh": inh, "problems": []}
    try:
        val = it.call_body(key, [Ptr(Cell(A)), Ptr(Cell(B))])
    except Panic as p:
        res["problems"].append(("panic", str(p)))
        res["ctx"] = ctx
        res["sig"] = path_sig(it)
        return res
    except Inconclusive as e:
        res["inconclusive"] = (e.reason, e.where)
        res["ctx"] = ctx
        return res
    res["ctx"] = ctx
    res["sig"] = path_sig(it)
    sp = it.ret_span.get(key)
    res["ret"] = prog.span_str(sp) if sp else None
    try:
        if op in ("intersect", "difference"):
            exp = (dA & dB) if op == "intersect" else (dA & ~dB & inh)
            res["expected"] = exp
            if not is_some(val):
                res["actual"] = None
                if exp:
                    res["problems"].append(("none-but-nonempty", "returned None, expected denotation %s" % bin(exp)))
            else:
                den, items = den_of_range(it, world, val.fields[0])
                res["actual"] = den
                if not items:
                    res["problems"].append(("inv-range", "returned a Range without alternatives"))
                if any(not (x.val & inh) for x in items):
                    res["problems"].append(("inv-ne", "result holds an empty alternative"))
                if den != exp:
                    extra, missing = den & ~exp, exp & ~den
                    res["problems"].append(("wrong-set", "admits extra element types %s, misses %s" % (bin(extra), bin(missing))))
        elif op == "allows_any":
            exp = bool(dA & dB)
            res["expected"], res["actual"] = exp, val
            if val != exp:
                res["problems"].append(("overlap", "answered %s" % val))
        elif op == "allows_all":
            res["actual"] = val
            contained = not (dB & ~dA)
            res["expected"] = "true => contained (contained=%s)" % contained
            if nb == 1 and val is True and not contained:
                res["problems"].append(("containment", "answered true although B is not inside A"))
    except Inconclusive as e:
        res["inconclusive"] = (e.reason, e.where)
    return res


def explore_case(prog, op, na, nb, inh):
    """all decision paths (difference splits) of one case"""
    out = []
    stack = [[]]
    while stack:
        prefix = stack.pop()
        r = run_case(prog, op, na, nb, inh, prefix)
        out.append(r)
        ctx = r["ctx"]
        for i in range(len(ctx.decisions) - 1, len(prefix) - 1, -1):
            for alt in range(ctx.arity[i] - 1, 0, -1):
                stack.append(ctx.decisions[:i] + [alt])
        if len(out) > 5000:
            raise Inconclusive("too many decision paths in %s" % op)
    return out


def run_satisfies(prog, n, inh):
    """Range::satisfies over a list of n interval tokens, one probe version per element type"""
    out = []
    for et in range(1 << n):
        if et and not (inh >> et & 1):
            continue
        world = SetWorld(n, inh)
        ctx = Ctx()
        it = Interp(prog, Policy(), ctx=ctx, overrides=overrides(world, ctx))
        R = mk_range([stok("a%d" % i, world.gen(i)) for i in range(n)])
        probe = Tok("V", "v", 0, dom="version", extra={"etype": et})
        res = {"op": "satisfies", "n": n, "inh": inh, "etype": et, "problems": []}
        try:
            val = it.call_body("range::Range::satisfies", [Ptr(Cell(R)), Ptr(Cell(probe))])
            exp = et != 0
            res["expected"], res["actual"] = exp, val
            res["sig"] = path_sig(it)
            if val != exp:
                res["problems"].append(("or-of-alternatives", "answered %s for a version in alternatives %s" % (val, bin(et))))
        except Panic as p:
            res["problems"].append(("panic", str(p)))
        except Inconclusive as e:
            res["inconclusive"] = (e.reason, e.where)
        out.append(res)
    return out


def _worker(args):
    op, na, nb, inhs = args
    prog = _STATE["prog"]
    out = []
    for inh in inhs:
        for r in explore_case(prog, op, na, nb, inh):
            r.pop("ctx", None)
            out.append(r)
    return out


_STATE = {}


def table(prog, op, sizes, procs=None):
    import multiprocessing as mp
    import os
    _STATE["prog"] = prog
    jobs = []
    for (na, nb) in sizes:
        ws = list(worlds(na + nb))
        step = max(1, len(ws) // 64)
        for i in range(0, len(ws), step):
            jobs.append((op, na, nb, ws[i:i + step]))
    procs = procs or min(16, os.cpu_count() or 1)
    if procs <= 1 or len(jobs) < 4:
        res = [_worker(j) for j in jobs]
    else:
        ctx = mp.get_context("fork")
        with ctx.Pool(procs) as pool:
            res = pool.map(_worker, jobs)
    return [r for part in res for r in part]
