"""C11: `Range::min_version` interpreted on structured abstract ranges (difference-bound worlds).

Bounds are `Version` aggregates whose numeric fields are integer tokens (same-field comparisons, `+ 1`
and comparisons of incremented tokens are admitted: the worlds enumerate small integers, which realise
every ordering of the terms x, x+1) and whose prerelease lists are lists of numeric identifier tokens.
The reference is the property's own statement evaluated with the checker's model of satisfaction
(cuts + prerelease gate) over a probe universe of small versions: the answer must satisfy the range,
no probe below it may satisfy it, and `None` requires that no probe satisfies it. Probes are a bounded
universe: a violation found is genuine, absence of one is evidence for the enumerated ranges only.
"""
import itertools

from .interp import Adt, BoxV, Cell, Inconclusive, Interp, ListV, Panic, Policy, Ptr, Tok, is_some
from . import intervals
from .report import path_sig
from .versions import FIELDS, ref_cmp

IDENT = "Identifier"


class MinPolicy(Policy):
    def __init__(self):
        Policy.__init__(self)
        self.allow_offset_cmp = True


def mk_version(prog, name, v):
    """v = (major, minor, patch, pre tuple)"""
    names = prog.field_names("Version")
    NUM = prog.variant_index(IDENT, "Numeric")
    f = {}
    for fn, x in zip(FIELDS, v[:3]):
        f[fn] = Tok("I", "%s.%s" % (name, fn), x, dom=fn)
    f["pre_release"] = ListV([Adt(IDENT, NUM, (Tok("I", "%s.pre%d" % (name, i), x, dom="ident"),)) for i, x in enumerate(v[3])])
    f["build"] = ListV(())
    return Adt("Version", 0, [f[n] for n in names])


def concretise(prog, it, v):
    v = it.strip(v)
    if not (isinstance(v, Adt) and v.name == "Version"):
        raise Inconclusive("min_version returned %r" % (v,))
    f = dict(zip(prog.field_names("Version"), v.fields))

    def num(x):
        if isinstance(x, Tok) and x.kind == "I":
            return x.val + x.off
        if isinstance(x, int) and not isinstance(x, bool):
            return x
        raise Inconclusive("component %r" % (x,))
    pre = it.strip(f["pre_release"])
    if not isinstance(pre, ListV):
        raise Inconclusive("prerelease %r" % (pre,))
    ids = []
    for i in pre.items:
        i = it.strip(i)
        if isinstance(i, Adt) and i.name == IDENT and prog.variant_name(IDENT, i.variant) == "Numeric":
            ids.append(num(i.fields[0]))
        else:
            raise Inconclusive("identifier %r" % (i,))
    return (num(f["major"]), num(f["minor"]), num(f["patch"]), tuple(ids))


def vkey(v):
    return ({"major": v[0], "minor": v[1], "patch": v[2]}, v[3])


def vcmp(a, b):
    return ref_cmp(vkey(a), vkey(b))


def vstr(v):
    return "%d.%d.%d%s" % (v[0], v[1], v[2], ("-" + ".".join(map(str, v[3]))) if v[3] else "")


def sat_alt(alt, v):
    """reference satisfaction of one alternative ((lo kind, lo ver), (up kind, up ver))"""
    (lk, lv), (uk, uv) = alt
    if lk != "U":
        c = vcmp(lv, v)
        if not (c < 0 or (c == 0 and lk == "I")):
            return False
    if uk != "U":
        c = vcmp(v, uv)
        if not (c < 0 or (c == 0 and uk == "I")):
            return False
    if v[3]:
        for k, b in ((lk, lv), (uk, uv)):
            if k != "U" and b[3] and b[:3] == v[:3]:
                return True
        return False
    return True


def sat_range(alts, v):
    return any(sat_alt(a, v) for a in alts)


def valid_alt(alt):
    (lk, lv), (uk, uv) = alt
    if lk == "U" or uk == "U":
        return True
    c = vcmp(lv, uv)
    if c < 0:
        return True
    return c == 0 and lk == "I" and uk == "I"


def alt_str(alt):
    (lk, lv), (uk, uv) = alt
    parts = []
    if lk != "U":
        parts.append((">=" if lk == "I" else ">") + vstr(lv))
    if uk != "U":
        parts.append(("<=" if uk == "I" else "<") + vstr(uv))
    return " ".join(parts) or "*"


def build_range(prog, env, alts):
    sets = []
    for i, ((lk, lv), (uk, uv)) in enumerate(alts):
        lo = env.bound("L", lk, mk_version(prog, "a%d.lo" % i, lv) if lk != "U" else None)
        up = env.bound("U", uk, mk_version(prog, "a%d.up" % i, uv) if uk != "U" else None)
        sets.append(env.bset(lo, up))
    return Adt("range::Range", 0, (ListV(sets),))


def bound_universe(small):
    if small:
        vs = [(0, 0, p, pre) for p in (0, 1) for pre in ((), (0,), (1,))]
    else:
        # includes `v` together with its immediate successor `v.0` (prerelease lists (0,) and (0, 0))
        vs = [(M, 0, p, pre) for M in (0, 1) for p in (0, 1, 2) for pre in ((), (0,), (0, 0), (1,))]
    return vs


def probe_universe():
    out = []
    for M in (0, 1, 2):
        for m in (0, 1):
            for p in (0, 1, 2, 3):
                for pre in ((), (0,), (0, 0), (1,), (1, 0), (2,)):
                    out.append((M, m, p, pre))
    return out


def alternatives(universe):
    alts = []
    for lk in "UIE":
        for uk in "UIE":
            for lv in ([None] if lk == "U" else universe):
                for uv in ([None] if uk == "U" else universe):
                    a = ((lk, lv), (uk, uv))
                    if valid_alt(a):
                        alts.append(a)
    return alts


def classify(alts, res):
    """stable description of the case for violation keys: shape of the lowest lower bound"""
    def lower_rank(a):
        (lk, lv), _ = a
        if lk == "U":
            return (0, None)
        return (1, lv, 0 if lk == "I" else 1)
    import functools

    def cmp(a, b):
        ra, rb = lower_rank(a), lower_rank(b)
        if ra[0] != rb[0]:
            return ra[0] - rb[0]
        if ra[0] == 0:
            return 0
        c = vcmp(ra[1], rb[1])
        return c if c else ra[2] - rb[2]
    lowest = sorted(alts, key=functools.cmp_to_key(cmp))[0]
    (lk, lv), (uk, uv) = lowest
    lo = {"U": "unbounded", "I": "Including", "E": "Excluding"}[lk]
    if lk != "U":
        lo += "(prerelease)" if lv[3] else "(release)"
    up = {"U": "unbounded", "I": "Including", "E": "Excluding"}[uk]
    if uk != "U":
        up += "(prerelease)" if uv[3] else "(release)"
    return "lowest lower bound %s, its upper bound %s" % (lo, up)


def eval_case(prog, env, alts, probes):
    it = Interp(prog, MinPolicy(), overrides={})
    R = build_range(prog, env, alts)
    out = {"range": " || ".join(alt_str(a) for a in alts), "problems": [], "class": None}
    try:
        r = it.call_body("range::Range::min_version", [Ptr(Cell(R))])
    except Panic as p:
        out["problems"].append(("panic", str(p)))
        out["sig"] = path_sig(it)
        return out
    except Inconclusive as e:
        out["inconclusive"] = (e.reason, e.where)
        return out
    out["sig"] = path_sig(it)
    sp = it.ret_span.get("range::Range::min_version")
    out["ret"] = prog.span_str(sp) if sp else None
    try:
        m = concretise(prog, it, r.fields[0]) if is_some(r) else None
    except Inconclusive as e:
        out["inconclusive"] = (e.reason, e.where)
        return out
    out["result"] = vstr(m) if m else "None"
    cls = classify(alts, m)
    out["class"] = cls
    if m is not None:
        if not sat_range(alts, m):
            out["problems"].append(("answer does not satisfy the range", "min_version = %s" % vstr(m)))
        else:
            lower = [u for u in probes if vcmp(u, m) < 0 and sat_range(alts, u)]
            if lower:
                best = sorted(lower, key=lambda u: vkey(u)[0]["major"])[0]
                out["problems"].append(("a lower version satisfies the range", "min_version = %s but %s satisfies" % (vstr(m), vstr(best))))
    else:
        some_ = [u for u in probes if sat_range(alts, u)]
        if some_:
            out["problems"].append(("None although a version satisfies the range", "%s satisfies" % vstr(some_[0])))
    return out


_STATE = {}


def _worker(chunk):
    prog, env, probes = _STATE["prog"], _STATE["env"], _STATE["probes"]
    return [eval_case(prog, env, alts, probes) for alts in chunk]


def table(prog, thorough=False):
    import multiprocessing as mp
    import os
    env = intervals.Env(prog)
    probes = probe_universe()
    single = [[a] for a in alternatives(bound_universe(False))]
    small = alternatives(bound_universe(True))
    if not thorough:
        # two alternatives: every pair over the small universe with at most one two-sided alternative
        pairs = [[a, b] for a in small for b in small if a != b and (a[0][0] == "U" or a[1][0] == "U" or b[0][0] == "U" or b[1][0] == "U")]
        pairs = pairs[::3]
    else:
        pairs = [[a, b] for a in small for b in small if a != b]
    cases = single + pairs
    _STATE.update(prog=prog, env=env, probes=probes)
    procs = min(16, os.cpu_count() or 1)
    n = max(1, len(cases) // (procs * 8))
    chunks = [cases[i:i + n] for i in range(0, len(cases), n)]
    ctx = mp.get_context("fork")
    with ctx.Pool(procs) as pool:
        res = pool.map(_worker, chunks)
    return [r for part in res for r in part], len(single), len(pairs)
