"""Models of winnow 0.6 combinators as *parser-tree constructors*.

Interpreting a grammar function of the crate with these models yields the combinator tree it
builds (resolved callees, evaluated literals, closures as values) — the extraction step of E-GRAM.
What `parse_next` does with a tree is decided by the analysis through `interp.policy.parse_next`.
"""
from .interp import Adt, Clo, FnV, Inconclusive, Ptr, StrV, Tok, BoxV
from .models import MODELS, model


class P(object):
    """parser tree node"""
    __slots__ = ("kind", "args", "extra")

    def __init__(self, kind, args=(), extra=None):
        self.kind = kind
        self.args = list(args)
        self.extra = extra

    def __repr__(self):
        return show_p(self)


def show_p(p):
    if p.kind == "lit":
        return "literal(%r)" % p.extra
    if p.kind == "ref":
        return p.extra
    if p.kind == "prim":
        return p.extra
    if p.kind in ("map", "try_map"):
        return "%s(%s, %s)" % (p.kind, show_p(p.args[0]), p.extra.key if isinstance(p.extra, Clo) else p.extra)
    if p.kind == "context":
        return "context(%s, %r)" % (show_p(p.args[0]), p.extra)
    if p.kind in ("separated", "repeat_till", "take_while"):
        return "%s(%s%s)" % (p.kind, range_str(p.extra), "".join(", " + (show_p(a) if isinstance(a, P) else str(a)) for a in p.args))
    return "%s(%s)" % (p.kind, ", ".join(show_p(a) for a in p.args))


def range_str(r):
    if r is None:
        return "?"
    lo, hi = r
    return "%d..%s" % (lo, "" if hi is None else hi)


PRIMS = {
    "winnow::ascii::space0": "space0", "winnow::ascii::space1": "space1", "winnow::ascii::digit1": "digit1",
    "winnow::ascii::digit0": "digit0", "winnow::ascii::alphanumeric1": "alphanumeric1",
    "winnow::ascii::alpha1": "alpha1", "winnow::token::any": "any", "winnow::combinator::eof": "eof",
    "winnow::combinator::rest": "rest", "winnow::ascii::multispace0": "multispace0",
    "winnow::ascii::multispace1": "multispace1",
}


def to_parser(interp, v):
    """coerce a value used in parser position into a tree"""
    if isinstance(v, (Ptr, BoxV)):
        v = interp.load(v)
    if isinstance(v, P):
        return v
    if isinstance(v, FnV):
        k = v.key()
        if k in PRIMS:
            return P("prim", extra=PRIMS[k])
        if v.info.get("local") or (v.info.get("resolved") or {}).get("local"):
            return P("ref", extra=k)
        raise Inconclusive("function %s used as a parser" % k, interp.where())
    if isinstance(v, tuple):
        return P("seq", [to_parser(interp, x) for x in v])
    if isinstance(v, StrV):
        return P("lit", extra=v.s)
    if isinstance(v, int):
        return P("lit", extra=chr(v))
    if isinstance(v, Clo):
        return P("closure", extra=v)
    raise Inconclusive("value %r used as a parser" % (v,), interp.where())


def to_range(interp, v):
    if isinstance(v, Adt):
        n = v.name
        if n == "std::ops::RangeFrom":
            return (v.fields[0], None)
        if n == "std::ops::RangeFull":
            return (0, None)
        if n == "std::ops::Range":
            return (v.fields[0], v.fields[1] - 1)
        if n == "std::ops::RangeInclusive":
            return (v.fields[0], v.fields[1])
        if n == "std::ops::RangeTo":
            return (0, v.fields[0] - 1)
        if n == "std::ops::RangeToInclusive":
            return (0, v.fields[0])
    if isinstance(v, int):
        return (v, v)
    raise Inconclusive("repetition range %r" % (v,), interp.where())


@model("winnow::token::literal")
def w_literal(interp, args, info):
    v = args[0]
    if isinstance(v, StrV):
        return P("lit", extra=v.s)
    if isinstance(v, int):
        return P("lit", extra=chr(v))
    raise Inconclusive("literal(%r)" % (v,), interp.where())


@model("winnow::combinator::alt")
def w_alt(interp, args, info):
    v = args[0]
    if not isinstance(v, tuple):
        raise Inconclusive("alt(%r)" % (v,), interp.where())
    return P("alt", [to_parser(interp, x) for x in v])


@model("winnow::combinator::opt")
def w_opt(interp, args, info):
    return P("opt", [to_parser(interp, args[0])])


@model("winnow::combinator::peek")
def w_peek(interp, args, info):
    return P("peek", [to_parser(interp, args[0])])


@model("winnow::combinator::not")
def w_not(interp, args, info):
    return P("not", [to_parser(interp, args[0])])


@model("winnow::combinator::preceded")
def w_preceded(interp, args, info):
    return P("preceded", [to_parser(interp, args[0]), to_parser(interp, args[1])])


@model("winnow::combinator::terminated")
def w_terminated(interp, args, info):
    return P("terminated", [to_parser(interp, args[0]), to_parser(interp, args[1])])


@model("winnow::combinator::delimited")
def w_delimited(interp, args, info):
    return P("delimited", [to_parser(interp, a) for a in args[:3]])


@model("winnow::combinator::separated")
def w_separated(interp, args, info):
    return P("separated", [to_parser(interp, args[1]), to_parser(interp, args[2])], extra=to_range(interp, args[0]))


@model("winnow::combinator::repeat")
def w_repeat(interp, args, info):
    return P("repeat", [to_parser(interp, args[1])], extra=to_range(interp, args[0]))


@model("winnow::combinator::repeat_till")
def w_repeat_till(interp, args, info):
    return P("repeat_till", [to_parser(interp, args[1]), to_parser(interp, args[2])], extra=to_range(interp, args[0]))


class CharSet(object):
    """a set of characters given literally to take_while / one_of (tuple, array, single char, range)"""
    __slots__ = ("chars", "key")

    def __init__(self, chars):
        self.chars = frozenset(chars)
        self.key = "charset:" + ",".join("%x" % c for c in sorted(self.chars))

    def __repr__(self):
        return "{%s}" % "".join(chr(c) if 0x20 < c < 0x7F else "\\x%02x" % c for c in sorted(self.chars))


class FnClass(object):
    """a named crate function `fn(char) -> bool` used as a character predicate"""
    __slots__ = ("key",)

    def __init__(self, key):
        self.key = key

    def __repr__(self):
        return "Fn(%s)" % self.key


def to_class(interp, v):
    """closure (predicate), named predicate function, or literal character set"""
    from .interp import ListV
    if isinstance(v, (Ptr, BoxV)):
        v = interp.load(v)
    if isinstance(v, Clo):
        return v
    if isinstance(v, FnV) and (v.info.get("local") or (v.info.get("resolved") or {}).get("local")) and interp.prog.has_body(v.key()):
        return FnClass(v.key())
    def flatten(x, depth=0):
        """characters of a literal set: a char, a range of chars, or a tuple / array of those"""
        if isinstance(x, (Ptr, BoxV)):
            x = interp.load(x)
        if isinstance(x, int) and not isinstance(x, bool):
            return [x]
        if isinstance(x, Adt) and x.name in ("std::ops::RangeInclusive", "std::ops::Range") and all(isinstance(y, int) for y in x.fields[:2]):
            hi = x.fields[1] + (1 if x.name == "std::ops::RangeInclusive" else 0)
            if hi - x.fields[0] > 0x200:
                raise Inconclusive("character range too large for the class abstraction", interp.where())
            return list(range(x.fields[0], hi))
        if isinstance(x, (tuple, ListV)) and depth < 3:
            out = []
            for y in (x if isinstance(x, tuple) else x.items):
                r = flatten(y, depth + 1)
                if r is None:
                    return None
                out += r
            return out
        return None
    chars = flatten(v)
    if chars is not None:
        return CharSet(chars)
    raise Inconclusive("character class %r" % (v,), interp.where())


@model("winnow::token::take_while")
def w_take_while(interp, args, info):
    return P("take_while", [to_class(interp, args[1])], extra=to_range(interp, args[0]))


@model("winnow::token::take_till")
def w_take_till(interp, args, info):
    return P("take_till", [args[1]], extra=to_range(interp, args[0]))


@model("winnow::token::one_of")
def w_one_of(interp, args, info):
    return P("take_while", [to_class(interp, args[0])], extra=(1, 1))


@model("winnow::Parser::map")
def w_map(interp, args, info):
    return P("map", [to_parser(interp, args[0])], extra=args[1])


@model("winnow::Parser::try_map")
def w_try_map(interp, args, info):
    return P("try_map", [to_parser(interp, args[0])], extra=args[1])


@model("winnow::Parser::verify")
def w_verify(interp, args, info):
    return P("verify", [to_parser(interp, args[0])], extra=args[1])


@model("winnow::Parser::verify_map")
def w_verify_map(interp, args, info):
    return P("verify_map", [to_parser(interp, args[0])], extra=args[1])


@model("winnow::Parser::value")
def w_value(interp, args, info):
    return P("value", [to_parser(interp, args[0])], extra=args[1])


@model("winnow::Parser::void")
def w_void(interp, args, info):
    return P("void", [to_parser(interp, args[0])])


@model("winnow::Parser::context")
def w_context(interp, args, info):
    c = args[1]
    return P("context", [to_parser(interp, args[0])], extra=c.s if isinstance(c, StrV) else repr(c))


@model("winnow::Parser::take", "winnow::Parser::recognize")
def w_take(interp, args, info):
    return P("take", [to_parser(interp, args[0])])


@model("winnow::combinator::cut_err")
def w_cut_err(interp, args, info):
    return P("cut_err", [to_parser(interp, args[0])])


def _refs(p, out):
    if isinstance(p, P):
        if p.kind == "ref":
            out.add(p.extra)
        for a in p.args:
            _refs(a, out)


def _parse_next(interp, args, info):
    p = to_parser(interp, args[0])
    _refs(p, interp.stubbed)       # the analysis answers for these parser functions: their bodies are not entered
    return interp.policy.parse_next(interp, p, args[1], info)


for _k in ("winnow::Parser::parse_next", "<F as winnow::Parser<I, O, E>>::parse_next",
           "<winnow::combinator::Context<F, I, O, E, C> as winnow::Parser<I, O, E>>::parse_next",
           "<winnow::combinator::Map<F, G, I, O, O2, E> as winnow::Parser<I, O2, E>>::parse_next",
           "<winnow::combinator::TryMap<F, G, I, O, O2, E, E2> as winnow::Parser<I, O2, E>>::parse_next"):
    MODELS[_k] = _parse_next


def _direct_prim(name):
    def f(interp, args, info):
        return interp.policy.parse_next(interp, P("prim", extra=name), args[0], info)
    return f


for _k, _n in PRIMS.items():
    MODELS[_k] = _direct_prim(_n)


def parser_functions(prog):
    """crate functions with the shape `fn(&mut &str) -> PResult<_, _>`"""
    out = []
    for key, b in prog.bodies.items():
        if b["def_kind"] != "Fn" or b["arg_count"] != 1:
            continue
        ret = prog.ty_str(b["locals"][0])
        arg = prog.ty_str(b["locals"][1])
        if "winnow::error::ErrMode" in ret and arg.startswith("&mut &"):
            out.append(key)
    return out
