"""The well-formedness invariant of `BoundSet` that the interval-level tables take as their premise:

    INV-LU  lower is a `Bound::Lower`, upper a `Bound::Upper`
    INV-NE  the interval is not empty: cut(lower) < cut(upper)

`BoundSet::new` is the validating constructor (its table is T-NEW). Two rules make sure nothing else puts a value into
circulation that breaks the invariant:

INV-CONSTRUCT  every other function whose MIR builds a `BoundSet` aggregate is run over every abstract input of its
               parameter types (Version, Predicate, Bound, BoundSet and references/boxes of these; version tokens in every
               weak ordering; BoundSet parameters satisfy the invariant); every BoundSet anywhere in its result must satisfy
               the invariant. A function that fails is an *unvalidated constructor*: its callers are judged instead (the
               same way, two levels), and callers inside the desugaring closures by INV-PARSED.

INV-PARSED     every (comparator form, partial shape) row of the desugaring tables and every (lower, upper) row of the hyphen
               table: the BoundSet the closure returns either went through the validating constructor (an event of the stub
               with the same two cuts) or is ordered by construction (an unbounded side; the same partial's components with
               a larger successor term on the upper side). An interval whose two ends are independent user versions and that
               did not go through the validating constructor is a violation (`2.0.0 - 1.0.0`).
"""
import itertools

from . import desugar as D
from . import flow, gram, intervals
from .interp import Adt, BoxV, Cell, Inconclusive, ListV, Panic, Ptr, Tok
from .intervals import BSET, BOUND, PRED, Run, bstr, cut, sstr, vtok, weak_orders, order_str

VERSION = "Version"


def aggregate_sites(prog):
    """functions whose MIR contains an aggregate of BoundSet"""
    out = {}
    for key, body in prog.bodies.items():
        n = 0
        for bb in body["blocks"]:
            for st in bb["stmts"]:
                if st["k"] == "assign" and st["rv"].get("k") == "aggr" and st["rv"].get("ak") == "adt" and st["rv"]["adt"] == BSET:
                    n += 1
        if n:
            # a closure belongs to the function it is written in (`cond.then(|| Self { .. })`)
            owner = key.split("::{closure")[0]
            out[owner if owner in prog.bodies else key] = out.get(owner, 0) + n
    return out


def callers_of(prog, key):
    """functions that call `key` (a closure counts for the function it is written in)"""
    res = set()
    for k, body in prog.bodies.items():
        for bb in body["blocks"]:
            c = flow.callee_of(bb["term"])
            if c is not None and flow.callee_key(c) == key:
                owner = k.split("::{closure")[0]
                res.add(owner if owner in prog.bodies else k)
    return res


# ---- abstract inputs by parameter type

def _strip_ref(s):
    wrap = []
    while True:
        s = s.strip()
        if s.startswith("&mut "):
            wrap.append("ref")
            s = s[5:]
        elif s.startswith("&"):
            wrap.append("ref")
            s = s[1:]
            if s.startswith("'"):
                s = s.split(" ", 1)[1]
        elif s.startswith("std::boxed::Box<") and s.endswith(">"):
            wrap.append("box")
            s = s[len("std::boxed::Box<"):-1]
        else:
            return s, wrap


def _options(env, tystr, slot):
    """list of (description, token names, build(tokmap) -> (value, validity predicate or None))"""
    base, wrap = _strip_ref(tystr)

    def wrapv(v):
        for w in reversed(wrap):
            v = Ptr(Cell(v)) if w == "ref" else BoxV(Cell(v))
        return v
    opts = []
    if base == VERSION:
        n = "v%d" % slot
        opts.append(("%s" % n, [n], lambda m, n=n: (wrapv(m[n]), None)))
    elif base == PRED:
        n = "v%d" % slot
        opts.append(("Unbounded", [], lambda m: (wrapv(Adt(PRED, env.P["U"], ())), None)))
        for pk, nm in (("I", "Including"), ("E", "Excluding")):
            opts.append(("%s(%s)" % (nm, n), [n], lambda m, pk=pk, n=n: (wrapv(Adt(PRED, env.P[pk], (m[n],))), None)))
    elif base == BOUND:
        n = "v%d" % slot
        for kind in "LU":
            opts.append((bstr((kind, "U", None)), [], lambda m, kind=kind: (wrapv(env.bound(kind, "U")), None)))
            for pk in "IE":
                opts.append(("%s.%s(%s)" % (kind, pk, n), [n],
                             lambda m, kind=kind, pk=pk, n=n: (wrapv(env.bound(kind, pk, m[n])), None)))
    elif base == BSET:
        lo_n, up_n = "l%d" % slot, "u%d" % slot
        for lo in "UIE":
            for up in "UIE":
                names = [x for x, s in ((lo_n, lo), (up_n, up)) if s != "U"]

                def build(m, lo=lo, up=up):
                    a = ("L", lo, m.get(lo_n) if lo != "U" else None)
                    b = ("U", up, m.get(up_n) if up != "U" else None)
                    valid = cut(a) < cut(b)
                    return wrapv(env.bset(env.bound(*a), env.bound(*b))), valid
                opts.append(("[%s%s,%s%s]" % (lo, lo_n if lo != "U" else "", up, up_n if up != "U" else ""), names, build))
    else:
        return None
    return opts


def collect_sets(interp, v, out, depth=0):
    if depth > 8:
        return
    if isinstance(v, (Ptr, BoxV)):
        try:
            v = interp.strip(v)
        except Exception:
            return
    if isinstance(v, Adt):
        if v.name == BSET:
            out.append(v)
            return
        for f in v.fields:
            collect_sets(interp, f, out, depth + 1)
    elif isinstance(v, ListV):
        for f in v.items:
            collect_sets(interp, f, out, depth + 1)
    elif isinstance(v, tuple):
        for f in v:
            collect_sets(interp, f, out, depth + 1)


def enumerate_function(prog, env, key, max_rows=4000):
    """returns None when a parameter type is outside the abstraction, else a list of rows
    {key, status: ok|bad|panic|inconclusive, detail}"""
    body = prog.bodies[key]
    if body.get("type_params"):
        return None
    per_param = []
    for i in range(body["arg_count"]):
        o = _options(env, prog.ty_str(body["locals"][i + 1]), i)
        if o is None:
            return None
        per_param.append(o)
    rows = []
    for combo in itertools.product(*per_param):
        names = [n for c in combo for n in c[1]]
        for w in weak_orders(names):
            m = {n: vtok(n, w[n]) for n in names}
            args, valid = [], True
            for c in combo:
                v, ok_ = c[2](m)
                args.append(v)
                if ok_ is False:
                    valid = False
            if not valid:
                continue
            rk = "(%s) order:%s" % (", ".join(c[0] for c in combo), order_str(w))
            run = Run(prog, env)
            status, val = run.call(key, args)
            if status == "panic":
                rows.append({"key": rk, "status": "panic", "detail": str(val)})
                continue
            if status == "inconclusive":
                rows.append({"key": rk, "status": "inconclusive", "detail": (val.reason, val.where)})
                continue
            if run.interp.ctx.decisions:
                # the function asked something the order abstraction leaves open (a field of a version …): only the first
                # answer was followed, so the row decides nothing
                rows.append({"key": rk, "status": "inconclusive",
                             "detail": ("the function reads the versions themselves (%s)" % ", ".join(sorted(set(run.interp.ctx.labels))), None)})
                continue
            sets = []
            collect_sets(run.interp, val, sets)
            bad = None
            for s in sets:
                try:
                    a, b = env.dec_set(run.interp, s)
                except Inconclusive as e:
                    bad = ("inconclusive", (e.reason, e.where))
                    break
                if a[0] != "L" or b[0] != "U":
                    bad = ("bad", "returns %s: not a (Lower, Upper) pair" % sstr((a, b)))
                    break
                if not cut(a) < cut(b):
                    bad = ("bad", "returns the empty or inverted interval %s" % sstr((a, b)))
                    break
            if bad:
                rows.append({"key": rk, "status": bad[0], "detail": bad[1]})
            else:
                rows.append({"key": rk, "status": "ok", "detail": None, "sets": len(sets)})
            if len(rows) >= max_rows:
                return rows
    return rows


def construct_rule(ctx, rep, prog, deferred_to_parsed):
    """INV-CONSTRUCT. `deferred_to_parsed`: bodies INV-PARSED interprets (callers there are judged by that rule)."""
    rule = "INV-CONSTRUCT"
    rep.rule(rule, 1, "every function that builds a BoundSet value other than the validating constructor keeps the "
                      "invariant (Lower/Upper shape, non-empty) on every abstract input")
    env = intervals.Env(prog)
    sites = aggregate_sites(prog)
    VALIDATING = "range::BoundSet::new"
    if VALIDATING not in sites:
        # it may build its result through a private raw constructor
        out, bodies = flow.reach_callees(prog, VALIDATING) if prog.has_body(VALIDATING) else (set(), set())
        if not (set(out) & set(sites)):
            rep.inconc("%s: the validating constructor range::BoundSet::new builds no BoundSet, neither itself nor through a "
                       "function it calls (anchor moved?)" % rule)
    judged = {}

    def judge(key):
        if key in judged:
            return judged[key]
        judged[key] = ("pending", None)
        rows = enumerate_function(prog, env, key)
        if rows is None:
            res = ("unsupported", None)
        else:
            bad = [r for r in rows if r["status"] == "bad"]
            inc = [r for r in rows if r["status"] == "inconclusive"]
            if bad:
                res = ("bad", bad[0])
            elif inc:
                res = ("inconclusive", inc[0])
            else:
                res = ("ok", len(rows))
        judged[key] = res
        return res

    def settle(key, depth, chain):
        """True = fine, False = violation reported, None = undecided"""
        st, info = judge(key)
        if st == "ok":
            for _ in range(max(1, info)):
                rep.ok(rule)
            return True
        if st == "inconclusive":
            rep.inconc("%s: %s: %s" % (rule, key, info["detail"][0]), info["detail"][1])
            return None
        if st == "pending":
            return True
        # unvalidated constructor (or not enumerable): the callers carry the obligation
        callers = callers_of(prog, key)
        if st == "unsupported" and key in deferred_to_parsed:
            return True
        if not callers and st == "bad":
            # nobody calls it: dead code cannot break anything
            return True
        verdicts = []
        for c in sorted(callers):
            if c == "range::BoundSet::new":
                verdicts.append(True)          # the validating constructor: what it returns is tabled by T-NEW
                continue
            if c in deferred_to_parsed or any(d.split("::{closure")[0] == c for d in deferred_to_parsed):
                verdicts.append(True)          # INV-PARSED looks at what this closure returns
                continue
            if depth >= 2:
                verdicts.append(None)
                continue
            verdicts.append(settle(c, depth + 1, chain + [key]))
        if st == "bad":
            if all(v is True for v in verdicts) and not all(c in deferred_to_parsed for c in callers):
                rep.notes.append("%s: %s builds BoundSets without validation (%s on %s); every caller keeps the invariant"
                                 % (rule, key, info["detail"], info["key"]))
                return True
            if any(v is False for v in verdicts):
                return False
            if all(v is True for v in verdicts):
                return True
            # an unvalidated constructor reachable from a caller that could not be judged
            bad_callers = [c for c, v in zip(sorted(callers), verdicts) if v is None]
            pub = prog.bodies[key].get("vis") == "public"
            if pub:
                rep.fail(rule, "%s|%s|%s" % (key, rule, info["detail"].split(":")[0]),
                         "public function %s: %s on input %s" % (key, info["detail"], info["key"]))
                return False
            rep.inconc("%s: %s builds BoundSets without validation (%s on %s) and its callers %s could not be judged"
                       % (rule, key, info["detail"], info["key"], bad_callers), None)
            return None
        # unsupported parameter types
        if all(v is True for v in verdicts) and callers:
            return True
        if any(v is False for v in verdicts):
            return False
        rep.inconc("%s: %s builds a BoundSet from parameters outside the abstraction and is not covered by the desugaring "
                   "tables" % (rule, key), None)
        return None

    n = 0
    for key in sorted(sites):
        if key == "range::BoundSet::new":
            continue           # T-NEW
        n += 1
        st, info = judge(key)
        if st == "bad":
            callers = callers_of(prog, key)
            verdict = settle(key, 0, [])
            if verdict is True and callers and all(c in deferred_to_parsed for c in callers):
                rep.notes.append("%s: %s is an unvalidated constructor (%s on %s); called only from the desugaring closures, "
                                 "judged by INV-PARSED" % (rule, key, info["detail"], info["key"]))
        else:
            settle(key, 0, [])
    rep.analysed_item("BoundSet aggregates are built in %d functions (%s); %d besides the validating constructor enumerated "
                      "over their abstract inputs" % (len(sites), ", ".join(sorted(sites)), n))
    return judged


# ---- INV-PARSED

_PRE_RANK = {"zero": 0, "own": 1, "none": 2}


def _side(name):
    return name.split(":")[0] if ":" in name else ""


def order_by_construction(lo, up):
    """'ordered' | 'reversed' | 'unrelated' | 'unknown' | 'wrong-kind' for a (lower cut, upper cut) over symbolic terms"""
    if lo[0] == "wrong-kind" or up[0] == "wrong-kind":
        return "wrong-kind"
    if lo == ("-inf",) or up == ("+inf",):
        return "ordered"
    if lo[0] not in ("before", "after") or up[0] not in ("before", "after"):
        return "unknown"
    vl, vu = lo[1], up[1]
    weak = False                      # some earlier component of the upper end is >= (maybe >) the lower end's
    for a, b in zip(vl[:3], vu[:3]):
        if a == b:
            continue
        if a[0] == "n" and b[0] == "n":
            r = "ordered" if a[1] < b[1] else "reversed"
        elif a[0] == "t" and b[0] == "t":
            if a[1] == b[1]:
                r = "ordered" if b[2] > a[2] else "reversed"
            elif _side(a[1]) != _side(b[1]):
                r = "unrelated"
            else:
                r = "unknown"
        elif a[0] == "n" and b[0] == "t":
            # a literal against a token: tokens stand for numbers >= 0
            if a[1] < b[2]:
                r = "ordered"
            elif a[1] == b[2]:
                weak = True
                continue
            else:
                r = "unknown"
        else:
            r = "reversed" if b[1] < a[2] else "unknown"
        if weak and r != "ordered":
            return "unknown"
        return r
    # same numeric triple
    pl, pu = vl[3], vu[3]
    kl = (_PRE_RANK[pl], 0 if lo[0] == "before" else 1)
    ku = (_PRE_RANK[pu], 0 if up[0] == "before" else 1)
    r = "ordered" if kl < ku else "reversed"
    if weak and r != "ordered":
        return "unknown"
    return r


def provenance(ex, it, val):
    """how the BoundSet of a desugaring result came about"""
    from .interp import is_some
    if not is_some(val):
        return "none", None
    bs = it.strip(val.fields[0])
    lo = ex.bound_cut(it, bs.fields[ex.f_lower], "L")
    up = ex.bound_cut(it, bs.fields[ex.f_upper], "U")
    for ev in it.events:
        if ev[0] == "new":
            try:
                if ex.bound_cut(it, ev[1], "L") == lo and ex.bound_cut(it, ev[2], "U") == up:
                    return "validated", (lo, up)
            except Inconclusive:
                continue
    return order_by_construction(lo, up), (lo, up)


def desugar_bodies(prog, g):
    """the bodies INV-PARSED interprets: desugaring closures, the hyphen parser and what they call"""
    roots = []
    for fn in ("range::primitive", "range::partial", "range::tilde", "range::caret"):
        clo = D.top_map_closure(g, fn)
        if clo is not None:
            roots.append(clo.key)
    if prog.has_body("range::hyphen::parser"):
        roots.append("range::hyphen::parser")
    seen = set()
    for r in roots:
        seen.add(r)
        out, bodies = flow.reach_callees(prog, r)
        seen |= set(out) | set(bodies)
    return roots, seen


def parsed_rule(ctx, rep, prog, g):
    rule = "INV-PARSED"
    rep.rule(rule, 4000, "every BoundSet a desugaring closure or the hyphen parser returns went through the validating "
                         "constructor or is ordered by construction")
    ex = D.Extract(prog)
    forms = []
    from .props.c01 import OPS
    clo = D.top_map_closure(g, "range::primitive")
    if clo is not None:
        for text, opname in OPS:
            forms.append((text, clo, {"op": opname}))
    for fn, envs in (("range::partial", [("", {})]), ("range::tilde", [("~", {"gt": False}), ("~>", {"gt": True})]),
                     ("range::caret", [("^", {})])):
        clo = D.top_map_closure(g, fn)
        if clo is None:
            rep.inconc("%s: %s has no desugaring closure" % (rule, fn))
            continue
        for text, e in envs:
            forms.append((text, clo, e))
    n = bad = 0
    reported = set()

    def row(cellname, key, fn):
        nonlocal n, bad
        n += 1
        try:
            val, it = fn()
            how, cuts = provenance(ex, it, val)
        except Inconclusive as e:
            rep.inconc("%s %s: %s" % (rule, cellname, e.reason), e.where)
            return
        except Panic:
            return                      # C06's business
        if how in ("none", "validated", "ordered"):
            rep.ok(rule)
            return
        if how == "unknown":
            rep.inconc("%s %s: a BoundSet [%s, %s] is built without the validating constructor and its ends are not "
                       "ordered by construction" % (rule, cellname, D.cut_str(cuts[0]), D.cut_str(cuts[1])), None)
            return
        bad += 1
        k = "%s|%s|%s" % (key, rule, how)
        if k in reported:
            return
        reported.add(k)
        rep.fail(rule, k, "%s: returns the interval [%s, %s] without going through the validating constructor; its ends are %s, "
                          "so empty or inverted intervals get into circulation" % (
                              cellname, D.cut_str(cuts[0]), D.cut_str(cuts[1]),
                              {"unrelated": "two independent versions", "reversed": "in the wrong order",
                               "wrong-kind": "not a (Lower, Upper) pair"}[how]),
                 example="2.0.0 - 1.0.0" if how == "unrelated" else None)

    for text, clo, env in forms:
        body = prog.body(clo.key)
        for shape in D.shapes():
            env2 = dict(env, shape=shape)

            def run(clo=clo, env2=env2):
                from .interp import Interp, Policy
                it = Interp(prog, Policy(), overrides={"range::BoundSet::new": ex.new_stub})
                arg = D.mk_by_type(prog, body["locals"][2], env2)
                return it.call_closure(clo, [arg]), it
            row("form=%s partial=%s" % (text or "bare", D.shape_str(shape)), clo.key, run)
    hy = "range::hyphen::parser"
    if prog.has_body(hy):
        full = [s for s in D.shapes()]
        los = [None] + full
        for lo in los:
            for up in full:
                def run(lo=lo, up=up):
                    cell, where, it = ex.run_hyphen(hy, lo, up)
                    return it.last_hyphen_value, it
                row("hyphen lower=%s upper=%s" % (D.shape_str(lo) if lo else "absent", D.shape_str(up)), hy, run)
    else:
        rep.inconc("%s: hyphen parser body not found" % rule)
    rep.analysed_item("%d desugaring rows examined for the provenance of the BoundSet they return (%d not validated)" % (n, bad))


def check_invariant(ctx, rep, prog, with_new=True):
    """T-NEW (unless the caller tables it itself), INV-CONSTRUCT, INV-PARSED; used by every property whose tables take
    the invariant as a premise"""
    if with_new:
        from .props.common import blame_rows
        env = intervals.Env(prog)
        rows = intervals.table_new(prog, env)
        blame_rows(rep, "T-NEW", "range::BoundSet::new", rows, prog, env, 17,
                   "the validating constructor: Some exactly for a non-empty (Lower, Upper) pair, returned unchanged")
    if not prog.has_body("range::BoundSet::new"):
        # the rules below are relative to the validating constructor; without it (renamed, moved) nothing is decided
        rep.inconc("INV-CONSTRUCT / INV-PARSED: the validating constructor range::BoundSet::new was not found")
        return
    g, problems = gram.extract(prog)
    roots, seen = desugar_bodies(prog, g)
    construct_rule(ctx, rep, prog, seen)
    parsed_rule(ctx, rep, prog, g)
