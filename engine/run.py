"""Entry point behind ./check: run the obligations of one property against REPO's current tree,
subtract known findings by exact key, print the verdict lines, write the evidence file."""
import argparse
import hashlib
import importlib
import json
import os
import sys
import time
import traceback

from . import facts
from .facts import FactsError, Program
from .interp import Inconclusive
from .report import Report

VERIF = facts.VERIF
EVID = os.path.join(VERIF, "evidence")
EVID_SHOWN = "evidence"
if os.path.realpath(facts.REPO) != "/repo":
    # self-tests / seeded runs against a scratch copy never overwrite the evidence of the real tree
    EVID = os.path.join(facts.WORK, "scratch-evidence", hashlib.sha1(facts.REPO.encode()).hexdigest()[:10])
    EVID_SHOWN = EVID
KNOWN = os.path.join(VERIF, "known_findings.json")


class Context(object):
    def __init__(self, tier):
        self.tier = tier
        self._progs = {}
        self.build_s = 0.0

    def prog(self, features=(), nochecks=False):
        k = (tuple(features), nochecks)
        if k not in self._progs:
            doc = facts.build_facts(features=features, nochecks=nochecks)
            self.build_s += doc.get("_build_s", 0.0)
            self._progs[k] = Program(doc)
        return self._progs[k]

    @property
    def thorough(self):
        return self.tier == "thorough"


def load_known():
    if not os.path.exists(KNOWN):
        return {"findings": [], "fixed": []}
    with open(KNOWN) as f:
        return json.load(f)


def write_evidence(pid, tier, level, coverage, assumptions, wall, nviol):
    os.makedirs(EVID, exist_ok=True)
    seed = int(os.environ.get("VERIF_SEED", "0") or 0)
    ev = {"property_id": pid, "tier": tier, "seed": seed, "level": level, "coverage": coverage,
          "assumptions": assumptions, "wall_s": round(wall, 3), "violations": nviol}
    tmp = os.path.join(EVID, "%s.json.tmp%d" % (pid, os.getpid()))
    with open(tmp, "w") as f:
        json.dump(ev, f, indent=1, sort_keys=True, default=str)
    os.replace(tmp, os.path.join(EVID, "%s.json" % pid))


def main(argv=None):
    ap = argparse.ArgumentParser()
    ap.add_argument("prop")
    ap.add_argument("--tier", default=os.environ.get("VERIF_TIER", "quick"), choices=["quick", "thorough"])
    ap.add_argument("--replay", default=None)
    args = ap.parse_args(argv)
    pid = args.prop.upper()
    from .props import REGISTRY
    if pid not in REGISTRY:
        print("unknown property %s" % pid)
        return 2
    meta = REGISTRY[pid]
    mod = importlib.import_module("engine.props." + pid.lower())
    t0 = time.time()
    ctx = Context(args.tier)
    rep = Report(pid, args.tier)
    status = 0
    try:
        mod.check(ctx, rep)
    except FactsError as e:
        print("INCONCLUSIVE property=%s reason=cannot obtain facts: %s" % (pid, str(e)[:2000]))
        rep.inconc("facts: " + str(e)[:500])
    except Inconclusive as e:
        rep.inconc(e.reason, e.where)
    except Exception:
        tb = traceback.format_exc()
        rep.inconc("internal error in checker: " + tb[-1500:])

    for pr in ctx._progs.values():
        for old, new in getattr(pr, "aliases", {}).items():
            rep.notes.append("%s does not exist on this tree; %s — the only associated function of BoundSet with the signature "
                             "(Bound, Bound) -> Option<BoundSet> — is taken for it" % (new, old))
    missing = rep.check_floors()
    for m in missing:
        rep.inconc("anchor missing (rule matched fewer instances than confirmed on the pinned tree): " + m)

    known = load_known()
    kmap = {(k["property"], k["key"]): k for k in known.get("findings", [])}
    unlisted = []
    listed = []
    for key, v in sorted(rep.violations.items()):
        if (pid, key) in kmap:
            listed.append(v)
        else:
            unlisted.append(v)

    replay_target = None
    if args.replay:
        try:
            with open(args.replay) as f:
                replay_target = json.load(f).get("key")
        except Exception as e:
            print("cannot read replay file: %s" % e)
            return 2

    for v in listed:
        print("KNOWN-FINDING: property=%s %s — %s" % (pid, v.key, v.what))
    os.makedirs(os.path.join(EVID, "replay"), exist_ok=True)
    for v in unlisted:
        h = hashlib.sha1(v.key.encode()).hexdigest()[:12]
        path = os.path.join(EVID_SHOWN, "replay", "%s-%s.json" % (pid, h))
        with open(os.path.join(VERIF, path), "w") as f:
            json.dump(v.to_json(), f, indent=1, default=str)
        if replay_target is None or replay_target == v.key:
            print("VIOLATION property=%s replay=%s" % (pid, path))
            print("  key:      %s" % v.key)
            print("  what:     %s" % v.what)
            if v.where:
                print("  where:    %s" % v.where)
            if v.expected is not None:
                print("  expected: %s" % (v.expected,))
            if v.actual is not None:
                print("  actual:   %s" % (v.actual,))
            if v.example:
                print("  example:  %s" % (v.example,))
            status = 1
    for inc in rep.inconclusive:
        print("INCONCLUSIVE property=%s construct=%s reason=%s" % (pid, inc.get("where"), inc.get("what")))
    if rep.inconclusive and status == 0:
        status = 2

    # evidence
    wall = time.time() - t0
    obligations = sum(r["instances"] for r in rep.rules.values())
    failed = sum(r["failed"] for r in rep.rules.values())
    level = meta["level"]
    cov = {
        "explanation": meta["explanation"],
        "evaluations": max(rep.evaluations, obligations),
        "distinct_nontrivial": len(rep.paths),
        "rule": meta.get("rule", "abstract cases (constructor shape x world) enumerated completely; a case is distinct "
                                 "when the branch path the interpreter takes through the analysed MIR bodies is distinct"),
        "samples": rep.samples[:12] or ["(no sample recorded)"],
        "exhaustive": meta.get("exhaustive", True),
        "rules": {k: {"instances": r["instances"], "failed": r["failed"], "floor": r["floor"], "what": r["desc"]}
                  for k, r in sorted(rep.rules.items())},
        "analysed": rep.analysed,
        "notes": rep.notes,
        "known_findings_observed": [v.key for v in listed],
        "unlisted_violations": [v.to_json() for v in unlisted][:40],
        "inconclusive": rep.inconclusive,
        "facts_build_s": round(ctx.build_s, 2),
        "repo": facts.REPO,
    }
    if level == "proof":
        cov["obligations"] = obligations
        cov["discharged"] = obligations - failed
        cov["checker_cmd"] = "./check %s --tier %s" % (pid, args.tier)
        cov["trusted_base"] = meta.get("trusted_base", [])
    write_evidence(pid, args.tier, level, cov, meta.get("assumptions", []), wall, len(unlisted))
    summary = "%s %s: %d obligations in %d rules, %d failed (%d listed as known), %d distinct paths, %.1fs" % (
        pid, args.tier, obligations, len(rep.rules), failed, len(listed), len(rep.paths), wall)
    print(summary)
    if status == 0:
        print("OK property=%s" % pid)
    return status


if __name__ == "__main__":
    sys.exit(main())
