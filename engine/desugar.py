"""C01 clause 1: the desugaring table of the range grammar's closures, extracted by abstract
interpretation, against node-semver's documented desugaring (replaceXRange / replaceTilde /
replaceCaret / hyphenReplace; loose, includePrerelease off).

A *cell* is (form, partial shape). The extracted entry and the reference entry are both reduced
to (lower cut, upper cut, gate tuples) over symbolic version terms and compared after the
canonicalisations K1–K4 of DESIGN §5 C01.
"""
from .interp import (Adt, BoxV, Cell, Clo, Ctx, Inconclusive, Interp, ListV, NONE, Panic, Policy, Ptr, StrV, Tok, is_some,
                     ok, some)
from .report import path_sig
from . import gram
from .wmodels import P

PARTIAL = "range::Partial"
OPERATION = "range::Operation"
MAXSAFE = 900719925474099

# ----------------------------------------------------------------------------- symbolic terms
# number:  ("n", int) | ("t", name, off)
# version: (maj, min, pat, pre)   pre in {"none", "zero", "own"}
# cut:     ("-inf",) | ("+inf",) | ("before", version) | ("after", version)


def n_inc(x):
    return ("n", x[1] + 1) if x[0] == "n" else ("t", x[1], x[2] + 1)


def n_str(x):
    if x[0] == "n":
        return "MAX" if x[1] == MAXSAFE else str(x[1])
    return x[1] + ("+%d" % x[2] if x[2] else "")


def v_str(v):
    s = "%s.%s.%s" % (n_str(v[0]), n_str(v[1]), n_str(v[2]))
    return s + {"none": "", "zero": "-0", "own": "-<pre>"}[v[3]]


def cut_str(c):
    if c[0] in ("-inf", "+inf"):
        return c[0]
    return "%s(%s)" % (c[0], v_str(c[1]))


def cell_str(cell):
    if cell in ("DROPPED", "NULL"):
        return cell
    lo, up, gates = cell
    return "[%s, %s) gate:{%s}" % (cut_str(lo), cut_str(up), ",".join(sorted("%s.%s.%s" % tuple(n_str(x) for x in g) for g in gates)))


def canon_num(x, shape):
    """tokens known to be zero become the literal"""
    if x[0] == "t":
        cls = {"M": shape["M"], "m": shape["m"], "p": shape["p"]}.get(x[1].split(":")[-1])
        if cls == "Z":
            return ("n", x[2])
    return x


def canon_version(v, shape):
    return (canon_num(v[0], shape), canon_num(v[1], shape), canon_num(v[2], shape), v[3])


def canon_cell(cell, shape, lower_shape=None):
    if cell in ("DROPPED", "NULL"):
        return cell
    lo, up, _ = cell

    def cv(v):
        # hyphen cells carry tokens of two partials: names "lo:M" / "up:M"
        if lower_shape is not None:
            def cn(x):
                if x[0] == "t":
                    side, nm = x[1].split(":")
                    cls = (lower_shape if side == "lo" else shape)[nm]
                    if cls == "Z":
                        return ("n", x[2])
                return x
            return (cn(v[0]), cn(v[1]), cn(v[2]), v[3])
        return canon_version(v, shape)
    if lo[0] == "before" or lo[0] == "after":
        lo = (lo[0], cv(lo[1]))
    if up[0] == "before" or up[0] == "after":
        up = (up[0], cv(up[1]))
    # K1: after(X.MAX.MAX) = before((X+1).0.0-0); after(X.y.MAX) = before(X.(y+1).0-0)
    if up[0] == "after" and up[1][3] == "none" and up[1][2] == ("n", MAXSAFE):
        if up[1][1] == ("n", MAXSAFE):
            up = ("before", (n_inc(up[1][0]), ("n", 0), ("n", 0), "zero"))
        else:
            up = ("before", (up[1][0], n_inc(up[1][1]), ("n", 0), "zero"))
    # K4: the lower cuts -inf and before(0.0.0) are identified
    if lo == ("before", (("n", 0), ("n", 0), ("n", 0), "none")):
        lo = ("-inf",)
    gates = set()
    if lo[0] in ("before", "after") and lo[1][3] != "none":
        gates.add(lo[1][:3])
    if up[0] in ("before", "after") and up[1][3] == "own":     # K2: a `-0` upper bound opens no gate
        gates.add(up[1][:3])
    return (lo, up, frozenset(gates))


# ----------------------------------------------------------------------------- reference (npm)

def tM(shape, side=""):
    return ("t", side + "M", 0)


def ref_cmps_to_cell(cmps):
    """comparator list -> (lower cut, upper cut, ()) ; 'ANY' -> unbounded"""
    if cmps == "NULL":
        return "NULL"
    lo, up = ("-inf",), ("+inf",)
    if cmps == "ANY":
        return (lo, up, None)
    for op, v in cmps:
        if op == ">=":
            lo = ("before", v)
        elif op == ">":
            lo = ("after", v)
        elif op == "<":
            up = ("before", v)
        elif op == "<=":
            up = ("after", v)
        elif op == "=":
            lo, up = ("before", v), ("after", v)
    return (lo, up, None)


def npm_xrange(op, shape, side=""):
    """node-semver replaceXRange (+ replaceStars / replaceGTE0) for `[op]partial`"""
    M, m, p = ("t", side + "M", 0), ("t", side + "m", 0), ("t", side + "p", 0)
    Z = ("n", 0)
    xM = shape["M"] == "N"
    xm = xM or shape["m"] == "N"
    xp = xm or shape["p"] == "N"
    anyx = xp
    if op == "=" and anyx:
        op = ""
    if xM:
        return "NULL" if op in (">", "<") else "ANY"
    if op != "" and anyx:
        m_ = Z if xm else m
        M_ = M
        if op == ">":
            op = ">="
            if xm:
                M_, m_ = n_inc(M), Z
            else:
                m_ = n_inc(m)
        elif op == "<=":
            op = "<"
            if xm:
                M_ = n_inc(M)
            else:
                m_ = n_inc(m)
        pr = "zero" if op == "<" else "none"
        return [(op, (M_, m_, Z, pr))]
    if xm:
        return [(">=", (M, Z, Z, "none")), ("<", (n_inc(M), Z, Z, "zero"))]
    if xp:
        return [(">=", (M, m, Z, "none")), ("<", (M, n_inc(m), Z, "zero"))]
    return [(op or "=", (M, m, p, "own" if shape["pre"] else "none"))]


def npm_tilde(shape):
    M, m, p = ("t", "M", 0), ("t", "m", 0), ("t", "p", 0)
    Z = ("n", 0)
    if shape["M"] == "N":
        return "ANY"
    if shape["m"] == "N":
        return [(">=", (M, Z, Z, "none")), ("<", (n_inc(M), Z, Z, "zero"))]
    if shape["p"] == "N":
        return [(">=", (M, m, Z, "none")), ("<", (M, n_inc(m), Z, "zero"))]
    return [(">=", (M, m, p, "own" if shape["pre"] else "none")), ("<", (M, n_inc(m), Z, "zero"))]


def npm_caret(shape):
    M, m, p = ("t", "M", 0), ("t", "m", 0), ("t", "p", 0)
    Z = ("n", 0)
    if shape["M"] == "N":
        return "ANY"
    if shape["m"] == "N":
        return [(">=", (M, Z, Z, "none")), ("<", (n_inc(M), Z, Z, "zero"))]
    if shape["p"] == "N":
        if shape["M"] == "Z":
            return [(">=", (M, m, Z, "none")), ("<", (M, n_inc(m), Z, "zero"))]
        return [(">=", (M, m, Z, "none")), ("<", (n_inc(M), Z, Z, "zero"))]
    lo = (">=", (M, m, p, "own" if shape["pre"] else "none"))
    if shape["M"] == "Z":
        if shape["m"] == "Z":
            return [lo, ("<", (M, m, n_inc(p), "zero"))]
        return [lo, ("<", (M, n_inc(m), Z, "zero"))]
    return [lo, ("<", (n_inc(M), Z, Z, "zero"))]


def npm_hyphen(lo_shape, up_shape):
    """hyphenReplace; with an absent lower partial the text is not a hyphen range for npm: the stray
    `-` is dropped in loose mode and the upper partial is read as a bare x-range"""
    Z = ("n", 0)
    if lo_shape is None:
        return npm_xrange("", up_shape, "up:")
    cm = []
    M, m, p = ("t", "lo:M", 0), ("t", "lo:m", 0), ("t", "lo:p", 0)
    if lo_shape["M"] == "N":
        pass
    elif lo_shape["m"] == "N":
        cm.append((">=", (M, Z, Z, "none")))
    elif lo_shape["p"] == "N":
        cm.append((">=", (M, m, Z, "none")))
    else:
        cm.append((">=", (M, m, p, "own" if lo_shape["pre"] else "none")))
    M, m, p = ("t", "up:M", 0), ("t", "up:m", 0), ("t", "up:p", 0)
    if up_shape["M"] == "N":
        pass
    elif up_shape["m"] == "N":
        cm.append(("<", (n_inc(M), Z, Z, "zero")))
    elif up_shape["p"] == "N":
        cm.append(("<", (M, n_inc(m), Z, "zero")))
    else:
        cm.append(("<=", (M, m, p, "own" if up_shape["pre"] else "none")))
    return cm or "ANY"


# ----------------------------------------------------------------------------- abstract inputs

def shapes():
    """raw syntactic shapes of a partial: major x (minor absent | minor x (patch absent | patch x prerelease?))
    with each present component one of N (wildcard), Z (zero), P (positive); 'A' marks an absent component.
    For node-semver an absent component and a wildcard are the same thing."""
    for M in "NZP":
        yield {"M": M, "m": "A", "p": "A", "pre": False}
        for m in "NZP":
            yield {"M": M, "m": m, "p": "A", "pre": False}
            for p in "NZP":
                for pre in (False, True):
                    yield {"M": M, "m": m, "p": p, "pre": pre}


def npm_view(shape):
    """the shape as node-semver's regexes deliver it: absent == wildcard"""
    return {"M": shape["M"], "m": "N" if shape["m"] == "A" else shape["m"], "p": "N" if shape["p"] == "A" else shape["p"],
            "pre": shape["pre"]}


def shape_str(s):
    def c(x, nm):
        return {"N": "x", "Z": "0", "P": nm, "A": ""}[x]
    parts = [c(s["M"], "M"), c(s["m"], "m"), c(s["p"], "p")]
    while parts and parts[-1] == "":
        parts.pop()
    return ".".join(parts) + ("-pre" if s["pre"] else "")


_PV = "range::partial_version"
_partial_cache = {}


def mk_partial(prog, shape, side=""):
    """The Partial that `partial_version` returns for a raw syntactic shape: the function is interpreted with its
    parser calls stubbed (v-prefix, blanks, three components, extras), so that its own post-processing of the
    components (flatten, normalisation) is part of the table."""
    key = (id(prog), tuple(sorted(shape.items())), side)
    if key in _partial_cache:
        return _partial_cache[key]

    def comp(nm):
        c = shape[nm]
        return NONE if c == "N" else some(Tok("I", side + nm, 0 if c == "Z" else 1, dom=side + nm))
    state = {"opts": 0}

    class Pol(Policy):
        def parse_next(pself, interp, p, inp, info):
            while p.kind in ("context", "cut_err"):
                p = p.args[0]
            if p.kind == "map":
                # `Parser::map(inner, f)`: the inner parser is answered as below, f is interpreted
                r = pself.parse_next(interp, p.args[0], inp, info)
                if not (isinstance(r, Adt) and r.name == "std::result::Result" and r.variant == 0):
                    return r
                return ok(interp.call_value(p.extra, [r.fields[0]]))
            if p.kind == "ref" and p.extra not in interp.overrides and prog.has_body(p.extra):
                # a helper parser function of the crate (e.g. a split-off first phase): interpreted
                return interp.call_key(p.extra, [inp])
            if p.kind == "ref" and p.extra in interp.overrides:
                return interp.call_key(p.extra, [inp])
            if p.kind == "opt":
                inner = gram.strip(p.args[0])
                if inner.kind == "lit":
                    return ok(NONE)                       # optional `v` prefix
                state["opts"] += 1
                nm = "m" if state["opts"] == 1 else "p"
                if state["opts"] > 2:
                    raise Inconclusive("partial_version has more than two optional components")
                return ok(NONE) if shape[nm] == "A" else ok(some(comp(nm)))
            return ok(Tok("O", "tok"))

    def o_component(interp, args, info):
        return ok(comp("M"))

    def o_extras(interp, args, info):
        return ok((Tok("L", side + "pre", (7,) if shape["pre"] else (), dom=side + "pre"),
                   Tok("L", side + "build", (), dom=side + "build")))
    if not prog.has_body(_PV):
        raise Inconclusive("range::partial_version not found")
    it = Interp(prog, Pol(), overrides={"range::component": o_component, "extras": o_extras})
    inp = Ptr(Cell(Ptr(Cell(Tok("T", "input", "", dom="input")))))
    r = it.call_body(_PV, [inp])
    if not (isinstance(r, Adt) and r.name == "std::result::Result" and r.variant == 0):
        raise Inconclusive("partial_version did not return Ok on the success path")
    part = r.fields[0]
    # `vec![]` for dropped extras and the tokens of kept extras are both fine; normalise lists to tokens
    _partial_cache[key] = part
    return part


def norm_shape_str(prog, part):
    """the shape of a Partial value as partial_version delivers it (after its own normalisation)"""
    names = prog.field_names(PARTIAL)
    f = dict(zip(names, part.fields))
    out = []
    for fn, nm in (("major", "M"), ("minor", "m"), ("patch", "p")):
        v = f[fn]
        if is_some(v):
            t = v.fields[0]
            out.append("0" if getattr(t, "val", None) == 0 else nm)
        else:
            out.append("x")
    while len(out) > 1 and out[-1] == "x":
        out.pop()
    pre = f["pre_release"]
    has_pre = bool(pre.val) if isinstance(pre, Tok) else bool(getattr(pre, "items", ()))
    return ".".join(out) + ("-pre" if has_pre else "")


def mk_by_type(prog, tix, env):
    """build the closure argument from its type"""
    t = prog.types[tix]
    k = t.get("k")
    if k == "tuple":
        return tuple(mk_by_type(prog, x, env) for x in t["tys"])
    if k == "adt":
        if t["adt"] == PARTIAL:
            return mk_partial(prog, env["shape"])
        if t["adt"] == OPERATION:
            return Adt(OPERATION, prog.variant_index(OPERATION, env["op"]), ())
        if t["adt"] == "std::option::Option":
            return some(Tok("T", "gt", ">", dom="gt")) if env.get("gt") else NONE
    raise Inconclusive("cannot build an argument of type %s" % t["s"])


class Extract(object):
    """run one desugaring closure with BoundSet::new stubbed; returns the extracted cell"""

    def __init__(self, prog):
        self.prog = prog
        names = prog.field_names("range::BoundSet")
        self.f_lower, self.f_upper, self.nf = names.index("lower"), names.index("upper"), len(names)
        self.BLOWER = prog.variant_index("range::Bound", "Lower")
        self.vnames = prog.field_names("Version")
        self.PRED = {prog.variant_index("range::Predicate", n): n for n in ("Excluding", "Including", "Unbounded")}
        # panic analyses: BoundSet::new may also answer None unless the pair is valid by construction (an unbounded
        # side, or the same version inclusive on both sides); the caller explores both outcomes
        self.may_fail = False

    def new_stub(self, interp, args, info):
        if self.may_fail:
            try:
                lo, up = self.bound_cut(interp, args[0], "L"), self.bound_cut(interp, args[1], "U")
                definite = lo == ("-inf",) or up == ("+inf",) or (lo[0] == "before" and up[0] == "after" and lo[1] == up[1])
            except Inconclusive:
                definite = False
            if not definite and interp.ctx.choose("BoundSet::new", 2) == 1:
                interp.events.append(("new-none", args[0], args[1]))
                return NONE
        f = [None] * self.nf
        ftys = self.prog.adts["range::BoundSet"].get("field_tys", [[]])[0]
        boxed = [self.prog.ty_str(t).startswith("std::boxed::Box<") for t in ftys] if ftys else [True] * self.nf
        f[self.f_lower] = BoxV(Cell(args[0])) if boxed[self.f_lower] else args[0]
        f[self.f_upper] = BoxV(Cell(args[1])) if boxed[self.f_upper] else args[1]
        interp.events.append(("new", args[0], args[1]))
        return some(Adt("range::BoundSet", 0, f))

    def num_term(self, x):
        if isinstance(x, bool):
            raise Inconclusive("boolean in a version component")
        if isinstance(x, int):
            return ("n", x)
        if isinstance(x, Tok) and x.kind == "I":
            return ("t", x.name, x.off)
        raise Inconclusive("version component %r" % (x,))

    def pre_term(self, interp, x):
        x = interp.strip(x)
        if isinstance(x, Tok) and x.kind == "L":
            if x.name.endswith("build"):
                raise Inconclusive("build list used as prerelease")
            return "own" if x.val else "none"
        if isinstance(x, ListV):
            if not x.items:
                return "none"
            if len(x.items) == 1:
                i = x.items[0]
                if isinstance(i, Adt) and i.name == "Identifier" and self.prog.variant_name("Identifier", i.variant) == "Numeric" \
                        and i.fields[0] == 0:
                    return "zero"
        raise Inconclusive("prerelease list %r" % (x,))

    def version_term(self, interp, v):
        v = interp.strip(v)
        if not (isinstance(v, Adt) and v.name == "Version"):
            raise Inconclusive("expected Version, got %r" % (v,))
        f = dict(zip(self.vnames, v.fields))
        return (self.num_term(f["major"]), self.num_term(f["minor"]), self.num_term(f["patch"]),
                self.pre_term(interp, f["pre_release"]))

    def bound_cut(self, interp, b, want):
        b = interp.strip(b)
        if not (isinstance(b, Adt) and b.name == "range::Bound"):
            raise Inconclusive("expected Bound, got %r" % (b,))
        kind = "L" if b.variant == self.BLOWER else "U"
        if kind != want:
            return ("wrong-kind", kind)
        p = b.fields[0]
        pn = self.PRED[p.variant]
        if pn == "Unbounded":
            return ("-inf",) if kind == "L" else ("+inf",)
        vt = self.version_term(interp, p.fields[0])
        if kind == "L":
            return ("before", vt) if pn == "Including" else ("after", vt)
        return ("after", vt) if pn == "Including" else ("before", vt)

    def cell_of(self, interp, val):
        if not is_some(val):
            return "DROPPED"
        bs = interp.strip(val.fields[0])
        lo = self.bound_cut(interp, bs.fields[self.f_lower], "L")
        up = self.bound_cut(interp, bs.fields[self.f_upper], "U")
        return (lo, up, None)

    def run_closure(self, clo, env, ctx=None):
        body = self.prog.body(clo.key)
        it = Interp(self.prog, Policy(), ctx=ctx, overrides={"range::BoundSet::new": self.new_stub})
        arg = mk_by_type(self.prog, body["locals"][2], env)
        val = it.call_closure(clo, [arg])
        sp = it.ret_span.get(clo.key)
        return self.cell_of(it, val), (self.prog.span_str(sp) if sp else None), it

    def run_hyphen(self, key, lo_shape, up_shape, ctx=None):
        prog = self.prog

        def answer(interp, p):
            while p.kind in ("context", "cut_err"):
                p = p.args[0]
            if p.kind == "opt":
                inner = gram.strip(p.args[0])
                if inner.kind == "ref" and inner.extra != "range::partial_version":
                    return NONE                                   # some other optional piece of syntax
                return NONE if lo_shape is None else some(mk_partial(prog, lo_shape, "lo:"))
            if p.kind == "ref" and p.extra == "range::partial_version":
                return mk_partial(prog, up_shape, "up:")          # a partial that is not optional: the upper side
            if p.kind == "seq":
                return tuple(answer(interp, a) for a in p.args)   # `(opt(partial), delimited(..), partial)` parsed as one tuple
            if p.kind == "map":
                return interp.call_value(p.extra, [answer(interp, p.args[0])])
            if p.kind in ("preceded", "terminated", "delimited"):
                # the value of the one element that is kept
                keep = {"preceded": 1, "terminated": 0, "delimited": 1}[p.kind]
                if keep < len(p.args) and isinstance(p.args[keep], gram.P):
                    return answer(interp, p.args[keep])
            return Tok("O", "tok")

        class Pol(Policy):
            def parse_next(pself, interp, p, inp, info):
                return ok(answer(interp, p))
        ov = {"range::BoundSet::new": self.new_stub,
              "range::partial_version": lambda interp, args, info: ok(mk_partial(prog, up_shape, "up:"))}
        it = Interp(prog, Pol(), ctx=ctx, overrides=ov)
        inp = Ptr(Cell(Ptr(Cell(Tok("T", "input", "", dom="input")))))
        val = it.call_body(key, [inp])
        if not (isinstance(val, Adt) and val.name == "std::result::Result" and val.variant == 0):
            raise Inconclusive("hyphen parser did not return Ok on the success path: %r" % (val,))
        sp = it.ret_span.get(key)
        it.last_hyphen_value = val.fields[0]
        return self.cell_of(it, val.fields[0]), (prog.span_str(sp) if sp else None), it


def top_map_closure(g, fn):
    """the closure of the outermost `map` of a grammar function"""
    p = g.get(fn)
    while p is not None and p.kind in ("context", "take", "cut_err"):
        p = p.args[0]
    if p is not None and p.kind == "map" and isinstance(p.extra, Clo):
        return p.extra
    return None
