"""Result collection shared by all property checks."""
import hashlib
import json
import os
import time


class Violation(object):
    def __init__(self, prop, key, what, where=None, expected=None, actual=None, example=None, rule=None):
        self.prop = prop
        self.key = key            # line-number free: <prop>|<function>|<rule>|<abstract input class>
        self.what = what
        self.where = where        # file:line of the construct blamed (informative, not part of the key)
        self.expected = expected
        self.actual = actual
        self.example = example
        self.rule = rule

    def to_json(self):
        return {k: v for k, v in self.__dict__.items() if v is not None}


class Report(object):
    def __init__(self, prop, tier):
        self.prop = prop
        self.tier = tier
        self.t0 = time.time()
        self.rules = {}           # rule -> {"instances": n, "failed": n, "floor": n}
        self.violations = {}      # key -> Violation
        self.samples = []
        self.paths = set()        # distinct (path signature) seen by the interpreter
        self.analysed = []        # what was analysed (functions, call sites …)
        self.notes = []
        self.inconclusive = []
        self.evaluations = 0

    def rule(self, name, floor=0, desc=""):
        r = self.rules.setdefault(name, {"instances": 0, "failed": 0, "floor": floor, "desc": desc})
        if floor > r["floor"]:
            r["floor"] = floor
        if desc and not r["desc"]:
            r["desc"] = desc
        return r

    def ok(self, rule, n=1):
        self.rule(rule)["instances"] += n
        self.evaluations += n

    def fail(self, rule, key, what, **kw):
        r = self.rule(rule)
        r["instances"] += 1
        r["failed"] += 1
        self.evaluations += 1
        full = "%s|%s" % (self.prop, key)
        if full not in self.violations:
            self.violations[full] = Violation(self.prop, full, what, rule=rule, **kw)
        else:
            v = self.violations[full]
            v.count = getattr(v, "count", 1) + 1

    def path(self, sig):
        self.paths.add(sig)

    def sample(self, s, cap=12):
        if len(self.samples) < cap:
            self.samples.append(s)

    def analysed_item(self, s):
        if s not in self.analysed:
            self.analysed.append(s)

    def inconc(self, what, where=None):
        self.inconclusive.append({"what": what, "where": where})

    def check_floors(self):
        """fail closed: a rule that matched fewer instances than counted by hand is a missing anchor"""
        missing = []
        for name, r in self.rules.items():
            if r["instances"] < r["floor"]:
                missing.append("%s: %d instances, floor %d" % (name, r["instances"], r["floor"]))
        return missing


def path_sig(interp):
    h = hashlib.blake2b(digest_size=8)
    for b in interp.branches:
        h.update(("%s:%d>%d;" % b).encode())
    return h.hexdigest()


def coverage(interp):
    """crate bodies an interpretation entered / had answered by a stub (for call-graph coverage arguments)"""
    return {"calls": sorted(set(interp.calls)), "stubbed": sorted(interp.stubbed)}
