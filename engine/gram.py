"""E-GRAM part 1: extraction of the winnow grammar from MIR, structural analyses on the trees
(nullability / progress of repetitions, literal tables, prefix shadowing, delimiter discipline).
The automata (language inclusion) live in peg.py."""
from .interp import (Adt, Cell, Clo, Ctx, Inconclusive, Interp, NONE, Panic, Policy, Ptr, StrV, Tok, explore, ok, some)
from .wmodels import P, parser_functions, show_p


class GramPolicy(Policy):
    def __init__(self, ctx):
        Policy.__init__(self)
        self.ctx = ctx
        self.steps = []
        # value-level guards inside a parser function (a parsed number against a limit) are not part of the grammar:
        # extraction follows the accepting path on a small representative (the guards have their own rules)
        self.witness = True
        # hand-written stream handling (`input.strip_prefix(..)`, `trim_start_matches(..)`, `*input = rest`): every text
        # derived from the stream gets a fresh name; only the newest one may be consumed further and it must be the
        # value of the stream whenever a parser runs and when the function returns Ok — otherwise what the function
        # consumes is not what the recorded steps say, and the extraction gives up
        self.stream_gen = 0

    def stream_name(self):
        return "input" if self.stream_gen == 0 else "input#%d" % self.stream_gen

    def fresh_stream(self):
        self.stream_gen += 1
        return Tok("T", self.stream_name(), "", dom="input")

    def check_current(self, interp, tok, what):
        if not (isinstance(tok, Tok) and tok.dom == "input" and tok.name == self.stream_name()):
            raise Inconclusive("%s on a text that is not the current stream position (%r)" % (what, tok), interp.where())

    def str_parse(self, interp, args, info):
        return ok(Tok("I", "parsed", 1, dom="parsed"))

    def stream_trim_start(self, interp, tok, pat, info):
        """`input.trim_start_matches(pat)` / `trim_start()`: consumes a (possibly empty) run of the pattern"""
        from .wmodels import to_class
        self.check_current(interp, tok, "trim_start")
        if pat is None:
            raise Inconclusive("trim_start (Unicode white space) on the stream", interp.where())
        cls = to_class(interp, pat)
        self.steps.append(("step", P("take_while", [cls], extra=(0, None))))
        return self.fresh_stream()

    def parse_next(self, interp, p, inp, info):
        targs = info.get("targs", [])
        n = len(self.steps) + 1
        if self.stream_gen:
            c_, path_ = interp.deref(inp)
            self.check_current(interp, interp.strip(interp.read(c_, path_)), "a parser run")

        def result():
            if len(targs) >= 3:
                return default_value(interp.prog, targs[2], "r%d" % n)
            return Tok("O", "r%d" % n)
        if p.kind == "opt":
            d = self.ctx.choose("opt-outcome", 2)
            self.steps.append(("opt-some" if d == 0 else "opt-none", p))
            if d == 1:
                return ok(NONE)
            r = result()
            return ok(r if (isinstance(r, Adt) and r.name == "std::option::Option") else some(r))
        self.steps.append(("step", p))
        return ok(result())

    # ---- peeking at the stream (`input.as_bytes().first()`, `input.chars().next()`, `input.starts_with(c)`) to choose a
    # branch: read as `peek(lit)` / `not(alt(lits))` steps in front of what the branch runs
    def stream_first(self, interp, tok, as_char=False):
        self.check_current(interp, tok, "a look at the first character")
        d = self.ctx.choose("first-byte-present", 2)
        if d == 1:
            self.steps.append(("step", P("prim", extra="eof")))
            return NONE
        self.steps.append(("step", P("peek", [P("prim", extra="any")])))
        t = Tok("C", "first-byte#%d" % len(self.steps), 0, dom="input-first-byte",
                extra={"decided": None, "excluded": set(), "at": len(self.steps)})
        return some(t if as_char else Ptr(Cell(t)))

    def first_byte_decide(self, interp, t, lits):
        st = t.extra
        if any((not isinstance(l, int)) or l >= 0x80 or l < 0 for l in lits):
            raise Inconclusive("first character of the stream compared with %r" % (lits,), interp.where())
        if st["decided"] is not None:
            return st["decided"]
        cands = [l for l in lits if l not in st["excluded"]]
        if not cands:
            return next(b for b in range(1, 128) if b not in st["excluded"])
        if len(self.steps) != st["at"]:
            raise Inconclusive("the first character of the stream is examined after further parsing", interp.where())
        d = self.ctx.choose("first-byte-is", len(cands) + 1)
        if d < len(cands):
            st["decided"] = cands[d]
            self.steps.append(("step", P("peek", [P("lit", extra=chr(cands[d]))])))
            st["at"] = len(self.steps)
            return cands[d]
        st["excluded"] |= set(cands)
        self.steps.append(("step", P("not", [P("alt", [P("lit", extra=chr(c)) for c in cands])])))
        st["at"] = len(self.steps)
        return next(b for b in range(1, 128) if b not in st["excluded"])

    def int_cmp(self, interp, a, b, op="Cmp"):
        for t, other, first in ((a, b, True), (b, a, False)):
            if isinstance(t, Tok) and t.dom == "input-first-byte":
                if isinstance(other, bool) or not isinstance(other, int) or op not in ("Eq", "Ne"):
                    raise Inconclusive("first character of the stream in a comparison %s with %r" % (op, other), interp.where())
                v = self.first_byte_decide(interp, t, [other])
                return (v, other) if first else (other, v)
        return Policy.int_cmp(self, interp, a, b, op)

    def stream_starts_with(self, interp, tok, pat):
        from .wmodels import to_class, CharSet
        self.check_current(interp, tok, "starts_with")
        if isinstance(pat, StrV):
            inner = P("lit", extra=pat.s)
        else:
            cls = to_class(interp, pat)
            if not isinstance(cls, CharSet):
                raise Inconclusive("starts_with with a predicate pattern on the stream", interp.where())
            inner = P("take_while", [cls], extra=(1, 1))
        d = self.ctx.choose("starts-with", 2)
        self.steps.append(("step", P("peek", [inner]) if d == 0 else P("not", [inner])))
        return d == 0

    def stream_strip_prefix(self, interp, tok, pat, info):
        """`input.strip_prefix(pat)` on the stream text: read as `opt(one of pat)` — both outcomes are explored; the
        returned remainder is a stream token, the caller is expected to store it back (`*input = rest`)."""
        from .wmodels import to_class, CharSet
        from .interp import ListV
        self.check_current(interp, tok, "strip_prefix")
        if isinstance(pat, StrV):
            inner = P("lit", extra=pat.s)
        else:
            cls = to_class(interp, pat)
            if not isinstance(cls, CharSet):
                raise Inconclusive("strip_prefix with a predicate pattern", interp.where())
            inner = P("take_while", [cls], extra=(1, 1))
        p = P("opt", [inner])
        d = self.ctx.choose("opt-outcome", 2)
        self.steps.append(("opt-some" if d == 0 else "opt-none", p))
        if d == 1:
            return NONE
        return some(self.fresh_stream())


def default_value(prog, tix, name="r", depth=0):
    """a representative abstract value of a type (used as the result of stubbed parser calls)"""
    from .interp import ListV
    t = prog.types[tix]
    k = t.get("k")
    if depth > 6:
        return Tok("O", name)
    if k == "int":
        return Tok("I", name, 1, dom=name)
    if k == "bool":
        return False
    if k == "tuple":
        return tuple(default_value(prog, x, "%s.%d" % (name, i), depth + 1) for i, x in enumerate(t["tys"]))
    if k == "array" and str(t.get("len", "")).isdigit() and int(t["len"]) <= 16:
        return ListV([default_value(prog, t["ty"], "%s[%d]" % (name, i), depth + 1) for i in range(int(t["len"]))])
    if k == "ref":
        inner = prog.types[t["ty"]]
        if inner.get("k") == "str":
            return Tok("T", name, "", dom=name)
        return Ptr(Cell(default_value(prog, t["ty"], name, depth + 1)))
    if k == "adt":
        n = t["adt"]
        if n == "std::result::Result":
            return ok(default_value(prog, t["args"][0], name, depth + 1))
        if n == "std::option::Option":
            return some(default_value(prog, t["args"][0], name, depth + 1))
        if n == "std::vec::Vec":
            # the list a stubbed parser returns: whether it is empty is not known to the extraction (both outcomes are
            # explored where the function asks), its elements are never looked at
            return Tok("L", name, (), dom="default-list")
        if n == "std::string::String":
            return Tok("T", name, "", dom=name)
        ad = prog.adts.get(n)
        if ad and ad.get("local") and ad["kind"] == "struct":
            ftys = ad["field_tys"][0]
            return Adt(n, 0, [default_value(prog, x, "%s.%s" % (name, fn), depth + 1)
                              for fn, x in zip(ad["variants"][0]["fields"], ftys)])
    return Tok("O", name)


def builds_parser(prog, key):
    """a crate function that returns a winnow combinator value (`fn f() -> impl Parser<…>`): a parser constructor, to
    be interpreted during extraction rather than stubbed"""
    b = prog.bodies[key]
    t = prog.types[b["locals"][0]]

    def winnow_value(t, depth=0):
        k = t.get("k")
        if k in ("closure", "fndef") and str(t.get("def", "")).startswith("winnow::"):
            return True
        if k == "adt" and (str(t.get("adt", "")).startswith("winnow::combinator::") or str(t.get("adt", "")).startswith("winnow::token::")
                           or str(t.get("adt", "")).startswith("winnow::parser::")):
            return True
        if k == "tuple" and depth < 3:
            return any(winnow_value(prog.types[x], depth + 1) for x in t["tys"])
        return False
    if winnow_value(t):
        return True
    # a helper that is handed the input stream (besides other arguments): a hand-written combinator
    for i in range(b["arg_count"]):
        if prog.ty_str(b["locals"][i + 1]).startswith("&mut &"):
            return True
    return False


def extract(prog):
    """dict: parser function key -> P tree. Imperative parsers (several parse_next calls sequenced by
    `?`) become P('paths', [P('seq', steps)…]) with opt outcomes recorded per path."""
    fns = parser_functions(prog)
    grammar = {}
    problems = {}
    for key in fns:
        paths = []
        try:
            def run(ctx, key=key):
                pol = GramPolicy(ctx)
                ov = {}
                for k2 in fns:
                    if k2 != key:
                        def stub(interp, args, info, k2=k2, pol=pol):
                            pol.steps.append(("step", P("ref", extra=k2)))
                            return default_value(prog, prog.body(k2)["locals"][0], "call:%s" % k2)
                        ov[k2] = stub
                for k3, b3 in prog.bodies.items():
                    # everything that is not grammar is irrelevant for the extraction: stub it by type
                    if k3 not in ov and k3 != key and b3["def_kind"] in ("Fn", "AssocFn") and not builds_parser(prog, k3):
                        def stub3(interp, args, info, k3=k3):
                            return default_value(prog, prog.body(k3)["locals"][0], "val:%s" % k3)
                        ov[k3] = stub3
                it = Interp(prog, pol, ctx=ctx, overrides=ov)
                outer = Cell(Ptr(Cell(Tok("T", "input", "", dom="input"))))
                inp = Ptr(outer)
                r = it.call_body(key, [inp])
                failed = isinstance(r, Adt) and r.name == "std::result::Result" and r.variant == 1
                if failed:
                    return None                  # under these outcomes the function fails: not a path of its language
                if pol.stream_gen:
                    cur = it.strip(outer.v)
                    if not (isinstance(cur, Tok) and cur.name == pol.stream_name()):
                        raise Inconclusive("the function returns Ok with the stream at %r, not at the last position it derived" % (cur,))
                return pol.steps
            for ctx, steps in explore(run, limit=64):
                if steps is not None:
                    paths.append(steps)
            if not paths:
                raise Inconclusive("no successful path found")
        except (Inconclusive, Panic) as e:
            problems[key] = str(e)
            continue
        if len(paths) == 1 and len(paths[0]) == 1 and paths[0][0][0] == "step":
            grammar[key] = paths[0][0][1]
        else:
            seqs = []
            for steps in paths:
                items = []
                for kind, p in steps:
                    if kind == "step":
                        items.append(p)
                    elif kind == "opt-some":
                        items.append(p.args[0])
                    else:
                        items.append(P("not", [p.args[0]]))
                seqs.append(P("seq", items))
            grammar[key] = P("paths", seqs)
    return grammar, problems


class LeafPolicy(Policy):
    """run a parser *function* with the result of its innermost parser supplied: the text-level combinators answer
    `leaf`; `map`/`try_map` wrappers apply their function to it; everything after the parse (the imperative rest of the
    function) is interpreted. This makes `Parser::map(p, f).parse_next(i)` and `let x = p.parse_next(i)?; g(x)` alike."""

    def __init__(self, leaf):
        Policy.__init__(self)
        self.leaf = leaf
        self.leaf_parsers = []

    def apply(self, interp, p):
        if p.kind in ("context", "cut_err"):
            return self.apply(interp, p.args[0])
        if p.kind == "map":
            return interp.call_value(p.extra, [self.apply(interp, p.args[0])])
        if p.kind == "try_map":
            r = interp.call_value(p.extra, [self.apply(interp, p.args[0])])
            if isinstance(r, Adt) and r.name == "std::result::Result" and r.variant == 0:
                return r.fields[0]
            raise Inconclusive("try_map function failed on the supplied leaf: %r" % (r,), interp.where())
        if p.kind == "void":
            self.apply(interp, p.args[0])
            return ()
        self.leaf_parsers.append(p)
        return self.leaf

    def parse_next(self, interp, p, inp, info):
        return ok(self.apply(interp, p))


def external_error_impls(prog):
    """[(body key, external error type as written)] of the crate's `FromExternalError<_, E2>` impls"""
    import re
    out = []
    for im in prog.impls:
        if im["trait"].endswith("FromExternalError") and "from_external_error" in im["items"]:
            tr = im["trait_ref"]
            i = tr.find("FromExternalError<")
            ty = ""
            if i >= 0:
                inner = tr[i + len("FromExternalError<"):]
                depth, cut = 0, None
                for j, ch in enumerate(inner):
                    if ch == "<":
                        depth += 1
                    elif ch == ">":
                        if depth == 0:
                            inner = inner[:j]
                            break
                        depth -= 1
                    elif ch == "," and depth == 0 and cut is None:
                        cut = j
                ty = inner[cut + 1:].strip() if cut is not None else ""
            out.append((im["items"]["from_external_error"], ty))
    return out


def convert_external_error(interp, inp, e):
    """what winnow's `try_map` does with `Err(e)` of its function: `ErrMode::Backtrack(E::from_external_error(input,
    ErrorKind::Verify, e))`, with the crate's own impl for the type of `e` interpreted"""
    prog = interp.prog
    ev = interp.strip(e)
    name = ev.name if isinstance(ev, Adt) else None
    cands = [k for k, ty in external_error_impls(prog) if name and (ty == name or ty.startswith(name + "<"))]
    if len(cands) != 1:
        raise Inconclusive("no unique FromExternalError impl for %r" % (name,), interp.where())
    r = interp.call_key(cands[0], [inp, Tok("O", "error-kind"), e])
    EM = next((k for k in prog.adts if k.startswith("winnow::error::ErrMode")), None)
    if EM is None:
        raise Inconclusive("ErrMode not found")
    from .interp import err
    return err(Adt(EM, prog.variant_index(EM, "Backtrack"), (r,)))


def run_with_leaf(prog, fn_key, leaf, ctx=None, overrides=None, setup=None):
    """interpret parser function `fn_key` with LeafPolicy; returns (value inside Ok, interp)"""
    pol = LeafPolicy(leaf)
    if setup is not None:
        setup(pol)
    it = Interp(prog, pol, ctx=ctx, overrides=overrides or {})
    inp = Ptr(Cell(Ptr(Cell(Tok("T", "input", "", dom="input")))))
    r = it.call_body(fn_key, [inp])
    if not (isinstance(r, Adt) and r.name == "std::result::Result" and r.variant == 0):
        raise Inconclusive("%s did not return Ok for a successful parse: %r" % (fn_key, r))
    if len(pol.leaf_parsers) != 1:
        raise Inconclusive("%s runs %d parsers, expected one" % (fn_key, len(pol.leaf_parsers)))
    return r.fields[0], it


# --------------------------------------------------------------------------- structural analyses

def transparent(p):
    return p.kind in ("map", "try_map", "context", "take", "value", "void", "verify", "verify_map", "cut_err")


def strip(p):
    while transparent(p):
        p = p.args[0]
    return p


def nullable(g, p, seen=()):
    """can the parser succeed without consuming input? (conservative: True when unsure)"""
    k = p.kind
    if transparent(p):
        return nullable(g, p.args[0], seen)
    if k == "lit":
        return len(p.extra) == 0
    if k == "prim":
        return p.extra in ("space0", "digit0", "eof", "rest", "multispace0")
    if k == "ref":
        if p.extra in seen or p.extra not in g:
            return True
        return nullable(g, g[p.extra], seen + (p.extra,))
    if k in ("seq", "preceded", "terminated", "delimited"):
        return all(nullable(g, a, seen) for a in p.args)
    if k in ("alt", "paths"):
        return any(nullable(g, a, seen) for a in p.args)
    if k in ("opt", "peek", "not"):
        return True
    if k in ("separated", "repeat"):
        lo = p.extra[0]
        return lo == 0 or nullable(g, p.args[0], seen)
    if k == "repeat_till":
        return p.extra[0] == 0 and nullable(g, p.args[1], seen)
    if k in ("take_while", "take_till"):
        return p.extra[0] == 0
    if k == "one_of":
        return False
    return True


def walk(p, f, path=()):
    f(p, path)
    for i, a in enumerate(p.args):
        if isinstance(a, P):
            walk(a, f, path + (i,))


def repetitions(g):
    """every repetition combinator call site with the argument that must make progress
    (winnow 0.6: `separated` asserts that the separator consumed; `repeat`/`repeat_till` that the element did)"""
    out = []
    for fn, tree in sorted(g.items()):
        def visit(p, path, fn=fn):
            if p.kind == "separated":
                out.append((fn, "separated", "separator", p.args[1], p))
            elif p.kind == "repeat":
                out.append((fn, "repeat", "element", p.args[0], p))
            elif p.kind == "repeat_till":
                out.append((fn, "repeat_till", "element", p.args[0], p))
        walk(tree, visit)
    return out


def literal_table(g, fn):
    """for `alt((literal(a).map(|_| K1), …))`: list of (text, closure) in order"""
    tree = strip(g[fn])
    if tree.kind != "alt":
        return None
    out = []
    for a in tree.args:
        while a.kind in ("context", "cut_err"):
            a = a.args[0]
        clo = a.extra if a.kind == "map" else (("value", a.extra) if a.kind == "value" else None)
        inner = strip(a)
        if inner.kind != "lit":
            return None
        out.append((inner.extra, clo))
    return out


def alt_literal_prefixes(g, p, seen=()):
    """set of literal prefixes a parser may start with, or None when unknown"""
    p = strip(p)
    if p.kind == "lit":
        return {p.extra}
    if p.kind == "ref" and p.extra in g and p.extra not in seen:
        return alt_literal_prefixes(g, g[p.extra], seen + (p.extra,))
    if p.kind == "alt":
        s = set()
        for a in p.args:
            x = alt_literal_prefixes(g, a, seen)
            if x is None:
                return None
            s |= x
        return s
    return None
