"""`parser.verify(pred)`: the predicate as a regular constraint on the matched text.

The predicate closure is interpreted on an opaque text; every question it asks about the text (starts_with / ends_with /
contains a literal pattern, is_empty) is answered both ways (Ctx.choose), consistently for a repeated question. The result
is a decision list: (answers) -> bool. Each question is a regular language over the class alphabet, so the set of texts
the predicate accepts is regular:   OR over accepting paths of AND over answers of (question or its complement).
Anything else the predicate does with the text makes the analysis inconclusive."""
from . import peg
from .interp import Cell, Inconclusive, Interp, ListV, Policy, Ptr, StrV, Tok, explore
from .models import MODELS

DOM = "verify-text"


def _patterns(interp, pat):
    if isinstance(pat, Ptr):
        pat = interp.load(pat)
    if isinstance(pat, bool):
        raise Inconclusive("verify(): boolean pattern", interp.where())
    if isinstance(pat, int):
        return (chr(pat),)
    if isinstance(pat, StrV):
        return (pat.s,)
    if isinstance(pat, ListV) and all(isinstance(x, int) and not isinstance(x, bool) for x in pat.items):
        return tuple(chr(x) for x in pat.items)
    if isinstance(pat, tuple) and all(isinstance(x, int) and not isinstance(x, bool) for x in pat):
        return tuple(chr(x) for x in pat)
    raise Inconclusive("verify(): pattern %r" % (pat,), interp.where())


def _is_text(interp, v):
    v = interp.strip(v)
    return isinstance(v, Tok) and v.dom == DOM


def _question(kind):
    def f(interp, args, info):
        if not _is_text(interp, args[0]):
            return NotImplemented
        pats = () if kind == "is_empty" else _patterns(interp, args[1])
        key = (kind, pats)
        if key not in interp.vans:
            interp.vans[key] = interp.ctx.choose("verify:" + kind, 2) == 1
            interp.vq.append((kind, pats, interp.vans[key]))
        return interp.vans[key]
    return f


_KEYS = {"starts_with": "core::str::<impl str>::starts_with", "ends_with": "core::str::<impl str>::ends_with",
         "contains": "core::str::<impl str>::contains", "is_empty": "core::str::<impl str>::is_empty"}


def analyse(prog, clo):
    """[(questions with answers, result bool)] for every path of the predicate"""
    ov = {}
    for kind, key in _KEYS.items():
        orig = MODELS.get(key)

        def m(interp, args, info, q=_question(kind), orig=orig, key=key):
            r = q(interp, args, info)
            if r is not NotImplemented:
                return r
            if orig is None:
                raise Inconclusive("no model for callee %s" % key, interp.where())
            return orig(interp, args, info)
        ov[key] = m

    def run(ctx):
        it = Interp(prog, Policy(), ctx=ctx, overrides=ov)
        it.vans, it.vq = {}, []
        r = it.call_value(clo, [Tok("T", "matched", "", dom=DOM)])
        if not isinstance(r, bool):
            raise Inconclusive("verify(): the predicate answered %r" % (r,))
        return tuple(it.vq), r
    return [res for _, res in explore(run, limit=256)]


def pattern_chars(paths):
    out = set()
    for qs, _ in paths:
        for kind, pats, _ans in qs:
            for p in pats:
                out.update(p)
    return out


def accepted_language(L, classes, class_of, paths):
    """DFA (marker-free words) of the texts the predicate accepts"""
    def word(s):
        parts = []
        for ch in s:
            c = class_of.get(ord(ch))
            if c is None:
                raise Inconclusive("verify(): pattern character %r outside the alphabet" % ch)
            if ("lit", ch) not in classes or classes[("lit", ch)] != {c}:
                raise Inconclusive("verify(): pattern character %r is not a class of its own" % ch)
            parts.append(L.sym({c}))
        return L.seq(*parts) if parts else L.eps()
    plain = peg.diff(L.sigma_star(), L.empty())           # all marker-free words

    def lang(kind, pats):
        if kind == "is_empty":
            return L.eps()
        r = L.empty()
        for p in pats:
            w = word(p)
            if kind == "starts_with":
                r = peg.union(r, L.concat(w, L.sigma_star()))
            elif kind == "ends_with":
                r = peg.union(r, L.concat(L.sigma_star(), w))
            else:
                r = peg.union(r, L.seq(L.sigma_star(), w, L.sigma_star()))
        return r
    acc = L.empty()
    for qs, res in paths:
        if not res:
            continue
        cur = plain
        for kind, pats, ans in qs:
            q = lang(kind, pats)
            cur = peg.inter(cur, q) if ans else peg.diff(cur, q)
        acc = peg.union(acc, cur)
    return peg.minimize(acc)
