"""Level-1 tables: the interval algebra of range.rs over opaque version tokens.

Reference semantics (written from the property statements, independent of the crate's
`Ord for Bound`): every bound denotes a *cut* in the total order of versions,

    Lower(Including v) = before(v)   Lower(Excluding v) = after(v)    Lower(Unbounded) = -inf
    Upper(Including v) = after(v)    Upper(Excluding v) = before(v)   Upper(Unbounded) = +inf

an interval is the set of versions between its two cuts, and it is non-empty as far as the code
may assume iff lower cut < upper cut. Intersection, difference, overlap and containment are the
obvious operations on pairs of cuts.

By the order-isomorphism argument (DESIGN §1, O1) the behaviour of code that touches versions
only through comparisons is determined by the weak ordering of its version arguments; the
tables below enumerate every constructor shape x every weak ordering.
"""
import itertools

from .interp import (Adt, BoxV, Cell, Inconclusive, Interp, ListV, NONE, Panic, Policy, Ptr, Tok, is_some, ordering,
                     ordering_to_int, show, some)
from .report import coverage, path_sig

BOUND = "range::Bound"
PRED = "range::Predicate"
BSET = "range::BoundSet"
BOUND_CMP = "<range::Bound as std::cmp::Ord>::cmp"
INF = 10 ** 6


def weak_orders(names):
    """all weak orderings of `names` as dicts name -> rank (ranks contiguous from 0)"""
    names = list(names)
    n = len(names)
    if n == 0:
        yield {}
        return
    seen = set()
    for ranks in itertools.product(range(n), repeat=n):
        used = sorted(set(ranks))
        if used != list(range(len(used))):
            continue
        if ranks in seen:
            continue
        seen.add(ranks)
        yield dict(zip(names, ranks))


def order_str(world):
    if not world:
        return "-"
    groups = {}
    for k, r in world.items():
        groups.setdefault(r, []).append(k)
    return "<".join("=".join(sorted(groups[r])) for r in sorted(groups))


class Env(object):
    def __init__(self, prog):
        self.prog = prog
        self.LOWER = prog.variant_index(BOUND, "Lower")
        self.UPPER = prog.variant_index(BOUND, "Upper")
        self.P = {"E": prog.variant_index(PRED, "Excluding"), "I": prog.variant_index(PRED, "Including"),
                  "U": prog.variant_index(PRED, "Unbounded")}
        self.Pinv = {v: k for k, v in self.P.items()}
        names = prog.field_names(BSET)
        self.f_lower = names.index("lower")
        self.f_upper = names.index("upper")
        self.nfields = len(names)
        # the bounds may be stored boxed (`Box<Bound>`) or inline: follow the declared field types
        ftys = prog.adts[BSET].get("field_tys", [[]])[0]
        self.boxed = [prog.ty_str(t).startswith("std::boxed::Box<") for t in ftys] if ftys else [True] * self.nfields

    # ---- construction of abstract inputs
    def bound(self, kind, pred, tok=None):
        p = Adt(PRED, self.P[pred], () if pred == "U" else (tok,))
        return Adt(BOUND, self.LOWER if kind == "L" else self.UPPER, (p,))

    def bset(self, lower, upper):
        if self.nfields > 2:
            # BoundSet carries more than its two bounds (a cached flag …): only its own constructor knows how to fill that
            # in. The constructor is tabled by T-NEW (emptiness, both bounds returned unchanged); when it declines the pair
            # the raw value below is used and the extra fields stay unset (reading one makes the analysis inconclusive)
            v = self._via_new(lower, upper)
            if v is not None:
                return v
        f = [None] * self.nfields
        f[self.f_lower] = BoxV(Cell(lower)) if self.boxed[self.f_lower] else lower
        f[self.f_upper] = BoxV(Cell(upper)) if self.boxed[self.f_upper] else upper
        return Adt(BSET, 0, f)

    def _via_new(self, lower, upper):
        key = "range::BoundSet::new"
        if not self.prog.has_body(key):
            return None
        it = Interp(self.prog, Policy(), overrides=dict(LEVEL1))
        try:
            r = it.call_body(key, [lower, upper])
        except (Inconclusive, Panic):
            return None
        if it.ctx.decisions:
            return None
        return it.strip(r.fields[0]) if is_some(r) else None

    # ---- decoding of results
    def dec_bound(self, interp, v):
        v = interp.strip(v)
        if not (isinstance(v, Adt) and v.name == BOUND):
            raise Inconclusive("expected Bound, got %r" % (v,))
        kind = "L" if v.variant == self.LOWER else "U"
        p = v.fields[0]
        pk = self.Pinv[p.variant]
        tok = p.fields[0] if pk != "U" else None
        if tok is not None and not isinstance(tok, Tok):
            raise Inconclusive("bound carries non-token %r" % (tok,))
        return (kind, pk, tok)

    def dec_set(self, interp, v):
        v = interp.strip(v)
        if not (isinstance(v, Adt) and v.name == BSET):
            raise Inconclusive("expected BoundSet, got %r" % (v,))
        return (self.dec_bound(interp, v.fields[self.f_lower]), self.dec_bound(interp, v.fields[self.f_upper]))


def cut(b):
    kind, pk, tok = b
    if pk == "U":
        return -1 if kind == "L" else INF
    r = tok.val
    if kind == "L":
        return 2 * r if pk == "I" else 2 * r + 1
    return 2 * r + 1 if pk == "I" else 2 * r


def bstr(b):
    kind, pk, tok = b
    return "%s.%s%s" % ("Lower" if kind == "L" else "Upper",
                        {"I": "Including", "E": "Excluding", "U": "Unbounded"}[pk],
                        "(%s)" % tok.name if tok is not None else "")


def sstr(s):
    return "[%s,%s]" % (bstr(s[0]), bstr(s[1]))


def example_text(s):
    """concrete comparator text for a decoded set (ranks become 1.0.0, 2.0.0, …)"""
    def ver(t):
        return "%d.0.0" % (t.val + 1)
    lo, up = s
    parts = []
    if lo[1] != "U":
        parts.append((">=" if lo[1] == "I" else ">") + ver(lo[2]))
    if up[1] != "U":
        parts.append(("<=" if up[1] == "I" else "<") + ver(up[2]))
    return " ".join(parts) or "*"


# --------------------------------------------------------------------------- Bound::cmp reference

def ref_cmp_cell(a, b):
    """Reference verdict for Bound::cmp(a, b): set of acceptable results.
    Same kind: the order of the cuts. Cross kind: the crate only ever asks `x < y`
    (`BoundSet::new`: lower < upper, `allows_any`: upper < lower), whose correct answer is
    cut(lower) < cut(upper) resp. cut(upper) <= cut(lower); results that `<` cannot tell apart are
    accepted (DESIGN §5 C07 T-ORD)."""
    ca, cb = cut(a), cut(b)
    if a[0] == b[0]:
        return {(ca > cb) - (ca < cb)}
    if a[0] == "L":                       # lower vs upper: Less iff cut(lower) < cut(upper)
        return {-1} if ca < cb else {0, 1}
    return {-1} if ca <= cb else {0, 1}   # upper vs lower: Less iff cut(upper) <= cut(lower)


def cell_id(a, b):
    if a[2] is not None and b[2] is not None:
        rel = "<" if a[2].val < b[2].val else ("=" if a[2].val == b[2].val else ">")
    else:
        rel = "-"
    def s(x):
        return "%s.%s" % ("Lower" if x[0] == "L" else "Upper", {"I": "Including", "E": "Excluding", "U": "Unbounded"}[x[1]])
    return "(%s, %s, v1%sv2)" % (s(a), s(b), rel)


# --------------------------------------------------------------------------- running crate code

def vtok(name, rank):
    return Tok("V", name, rank, dom="version")


def _l1(prim, key):
    """level-1 primitive: on opaque version tokens the comparison is answered by the world (justified
    by the level-0 tables of C04); on structured versions the crate body is interpreted."""
    def f(interp, args, info):
        vals = [interp.strip(a) for a in args]
        if all(isinstance(v, Tok) and v.kind == "V" for v in vals):
            return prim(interp, vals)
        return interp.call_body(key, args)
    return f


def _p_cmp(interp, v):
    interp.events.append(("vcmp", v[0].name, v[1].name))
    return ordering((v[0].val > v[1].val) - (v[0].val < v[1].val))


def _p_pcmp(interp, v):
    return some(_p_cmp(interp, v))


def _p_eq(interp, v):
    interp.events.append(("veq", v[0].name, v[1].name))
    return v[0].val == v[1].val


def _p_clone(interp, v):
    return v[0]


LEVEL1 = {
    "<Version as std::cmp::Ord>::cmp": _l1(_p_cmp, "<Version as std::cmp::Ord>::cmp"),
    "<Version as std::cmp::PartialOrd>::partial_cmp": _l1(_p_pcmp, "<Version as std::cmp::PartialOrd>::partial_cmp"),
    "<Version as std::cmp::PartialEq>::eq": _l1(_p_eq, "<Version as std::cmp::PartialEq>::eq"),
    "<Version as std::clone::Clone>::clone": _l1(_p_clone, "<Version as std::clone::Clone>::clone"),
}


class Run(object):
    """one interpreter run with the interval-level hooks installed"""

    def __init__(self, prog, env, std_variant="lt", extra_overrides=None, ctx=None):
        self.prog = prog
        self.env = env
        self.cells = []        # Bound::cmp cells evaluated: (cell_id, result, ok, ret_span)
        self.inv_lu = []       # BoundSet::new calls violating INV-LU
        self.new_calls = 0
        ov = {BOUND_CMP: self._cmp_hook, "range::BoundSet::new": self._new_hook}
        ov.update(LEVEL1)
        if extra_overrides:
            ov.update(extra_overrides)
        self.interp = Interp(prog, Policy(), overrides=ov, ctx=ctx)
        self.interp.std_variant = std_variant

    def _cmp_hook(self, interp, args, info):
        a = self.env.dec_bound(interp, args[0])
        b = self.env.dec_bound(interp, args[1])
        r = interp.call_body(BOUND_CMP, args)
        ri = ordering_to_int(r)
        sp = interp.ret_span.get(BOUND_CMP)
        self.cells.append((cell_id(a, b), ri, ri in ref_cmp_cell(a, b), interp.prog.span_str(sp) if sp else None))
        return r

    def _new_hook(self, interp, args, info):
        self.new_calls += 1
        try:
            a = self.env.dec_bound(interp, args[0])
            b = self.env.dec_bound(interp, args[1])
            if a[0] != "L" or b[0] != "U":
                self.inv_lu.append((interp.where(), bstr(a), bstr(b)))
        except Inconclusive:
            pass
        return interp.call_body("range::BoundSet::new", args)

    def call(self, key, args):
        """returns ('ok', value) | ('panic', Panic) | ('inconclusive', Inconclusive)"""
        try:
            return ("ok", self.interp.call_body(key, args))
        except Panic as p:
            return ("panic", p)
        except Inconclusive as e:
            return ("inconclusive", e)


SHAPES = ("U", "I", "E")


def set_shapes():
    """(lower pred, upper pred) x token names"""
    for lo in SHAPES:
        for up in SHAPES:
            yield lo, up


def two_set_rows():
    """all (shape a, shape b, world) with a and b satisfying INV-LU and INV-NE"""
    for (alo, aup) in set_shapes():
        for (blo, bup) in set_shapes():
            names = []
            if alo != "U":
                names.append("al")
            if aup != "U":
                names.append("ah")
            if blo != "U":
                names.append("bl")
            if bup != "U":
                names.append("bh")
            for w in weak_orders(names):
                a = (("L", alo, vtok("al", w["al"]) if alo != "U" else None),
                     ("U", aup, vtok("ah", w["ah"]) if aup != "U" else None))
                b = (("L", blo, vtok("bl", w["bl"]) if blo != "U" else None),
                     ("U", bup, vtok("bh", w["bh"]) if bup != "U" else None))
                if cut(a[0]) < cut(a[1]) and cut(b[0]) < cut(b[1]):
                    yield a, b, w


def build_set(env, s):
    lo, up = s
    return env.bset(env.bound("L", lo[1], lo[2]), env.bound("U", up[1], up[2]))


def row_key(a, b, w):
    return "self=%s other=%s order:%s" % (sstr(a), sstr(b), order_str(w))


def same_bound(x, y):
    return x[0] == y[0] and x[1] == y[1] and ((x[2] is None and y[2] is None) or
                                              (x[2] is not None and y[2] is not None and x[2].name == y[2].name))


def ref_intersect(a, b):
    lo = max(cut(a[0]), cut(b[0]))
    up = min(cut(a[1]), cut(b[1]))
    return None if lo >= up else (lo, up)


def ref_difference(a, b):
    """list of (lower cut, upper cut) pieces of a \\ b"""
    pieces = []
    l1, u1 = cut(a[0]), min(cut(a[1]), cut(b[0]))
    if l1 < u1:
        pieces.append((l1, u1))
    l2, u2 = max(cut(a[0]), cut(b[1])), cut(a[1])
    if l2 < u2:
        pieces.append((l2, u2))
    return pieces


def eval_row(prog, env, op, a, b, w, variant, prefix=()):
    """Interpret one operation on one abstract row; returns a dict describing the outcome and its
    comparison with the reference."""
    from .interp import Ctx
    cx = Ctx(prefix)
    run = Run(prog, env, variant, ctx=cx)
    A, B = build_set(env, a), build_set(env, b)
    pa, pb = Ptr(Cell(A)), Ptr(Cell(B))
    key = {"intersect": "range::BoundSet::intersect", "difference": "range::BoundSet::difference",
           "allows_any": "range::BoundSet::allows_any", "allows_all": "range::BoundSet::allows_all"}[op]
    status, val = run.call(key, [pa, pb])
    it = run.interp
    out = {"op": op, "key": row_key(a, b, w), "variant": variant, "status": status, "sig": path_sig(it), "ctx": cx,
           "cells": run.cells, "inv_lu": run.inv_lu, "steps": it.steps, "cov": coverage(it),
           "example": "%s  vs  %s" % (example_text(a), example_text(b)), "problems": []}
    sp = it.ret_span.get(key)
    out["ret"] = prog.span_str(sp) if sp else None
    if status == "panic":
        out["problems"].append(("panic", "%s at %s" % (val.kind, val.where)))
        out["panic_where"] = val.where
        return out
    if status == "inconclusive":
        out["inconclusive"] = (val.reason, val.where)
        return out
    try:
        if op == "intersect":
            exp = ref_intersect(a, b)
            if not is_some(val):
                out["actual"] = "None"
                if exp is not None:
                    out["problems"].append(("none-but-nonempty", "expected cuts %r" % (exp,)))
            else:
                r = env.dec_set(it, val.fields[0])
                out["actual"] = sstr(r)
                if r[0][0] != "L" or r[1][0] != "U":
                    out["problems"].append(("inv-lu", "result %s" % sstr(r)))
                elif exp is None:
                    out["problems"].append(("some-but-empty", "result %s although the operands do not overlap" % sstr(r)))
                else:
                    if (cut(r[0]), cut(r[1])) != exp:
                        out["problems"].append(("wrong-cuts", "result %s, expected lower=%s upper=%s" % (
                            sstr(r), "max of lower bounds", "min of upper bounds")))
                    if not (same_bound(r[0], a[0]) or same_bound(r[0], b[0])):
                        out["problems"].append(("provenance", "lower bound %s is not an operand's bound" % bstr(r[0])))
                    if not (same_bound(r[1], a[1]) or same_bound(r[1], b[1])):
                        out["problems"].append(("provenance", "upper bound %s is not an operand's bound" % bstr(r[1])))
            out["expected"] = "None" if exp is None else "cuts %r" % (exp,)
        elif op == "difference":
            exp = ref_difference(a, b)
            out["expected"] = "pieces %r" % (exp,)
            v0 = it.strip(val)
            if isinstance(v0, ListV):
                # `Vec<BoundSet>` instead of `Option<Vec<BoundSet>>`: nothing left is the empty list
                val = some(v0) if v0.items else NONE
            if not is_some(val):
                out["actual"] = "None"
                if exp:
                    out["problems"].append(("none-but-remainder", "expected pieces %r" % (exp,)))
            else:
                lst = it.strip(val.fields[0])
                if not isinstance(lst, ListV):
                    raise Inconclusive("difference returned %r" % (lst,))
                pieces = [env.dec_set(it, x) for x in lst.items]
                out["actual"] = "[" + ", ".join(sstr(p) for p in pieces) + "]"
                got = []
                for p in pieces:
                    if p[0][0] != "L" or p[1][0] != "U":
                        out["problems"].append(("inv-lu", "piece %s" % sstr(p)))
                    elif not cut(p[0]) < cut(p[1]):
                        out["problems"].append(("inv-ne", "empty piece %s" % sstr(p)))
                    got.append((cut(p[0]), cut(p[1])))
                if sorted(got) != sorted(exp):
                    out["problems"].append(("wrong-pieces", "got cuts %r, expected %r" % (sorted(got), sorted(exp))))
        elif op == "allows_any":
            exp = ref_intersect(a, b) is not None
            out["expected"], out["actual"] = exp, val
            if not isinstance(val, bool):
                raise Inconclusive("allows_any returned %r" % (val,))
            if val != exp:
                out["problems"].append(("overlap", "answered %s, the intervals %s" % (val, "overlap" if exp else "are disjoint")))
        elif op == "allows_all":
            exp = cut(a[0]) <= cut(b[0]) and cut(b[1]) <= cut(a[1])
            out["expected"], out["actual"] = exp, val
            if not isinstance(val, bool):
                raise Inconclusive("allows_all returned %r" % (val,))
            if val != exp:
                out["problems"].append(("containment", "answered %s, other is %scontained in self" % (val, "" if exp else "not ")))
    except Inconclusive as e:
        out["inconclusive"] = (e.reason, e.where)
    return out


# --------------------------------------------------------------------------- tables

def table_cmp(prog, env):
    """the complete table of Bound::cmp: 6x6 shapes x order of the two versions"""
    rows = []
    kinds = [("L", "U"), ("L", "I"), ("L", "E"), ("U", "U"), ("U", "I"), ("U", "E")]
    for ka in kinds:
        for kb in kinds:
            names = []
            if ka[1] != "U":
                names.append("v1")
            if kb[1] != "U":
                names.append("v2")
            for w in weak_orders(names):
                a = (ka[0], ka[1], vtok("v1", w["v1"]) if ka[1] != "U" else None)
                b = (kb[0], kb[1], vtok("v2", w["v2"]) if kb[1] != "U" else None)
                run = Run(prog, env)
                status, val = run.call(BOUND_CMP, [Ptr(Cell(env.bound(*a))), Ptr(Cell(env.bound(*b)))])
                row = {"cell": cell_id(a, b), "status": status, "sig": path_sig(run.interp), "cov": coverage(run.interp)}
                if status == "ok":
                    ri = ordering_to_int(val)
                    row["result"] = ri
                    row["accept"] = sorted(ref_cmp_cell(a, b))
                    row["ok"] = ri in ref_cmp_cell(a, b)
                    sp = run.interp.ret_span.get(BOUND_CMP)
                    row["where"] = prog.span_str(sp) if sp else None
                else:
                    row["ok"] = False
                    row["error"] = str(val)
                rows.append(row)
    return rows


def table_new(prog, env):
    """BoundSet::new over all Lower x Upper shapes x orderings"""
    rows = []
    for lo in SHAPES:
        for up in SHAPES:
            names = [n for n, s in (("lo", lo), ("up", up)) if s != "U"]
            for w in weak_orders(names):
                a = ("L", lo, vtok("lo", w["lo"]) if lo != "U" else None)
                b = ("U", up, vtok("up", w["up"]) if up != "U" else None)
                run = Run(prog, env)
                status, val = run.call("range::BoundSet::new", [env.bound(*a), env.bound(*b)])
                row = {"key": "lower=%s upper=%s order:%s" % (bstr(a), bstr(b), order_str(w)), "status": status,
                       "sig": path_sig(run.interp), "cells": run.cells, "problems": [], "cov": coverage(run.interp)}
                sp = run.interp.ret_span.get("range::BoundSet::new")
                row["ret"] = prog.span_str(sp) if sp else None
                exp_some = cut(a) < cut(b)
                if status == "ok":
                    if is_some(val) != exp_some:
                        row["problems"].append(("emptiness", "returned %s, interval is %s" % (
                            "Some" if is_some(val) else "None", "non-empty" if exp_some else "empty")))
                    elif is_some(val):
                        try:
                            r = env.dec_set(run.interp, val.fields[0])
                            if not (same_bound(r[0], a) and same_bound(r[1], b)):
                                row["problems"].append(("wiring", "result %s" % sstr(r)))
                        except Inconclusive as e:
                            row["inconclusive"] = (e.reason, e.where)
                elif status == "panic":
                    row["problems"].append(("panic", str(val)))
                else:
                    row["inconclusive"] = (val.reason, val.where)
                rows.append(row)
    return rows


def _worker(args):
    op, chunk, variants = args
    from . import facts as _f
    prog, env = _STATE["prog"], _STATE["env"]
    out = []
    for (a, b, w) in chunk:
        for v in variants:
            stack = [[]]
            n = 0
            while stack and n < 64:
                prefix = stack.pop()
                r = eval_row(prog, env, op, a, b, w, v, prefix)
                n += 1
                cx = r.pop("ctx")
                if cx.decisions:
                    r["key"] += " free-fields:" + "".join(str(d) for d in cx.decisions)
                out.append(r)
                for i in range(len(cx.decisions) - 1, len(prefix) - 1, -1):
                    for alt in range(cx.arity[i] - 1, 0, -1):
                        stack.append(cx.decisions[:i] + [alt])
    return out


_STATE = {}


def table_op(prog, env, op, variants=("lt",), procs=None):
    """evaluate `op` on every two-set row; parallel over processes (fork)"""
    import multiprocessing as mp
    import os
    rows = list(two_set_rows())
    _STATE["prog"], _STATE["env"] = prog, env
    procs = procs or min(16, os.cpu_count() or 1)
    if procs <= 1:
        return _worker((op, rows, variants))
    n = max(1, len(rows) // (procs * 4))
    chunks = [(op, rows[i:i + n], variants) for i in range(0, len(rows), n)]
    ctx = mp.get_context("fork")
    with ctx.Pool(procs) as pool:
        res = pool.map(_worker, chunks)
    return [r for part in res for r in part]


# --------------------------------------------------------------------------- range level with concrete interval shapes

def _weak_orders_fast(names):
    """weak orderings via ordered set partitions (faster than filtering products for 6 names)"""
    names = list(names)
    if not names:
        yield {}
        return
    first, rest = names[0], names[1:]
    for w in _weak_orders_fast(rest):
        k = (max(w.values()) + 1) if w else 0
        # put `first` into an existing block
        for r in range(k):
            d = dict(w)
            d[first] = r
            yield d
        # or into a new block at position p (0..k)
        for p in range(k + 1):
            d = {n: (r + 1 if r >= p else r) for n, r in w.items()}
            d[first] = p
            yield d


RANGE_SHAPES_QUICK = [("I", "I"), ("E", "E")]
RANGE_SHAPES_THOROUGH = [("I", "I"), ("E", "E"), ("I", "E"), ("E", "I")]


def range_cases(na, nb, shapes):
    """(A, B, world): lists of decoded intervals over tokens a0l,a0h,…,b0l,…; every interval bounded on both sides,
    one shape for all intervals of a case"""
    names = []
    for i in range(na):
        names += ["a%dl" % i, "a%dh" % i]
    for i in range(nb):
        names += ["b%dl" % i, "b%dh" % i]
    for (lo, up) in shapes:
        for w in _weak_orders_fast(names):
            A = [(("L", lo, vtok("a%dl" % i, w["a%dl" % i])), ("U", up, vtok("a%dh" % i, w["a%dh" % i]))) for i in range(na)]
            B = [(("L", lo, vtok("b%dl" % i, w["b%dl" % i])), ("U", up, vtok("b%dh" % i, w["b%dh" % i]))) for i in range(nb)]
            if all(cut(s[0]) < cut(s[1]) for s in A + B):
                yield A, B, w


def _segments(sets_list):
    """membership vector over the elementary segments of the cut line"""
    cuts = sorted(set(c for sets in sets_list for s in sets for c in (cut(s[0]), cut(s[1]))))
    return cuts


def _member(sets, lo, hi):
    return any(cut(s[0]) <= lo and hi <= cut(s[1]) for s in sets)


def eval_range_case(prog, env, op, A, B, w):
    run = Run(prog, env, "lt")
    RA = Adt("range::Range", 0, (ListV([build_set(env, s) for s in A]),))
    RB = Adt("range::Range", 0, (ListV([build_set(env, s) for s in B]),))
    status, val = run.call("range::Range::" + op, [Ptr(Cell(RA)), Ptr(Cell(RB))])
    it = run.interp
    out = {"op": op, "key": "A=%s B=%s order:%s" % ("||".join(sstr(s) for s in A), "||".join(sstr(s) for s in B), order_str(w)),
           "status": status, "sig": path_sig(it), "problems": [], "na": len(A), "nb": len(B),
           "example": "%s  vs  %s" % (" || ".join(example_text(s) for s in A), " || ".join(example_text(s) for s in B))}
    sp = it.ret_span.get("range::Range::" + op)
    out["ret"] = prog.span_str(sp) if sp else None
    if status == "panic":
        out["problems"].append(("panic", str(val)))
        return out
    if status == "inconclusive":
        out["inconclusive"] = (val.reason, val.where)
        return out
    cuts = sorted(set(c for s in A + B for c in (cut(s[0]), cut(s[1]))))
    segs = list(zip(cuts, cuts[1:]))
    inA = [_member(A, lo, hi) for lo, hi in segs]
    inB = [_member(B, lo, hi) for lo, hi in segs]
    try:
        if op in ("intersect", "difference"):
            exp = [a and b for a, b in zip(inA, inB)] if op == "intersect" else [a and not b for a, b in zip(inA, inB)]
            if not is_some(val):
                got = [False] * len(segs)
                res = []
            else:
                rng = it.strip(val.fields[0])
                lst = it.strip(rng.fields[0])
                res = [env.dec_set(it, x) for x in lst.items]
                for r in res:
                    if r[0][0] != "L" or r[1][0] != "U" or not cut(r[0]) < cut(r[1]):
                        out["problems"].append(("invalid-interval", sstr(r)))
                # result cuts may not be on the operand grid when wrong: refine the grid
                allcuts = sorted(set(cuts + [c for r in res for c in (cut(r[0]), cut(r[1]))]))
                segs2 = list(zip(allcuts, allcuts[1:]))
                got = [_member(res, lo, hi) for lo, hi in segs2]
                inA2 = [_member(A, lo, hi) for lo, hi in segs2]
                inB2 = [_member(B, lo, hi) for lo, hi in segs2]
                exp = [a and b for a, b in zip(inA2, inB2)] if op == "intersect" else [a and not b for a, b in zip(inA2, inB2)]
            out["actual"] = "None" if not is_some(val) else " || ".join(sstr(r) for r in res)
            if got != exp:
                out["problems"].append(("wrong-set", "the result does not cover exactly the expected part of the version line"))
            if is_some(val) and not any(exp):
                out["problems"].append(("some-but-empty", "Some returned for an empty set"))
            if not is_some(val) and any(exp):
                out["problems"].append(("none-but-nonempty", "None returned although versions remain"))
        elif op == "allows_any":
            exp = any(a and b for a, b in zip(inA, inB))
            out["actual"], out["expected"] = val, exp
            if val != exp:
                out["problems"].append(("overlap", "answered %s, the ranges %s" % (val, "overlap" if exp else "are disjoint")))
        elif op == "allows_all":
            out["actual"] = val
            if len(B) == 1 and val is True and not all(a or not b for a, b in zip(inA, inB)):
                out["problems"].append(("containment", "answered true although B is not inside A"))
    except Inconclusive as e:
        out["inconclusive"] = (e.reason, e.where)
    return out


def _range_worker(args):
    op, chunk = args
    prog, env = _STATE["prog"], _STATE["env"]
    return [eval_range_case(prog, env, op, A, B, w) for (A, B, w) in chunk]


def range_table(prog, env, op, sizes, shapes, procs=None, stride=1):
    import multiprocessing as mp
    import os
    cases = []
    for (na, nb) in sizes:
        cs = list(range_cases(na, nb, shapes))
        cases += cs[::stride]
    _STATE["prog"], _STATE["env"] = prog, env
    procs = procs or min(16, os.cpu_count() or 1)
    n = max(1, len(cases) // (procs * 8))
    chunks = [(op, cases[i:i + n]) for i in range(0, len(cases), n)]
    ctx = mp.get_context("fork")
    with ctx.Pool(procs) as pool:
        res = pool.map(_range_worker, chunks)
    return [r for part in res for r in part]
