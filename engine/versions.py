"""Level-0 tables: functions that look inside a `Version` (cmp, eq, hash, diff, the prerelease gate).

Abstract versions are `Version { major, minor, patch, build, pre_release }` aggregates whose
numeric fields are integer tokens (comparison domain = the field name, so only same-field
comparisons and comparisons with the literal 0 are admitted) and whose identifier lists are list
tokens (emptiness, length-against-0, equality and lexicographic order only). Worlds are complete
enumerations of the weak orderings of those atoms; references are written from SemVer 2.0.0 §11
and node-semver's diff().
"""
import itertools

from .interp import Adt, Cell, Inconclusive, Interp, Panic, Policy, Ptr, Tok, is_some, ordering_to_int
from .intervals import weak_orders
from .report import path_sig

VERSION = "Version"
FIELDS = ("major", "minor", "patch")


def vfields(prog):
    return prog.field_names(VERSION)


def mk_version(prog, name, nums, pre, build):
    """nums: dict field -> representative int; pre/build: tuples of ints (identifier lists)"""
    names = vfields(prog)
    f = [None] * len(names)
    for fn in FIELDS:
        f[names.index(fn)] = Tok("I", "%s.%s" % (name, fn), nums[fn], dom=fn)
    f[names.index("pre_release")] = Tok("L", "%s.pre_release" % name, tuple(pre), dom="pre_release")
    f[names.index("build")] = Tok("L", "%s.build" % name, tuple(build), dom="build")
    return Adt(VERSION, 0, f)


def ref_cmp(a, b):
    """SemVer 2.0.0 §11 on representatives: a, b = (nums dict, pre tuple)"""
    for fn in FIELDS:
        if a[0][fn] != b[0][fn]:
            return -1 if a[0][fn] < b[0][fn] else 1
    pa, pb = a[1], b[1]
    if not pa and not pb:
        return 0
    if not pa:
        return 1          # a release is above its prereleases
    if not pb:
        return -1
    return (pa > pb) - (pa < pb)   # identifier lists: lexicographic, strict prefix lower (tuples of ints)


# list valuations for two lists: (empty?, empty?, order when both non-empty)
LIST2 = [((), ()), ((), (0,)), ((0,), ()), ((0,), (1,)), ((0,), (0,)), ((1,), (0,)), ((0,), (0, 0)), ((0, 0), (0,))]


def two_version_worlds(with_zero=False):
    """worlds for (a, b): per numeric field a weak order of (a.f, b.f) — together with the constant 0
    when `with_zero` — x identifier-list valuations x build same/different"""
    if with_zero:
        per_field = [(0, 0), (0, 1), (1, 0), (1, 1), (1, 2), (2, 1)]
    else:
        per_field = [(0, 0), (0, 1), (1, 0)]
    for ma in per_field:
        for mi in per_field:
            for pa in per_field:
                for (la, lb) in LIST2:
                    for (ba, bb) in (((), ()), ((), (0,)), ((0,), (1,))):
                        a = ({"major": ma[0], "minor": mi[0], "patch": pa[0]}, la, ba)
                        b = ({"major": ma[1], "minor": mi[1], "patch": pa[1]}, lb, bb)
                        yield a, b


def world_str(a, b):
    def rel(x, y):
        return "<" if x < y else ("=" if x == y else ">")
    def z(x):
        return "0" if x == 0 else "+"
    parts = ["%s:a%sb(%s,%s)" % (fn, rel(a[0][fn], b[0][fn]), z(a[0][fn]), z(b[0][fn])) for fn in FIELDS]
    pa, pb = a[1], b[1]
    parts.append("pre:a=%s,b=%s%s" % ("none" if not pa else "some", "none" if not pb else "some",
                                     ",a%sb" % rel(pa, pb) if pa and pb else ""))
    parts.append("build:%s" % ("same" if a[2] == b[2] else "differs"))
    return " ".join(parts)


def example_version(v):
    s = "%d.%d.%d" % (v[0]["major"], v[0]["minor"], v[0]["patch"])
    if v[1]:
        s += "-" + ".".join(str(x) for x in v[1])
    if v[2]:
        s += "+" + ".".join(str(x) for x in v[2])
    return s


def mk_version_structured(prog, name, nums, pre, build):
    """as mk_version, with the identifier lists as real lists of `Identifier::Numeric(token)` (for code that walks
    or slices the lists instead of comparing them whole)"""
    from .interp import ListV
    names = vfields(prog)
    NUM = prog.variant_index("Identifier", "Numeric")
    f = [None] * len(names)
    for fn in FIELDS:
        f[names.index(fn)] = Tok("I", "%s.%s" % (name, fn), nums[fn], dom=fn)
    for field, xs in (("pre_release", pre), ("build", build)):
        f[names.index(field)] = ListV([Adt("Identifier", NUM, (Tok("I", "%s.%s%d" % (name, field, i), x, dom="ident"),))
                                       for i, x in enumerate(xs)])
    return Adt(VERSION, 0, f)


# identifier-list pairs for the structured fallback: every weak order of up to three numeric identifiers per side,
# lengths 0..3, so that common prefixes, strict prefixes and first differences at each position occur
LISTS_S = [(), (0,), (1,), (0, 0), (0, 1), (1, 0), (0, 0, 0), (0, 0, 1), (0, 1, 0)]


def two_version_worlds_structured():
    per_field = [(0, 0), (0, 1), (1, 0)]
    for ma in per_field:
        for mi in per_field:
            for pa in per_field:
                for la in LISTS_S:
                    for lb in LISTS_S:
                        for (ba, bb) in (((), ()), ((), (0,))):
                            a = ({"major": ma[0], "minor": mi[0], "patch": pa[0]}, la, ba)
                            b = ({"major": ma[1], "minor": mi[1], "patch": pa[1]}, lb, bb)
                            yield a, b


def world_str_structured(a, b):
    def rel(x, y):
        return "<" if x < y else ("=" if x == y else ">")
    parts = ["%s:a%sb" % (fn, rel(a[0][fn], b[0][fn])) for fn in FIELDS]
    pa, pb = a[1], b[1]
    n = 0
    while n < len(pa) and n < len(pb) and pa[n] == pb[n]:
        n += 1
    if n == len(pa) and n == len(pb):
        d = "equal lists"
    elif n == len(pa):
        d = "a is a strict prefix of b"
    elif n == len(pb):
        d = "b is a strict prefix of a"
    else:
        d = "first difference a%sb" % rel(pa[n], pb[n])
    parts.append("pre:a=%s,b=%s,%s" % ("none" if not pa else "some", "none" if not pb else "some", d))
    parts.append("build:%s" % ("same" if a[2] == b[2] else "differs"))
    return " ".join(parts)


def witness_worlds(values=(0, 1, 2)):
    """joint small valuations of all six numeric atoms x a few list valuations: each stands for its class of joint
    orderings (fields compared across each other or with literals). Witness-only: see Policy.witness."""
    lists = [((), ()), ((), (0,)), ((0,), ()), ((0,), (0,)), ((0,), (1,)), ((1,), (0,))]
    for va in itertools.product(values, repeat=3):
        for vb in itertools.product(values, repeat=3):
            for la, lb in lists:
                yield (dict(zip(FIELDS, va)), la, ()), (dict(zip(FIELDS, vb)), lb, ())


def run2(prog, key, a, b, overrides=None, structured=False, witness=False, retry_structured=True):
    """interpret `key(&a, &b)` on two abstract versions"""
    pol = Policy()
    pol.witness = witness
    mk = mk_version
    if structured:
        mk = mk_version_structured
    it = Interp(prog, pol, overrides=overrides or {})
    va = mk(prog, "a", a[0], a[1], a[2])
    vb = mk(prog, "b", b[0], b[1], b[2])
    try:
        r = it.call_body(key, [Ptr(Cell(va)), Ptr(Cell(vb))])
        return "ok", r, it
    except Panic as p:
        return "panic", p, it
    except Inconclusive as e:
        if not structured and retry_structured:
            # code that walks the identifier lists instead of comparing them whole: the same world with the lists
            # as real lists of numeric identifier tokens (the list valuations of the worlds are such lists)
            return run2(prog, key, a, b, overrides=overrides, structured=True, witness=witness, retry_structured=False)
        return "inconclusive", e, it


def run_hash(prog, a, structured=False):
    it = Interp(prog, Policy())
    va = (mk_version_structured if structured else mk_version)(prog, "a", a[0], a[1], a[2])
    hasher = Ptr(Cell(Tok("O", "hasher")))
    try:
        it.call_body("<Version as std::hash::Hash>::hash", [Ptr(Cell(va)), hasher])
    except Inconclusive as e:
        if not structured:
            # a hash that walks the identifier lists (e.g. through Display): the same world with real lists
            return run_hash(prog, a, structured=True)
        return "inconclusive", e, it
    fed = [e[1] for e in it.events if e[0] == "hash"]
    return "ok", fed, it


# --------------------------------------------------------------------------- diff (node-semver 7.6.2 functions/diff.js)

DIFF_NAMES = ["Major", "Minor", "Patch", "PreMajor", "PreMinor", "PrePatch", "PreRelease"]


def ref_diff(a, b):
    c = ref_cmp(a, b)
    if c == 0:
        return None
    high, low = (a, b) if c > 0 else (b, a)
    high_pre, low_pre = bool(high[1]), bool(low[1])
    if low_pre and not high_pre:
        if low[0]["patch"] == 0 and low[0]["minor"] == 0:
            return "Major"
        if high[0]["patch"] != 0:
            return "Patch"
        if high[0]["minor"] != 0:
            return "Minor"
        return "Major"
    prefix = "Pre" if high_pre else ""
    for fn, nm in (("major", "Major"), ("minor", "Minor"), ("patch", "Patch")):
        if a[0][fn] != b[0][fn]:
            return prefix + nm
    return "PreRelease"


# --------------------------------------------------------------------------- prerelease gate worlds

def partitions3():
    """partitions of {V, L, U} as class-id triples"""
    return [(0, 0, 0), (0, 0, 1), (0, 1, 0), (0, 1, 1), (0, 1, 2)]


def gate_worlds(present):
    """Realisable valuations of the gate atoms for the tokens in `present` (subset of 'V','L','U',
    V always present): (weak order of the versions, prerelease flags, per-field equality partition).
    Computed from the reference definition of precedence over all field-wise weak orderings:
    every triple of real versions induces, field by field, a weak ordering of its three values, and
    the atoms are functions of those."""
    toks = [t for t in ("V", "L", "U") if t in present]
    seen = {}
    per_field = list(weak_orders(toks))
    # identifier lists: each empty or not; weak order among the non-empty ones
    lists = []
    for flags in itertools.product((False, True), repeat=len(toks)):
        ne = [t for t, f in zip(toks, flags) if f]
        for w in weak_orders(ne):
            lists.append({t: ((w[t] + 1,) if t in w else ()) for t in toks})
    for wm in per_field:
        for wi in per_field:
            for wp in per_field:
                for lv in lists:
                    vers = {t: ({"major": wm[t], "minor": wi[t], "patch": wp[t]}, lv[t]) for t in toks}
                    # atoms
                    order = {}
                    # overall rank via sorting with ref_cmp
                    import functools
                    srt = sorted(toks, key=functools.cmp_to_key(lambda x, y: ref_cmp(vers[x], vers[y])))
                    rank = {}
                    r = 0
                    for i, t in enumerate(srt):
                        if i > 0 and ref_cmp(vers[srt[i - 1]], vers[t]) != 0:
                            r += 1
                        rank[t] = r
                    pre = tuple(bool(vers[t][1]) for t in toks)
                    parts = tuple(_partition([vers[t][0][fn] for t in toks]) for fn in FIELDS)
                    sig = (tuple(rank[t] for t in toks), pre, parts)
                    if sig not in seen:
                        seen[sig] = vers
    return toks, seen


def _partition(vals):
    ids = {}
    out = []
    for v in vals:
        if v not in ids:
            ids[v] = len(ids)
        out.append(ids[v])
    return tuple(out)


def gate_token(name, rank, pre, classes, prog):
    """an opaque version for the gate: ordered by `rank` against other versions (level-1 primitive),
    `.major/.minor/.patch` readable as equality-only tokens, `.pre_release` as emptiness-only token"""
    names = vfields(prog)
    fields = {}
    for fn, cls in zip(FIELDS, classes):
        fields[names.index(fn)] = Tok("I", "%s.%s" % (name, fn), cls, dom=fn, extra={"eq_only": True})
    fields[names.index("pre_release")] = Tok("L", "%s.pre_release" % name, (0,) if pre else (),
                                             dom="pre_release:" + name)
    return Tok("V", name, rank, dom="version", extra={"fields": fields, "pre": pre, "classes": classes})
