"""C17 (location clause): `SemverError::location()` interpreted over a text-geometry abstraction.

A string is abstracted to a word over five character classes — newline, carriage return, blank, other
one-byte character, two-byte character — each realised by one representative ('\\n', '\\r', ' ', 'a',
'é'); every word up to a length bound x every character-boundary offset is enumerated. The byte/str
functions location() uses (`as_bytes`, slicing, `bytecount::count`, `iter().rev().position`, `lines`,
`trim_end`, `as_ptr`) are modelled on these representatives as documented; pointers are (base, byte
offset) pairs. Reference: line = number of newlines before the offset, column = bytes since the last
newline. Bounded (word length), stated as such in the evidence.
"""
import itertools

from .interp import Adt, Cell, Inconclusive, Interp, ListV, NONE, Panic, Policy, Ptr, Tok, some
from .models import MODELS, IterV, make_iter

CLASSES = {"N": "\n", "R": "\r", "S": " ", "C": "a", "M": "é"}
BASE_ADDR = 4096


class TextV(object):
    """a str / [u8] slice of a representative text: bytes[start:end] of `base`"""
    __slots__ = ("base", "start", "end", "kind")
    transparent_ref = True

    def __init__(self, base, start, end, kind):
        self.base, self.start, self.end, self.kind = base, start, end, kind

    def bytes(self):
        return self.base[self.start:self.end]

    def __repr__(self):
        return "Text(%r)[%d:%d]" % (self.base, self.start, self.end)


def _text(interp, v):
    while isinstance(v, Ptr):
        v = interp.load(v)
    return v if isinstance(v, TextV) else None


def _is_boundary(b, i):
    return i == 0 or i == len(b) or (0 < i < len(b) and (b[i] & 0xC0) != 0x80)


def _wrap(key, fn):
    orig = MODELS.get(key)

    def m(interp, args, info):
        r = fn(interp, args, info)
        if r is not NotImplemented:
            return r
        if orig is None:
            raise Inconclusive("no model for callee %s" % key, interp.where())
        return orig(interp, args, info)
    MODELS[key] = m


def m_as_bytes(interp, args, info):
    t = _text(interp, args[0])
    if t is None:
        return NotImplemented
    return TextV(t.base, t.start, t.end, "bytes")


def m_index_to(interp, args, info):
    t = _text(interp, args[0])
    if t is None:
        return NotImplemented
    r = args[1]
    if not (isinstance(r, Adt) and r.name in ("std::ops::RangeTo", "std::ops::RangeFrom", "std::ops::Range")):
        raise Inconclusive("slice index %r" % (r,), interp.where())
    n = t.end - t.start
    if r.name == "std::ops::RangeTo":
        lo, hi = 0, r.fields[0]
    elif r.name == "std::ops::RangeFrom":
        lo, hi = r.fields[0], n
    else:
        lo, hi = r.fields[0], r.fields[1]
    if not (isinstance(lo, int) and isinstance(hi, int)):
        raise Inconclusive("symbolic slice bounds", interp.where())
    if lo > hi or hi > n:
        raise Panic("index", interp.where(), "range %d..%d out of %d" % (lo, hi, n))
    if t.kind == "str":
        b = t.bytes()
        if not (_is_boundary(b, lo) and _is_boundary(b, hi)):
            raise Panic("index", interp.where(), "byte index is not a char boundary")
    return TextV(t.base, t.start + lo, t.start + hi, t.kind)


def m_count(interp, args, info):
    t = _text(interp, args[0])
    if t is None:
        return NotImplemented
    return t.bytes().count(bytes([args[1]]))


def m_iter(interp, args, info):
    t = _text(interp, args[0])
    if t is None:
        return NotImplemented
    return make_iter(interp, Ptr(Cell(ListV(list(t.bytes())))))


def m_bytes(interp, args, info):
    t = _text(interp, args[0])
    if t is None:
        return NotImplemented
    return IterV("vec", ListV(list(t.bytes())))


def m_chars(interp, args, info):
    t = _text(interp, args[0])
    if t is None:
        return NotImplemented
    return IterV("vec", ListV([ord(ch) for ch in t.bytes().decode("utf-8")]))


def m_char_indices(interp, args, info):
    t = _text(interp, args[0])
    if t is None:
        return NotImplemented
    out, pos = [], 0
    for ch in t.bytes().decode("utf-8"):
        out.append((pos, ord(ch)))
        pos += len(ch.encode("utf-8"))
    return IterV("vec", ListV(out))


class LinesV(object):
    __slots__ = ("text",)

    def __init__(self, text):
        self.text = text


def _all_lines(t):
    out = []
    b = t.bytes()
    pos = 0
    while pos < len(b):
        i = b.find(b"\n", pos)
        if i < 0:
            out.append(TextV(t.base, t.start + pos, t.start + len(b), "str"))
            break
        end = i
        if end > pos and b[end - 1:end] == b"\r":
            end -= 1
        out.append(TextV(t.base, t.start + pos, t.start + end, "str"))
        pos = i + 1
    return out


def m_lines(interp, args, info):
    t = _text(interp, args[0])
    if t is None:
        return NotImplemented
    # the documented behaviour of str::lines as a finite list of sub-slices
    return IterV("vec", ListV(_all_lines(t)))


def m_lines_next(interp, args, info):
    c, path = interp.deref(args[0])
    lv = interp.read(c, path)
    if isinstance(lv, IterV):
        from .models import iter_next
        x, it2 = iter_next(interp, lv)
        interp.write(c, path, it2)
        return x
    if not isinstance(lv, LinesV):
        return NotImplemented
    t = lv.text
    b = t.bytes()
    if not b:
        return NONE
    i = b.find(b"\n")
    if i < 0:
        line_end, nxt = len(b), len(b)          # last line without terminator: kept as is (a trailing \r stays)
    else:
        line_end, nxt = i, i + 1
        if line_end > 0 and b[line_end - 1:line_end] == b"\r":
            line_end -= 1
    interp.write(c, path, LinesV(TextV(t.base, t.start + nxt, t.end, "str")))
    return some(TextV(t.base, t.start, t.start + line_end, "str"))


def m_trim_end(interp, args, info):
    t = _text(interp, args[0])
    if t is None:
        return NotImplemented
    b = t.bytes()
    n = len(b)
    while n > 0 and b[n - 1:n] in (b" ", b"\t", b"\n", b"\r", b"\x0b", b"\x0c"):
        n -= 1
    return TextV(t.base, t.start, t.start + n, "str")


def m_as_ptr(interp, args, info):
    t = _text(interp, args[0])
    if t is None:
        return NotImplemented
    return BASE_ADDR + t.start


def m_len(interp, args, info):
    t = _text(interp, args[0])
    if t is None:
        return NotImplemented
    return t.end - t.start


def _split_pieces(interp, t, pred):
    """sub-slices of a byte text between the bytes for which `pred(&byte)` holds"""
    b = t.bytes()
    cuts = []
    for i, x in enumerate(b):
        r = interp.call_value(pred, [Ptr(Cell(x))])
        if not isinstance(r, bool):
            raise Inconclusive("split predicate returned %r" % (r,), interp.where())
        if r:
            cuts.append(i)
    pieces, pos = [], 0
    for i in cuts:
        pieces.append(TextV(t.base, t.start + pos, t.start + i, t.kind))
        pos = i + 1
    pieces.append(TextV(t.base, t.start + pos, t.start + len(b), t.kind))
    return pieces


def m_split(interp, args, info):
    t = _text(interp, args[0])
    if t is None:
        return NotImplemented
    return IterV("vec", ListV(_split_pieces(interp, t, args[1])))


def m_rsplit(interp, args, info):
    t = _text(interp, args[0])
    if t is None:
        return NotImplemented
    return IterV("vec", ListV(list(reversed(_split_pieces(interp, t, args[1])))))


def _find(interp, args, info, reverse):
    t = _text(interp, args[0])
    if t is None:
        return NotImplemented
    pat = args[1]
    from .interp import StrV
    if isinstance(pat, int) and not isinstance(pat, bool):
        needle = chr(pat).encode("utf-8")
    elif isinstance(pat, StrV):
        needle = pat.s.encode("utf-8")
    else:
        raise Inconclusive("find with pattern %r" % (pat,), interp.where())
    b = t.bytes()
    i = b.rfind(needle) if reverse else b.find(needle)
    return NONE if i < 0 else some(i)


def m_find(interp, args, info):
    return _find(interp, args, info, False)


def m_rfind(interp, args, info):
    return _find(interp, args, info, True)


def m_is_empty(interp, args, info):
    t = _text(interp, args[0])
    if t is None:
        return NotImplemented
    return t.end == t.start


def m_deref(interp, args, info):
    t = _text(interp, args[0])
    if t is None:
        return NotImplemented
    return t

def _match_at(interp, pat, b, i):
    """length of a match of the pattern at byte i of b (0 = none): char, &str, [char; N] / &[char], closure on char"""
    from .interp import Clo, FnV, StrV
    if isinstance(pat, Ptr):
        pat = interp.load(pat)
    if isinstance(pat, int) and not isinstance(pat, bool):
        nd = chr(pat).encode("utf-8")
        return len(nd) if b.startswith(nd, i) else 0
    if isinstance(pat, StrV):
        nd = pat.s.encode("utf-8")
        return len(nd) if nd and b.startswith(nd, i) else 0
    if isinstance(pat, (ListV, tuple)):
        for x in (pat.items if isinstance(pat, ListV) else pat):
            n = _match_at(interp, x, b, i)
            if n:
                return n
        return 0
    if isinstance(pat, (Clo, FnV)):
        if not _is_boundary(b, i) or i >= len(b):
            return 0
        j = i + 1
        while j < len(b) and (b[j] & 0xC0) == 0x80:
            j += 1
        r = interp.call_value(pat, [ord(b[i:j].decode("utf-8"))])
        if not isinstance(r, bool):
            raise Inconclusive("pattern closure answered %r" % (r,), interp.where())
        return (j - i) if r else 0
    raise Inconclusive("text pattern %r" % (pat,), interp.where())


def _str_pieces(interp, t, pat, inclusive=False, terminator=False):
    b = t.bytes()
    pieces, pos, i = [], 0, 0
    while i < len(b):
        n = _match_at(interp, pat, b, i)
        if n:
            pieces.append(TextV(t.base, t.start + pos, t.start + (i + n if inclusive else i), "str"))
            i += n
            pos = i
        else:
            i += 1
    if pos < len(b) or not (inclusive or terminator):
        pieces.append(TextV(t.base, t.start + pos, t.start + len(b), "str"))
    return pieces


def m_str_split(interp, args, info):
    t = _text(interp, args[0])
    if t is None or t.kind != "str":
        return NotImplemented
    which = info["def"].rsplit("::", 1)[1]
    ps = _str_pieces(interp, t, args[1], inclusive=(which == "split_inclusive"), terminator=(which in ("split_terminator", "rsplit_terminator")))
    if which.startswith("rsplit"):
        ps = list(reversed(ps))
    return IterV("vec", ListV(ps))


def m_str_splitn(interp, args, info):
    t = _text(interp, args[0])
    if t is None or t.kind != "str":
        return NotImplemented
    which = info["def"].rsplit("::", 1)[1]
    n = args[1]
    if isinstance(n, bool) or not isinstance(n, int):
        raise Inconclusive("%s count %r" % (which, n), interp.where())
    ps = _str_pieces(interp, t, args[2])
    if n == 0:
        return IterV("vec", ListV([]))
    if which == "splitn":
        if len(ps) > n:
            ps = ps[:n - 1] + [TextV(t.base, ps[n - 1].start, t.end, "str")]
    else:                       # rsplitn: pieces from the end, the last one is the untouched head
        if len(ps) > n:
            ps = [TextV(t.base, t.start, ps[len(ps) - n].end, "str")] + ps[len(ps) - n + 1:]
        ps = list(reversed(ps))
    return IterV("vec", ListV(ps))


def m_str_split_once(interp, args, info):
    t = _text(interp, args[0])
    if t is None or t.kind != "str":
        return NotImplemented
    which = info["def"].rsplit("::", 1)[1]
    b = t.bytes()
    idx = range(len(b)) if which == "split_once" else range(len(b) - 1, -1, -1)
    for i in idx:
        n = _match_at(interp, args[1], b, i)
        if n:
            return some((TextV(t.base, t.start, t.start + i, "str"), TextV(t.base, t.start + i + n, t.end, "str")))
    return NONE


def m_str_matches(interp, args, info):
    t = _text(interp, args[0])
    if t is None or t.kind != "str":
        return NotImplemented
    which = info["def"].rsplit("::", 1)[1]
    b = t.bytes()
    out, i = [], 0
    while i < len(b):
        n = _match_at(interp, args[1], b, i)
        if n:
            piece = TextV(t.base, t.start + i, t.start + i + n, "str")
            out.append((i, piece) if "indices" in which else piece)
            i += n
        else:
            i += 1
    if which.startswith("r"):
        out.reverse()
    return IterV("vec", ListV(out))


_INSTALLED = []


def install():
    if _INSTALLED:
        return
    _INSTALLED.append(1)
    _wrap("std::string::String::as_bytes", m_as_bytes)
    _wrap("core::str::<impl str>::as_bytes", m_as_bytes)
    from . import entrytext
    entrytext.install_text_models()     # starts_with / strip_prefix / trim* / to_owned on representative texts
    _wrap("core::slice::index::<impl std::ops::Index<I> for [T]>::index", m_index_to)
    _wrap("<std::string::String as std::ops::Index<I>>::index", m_index_to)
    _wrap("core::str::traits::<impl std::ops::Index<I> for str>::index", m_index_to)
    _wrap("bytecount::count", m_count)
    _wrap("core::slice::<impl [T]>::iter", m_iter)
    _wrap("core::str::<impl str>::bytes", m_bytes)
    _wrap("core::str::<impl str>::char_indices", m_char_indices)
    _wrap("core::str::<impl str>::chars", m_chars)
    _wrap("core::str::<impl str>::lines", m_lines)
    _wrap("<std::str::Lines<'a> as std::iter::Iterator>::next", m_lines_next)
    _wrap("core::str::<impl str>::trim_end", m_trim_end)
    _wrap("core::str::<impl str>::as_ptr", m_as_ptr)
    _wrap("core::str::<impl str>::len", m_len)
    _wrap("core::slice::<impl [T]>::len", m_len)
    _wrap("core::str::<impl str>::find", m_find)
    _wrap("core::str::<impl str>::rfind", m_rfind)
    for n in ("split", "rsplit", "split_inclusive", "split_terminator", "rsplit_terminator"):
        _wrap("core::str::<impl str>::" + n, m_str_split)
    for n in ("splitn", "rsplitn"):
        _wrap("core::str::<impl str>::" + n, m_str_splitn)
    for n in ("split_once", "rsplit_once"):
        _wrap("core::str::<impl str>::" + n, m_str_split_once)
    for n in ("matches", "rmatches", "match_indices", "rmatch_indices"):
        _wrap("core::str::<impl str>::" + n, m_str_matches)
    _wrap("core::slice::<impl [T]>::split", m_split)
    _wrap("core::slice::<impl [T]>::rsplit", m_rsplit)
    _wrap("std::string::String::len", m_len)
    _wrap("core::slice::<impl [T]>::is_empty", m_is_empty)
    _wrap("core::str::<impl str>::is_empty", m_is_empty)
    _wrap("<std::string::String as std::ops::Deref>::deref", m_deref)


def words(maxlen):
    for n in range(maxlen + 1):
        for w in itertools.product("NRSCM", repeat=n):
            yield "".join(w)


def reference(b, offset):
    prefix = b[:offset]
    line = prefix.count(b"\n")
    i = prefix.rfind(b"\n")
    return line, offset - (i + 1)


def table(prog, maxlen, inside=False):
    """inside=False: every offset on a character boundary; inside=True: only offsets inside a multi-byte character"""
    install()
    key = "SemverError::location"
    names = prog.field_names("SemverError")
    rows = []
    for w in words(maxlen):
        text = "".join(CLASSES[c] for c in w).encode("utf-8")
        for off in range(len(text) + 1):
            if _is_boundary(text, off) == inside:
                continue
            f = {"input": TextV(text, 0, len(text), "str"),
                 "span": Adt("miette::SourceSpan", 0, (off, 0)),
                 "kind": Tok("O", "kind")}
            err = Adt("SemverError", 0, [f[n] for n in names])
            pol = Policy()
            pol.allow_sub = True
            it = Interp(prog, pol)
            row = {"word": w, "offset": off, "expected": reference(text, off)}
            try:
                r = it.call_body(key, [Ptr(Cell(err))])
                row["status"] = "ok"
                row["result"] = r
            except Panic as p:
                row["status"] = "panic"
                row["error"] = str(p)
            except Inconclusive as e:
                row["status"] = "inconclusive"
                row["error"] = (e.reason, e.where)
            from .report import coverage, path_sig
            row["sig"] = path_sig(it)
            row["cov"] = coverage(it)
            rows.append(row)
    return rows
