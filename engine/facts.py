"""E-FACTS: obtain the resolved program of /repo from the `sa` driver and give typed access to it.

Every run rebuilds the facts from the current working tree of the repository (SA_REPO, default
/repo) with `cargo +nightly check` and the `sa` binary as RUSTC_WORKSPACE_WRAPPER, in a fresh
target directory so that cargo's freshness cache can never skip the wrapper.
"""
import json
import os
import shutil
import subprocess
import sys
import time
import uuid

VERIF = os.path.dirname(os.path.dirname(os.path.abspath(__file__)))
REPO = os.environ.get("SA_REPO", "/repo")
WORK = os.path.join(VERIF, ".work")
SA_BIN = os.path.join(VERIF, "sa", "target", "release", "sa")

RUSTFLAGS_DEV = "-Zmir-opt-level=0 -Zmir-enable-passes=-CheckAlignment,-CheckNull -Awarnings"
RUSTFLAGS_NOCHK = RUSTFLAGS_DEV + " -C debug-assertions=off -C overflow-checks=off"


class FactsError(Exception):
    pass


def _sysroot():
    out = subprocess.run(["rustc", "+nightly", "--print", "sysroot"], capture_output=True, text=True)
    if out.returncode != 0:
        raise FactsError("nightly toolchain not available: " + out.stderr)
    return out.stdout.strip()


def ensure_driver():
    """Build the driver if its binary is missing or older than its sources."""
    src = os.path.join(VERIF, "sa", "src")
    newest = max(os.path.getmtime(os.path.join(src, f)) for f in os.listdir(src))
    if os.path.exists(SA_BIN) and os.path.getmtime(SA_BIN) >= newest:
        return
    env = dict(os.environ, CARGO_NET_OFFLINE="true")
    r = subprocess.run(["cargo", "+nightly", "build", "--release", "--offline"],
                       cwd=os.path.join(VERIF, "sa"), env=env, capture_output=True, text=True)
    if r.returncode != 0:
        raise FactsError("cannot build sa driver:\n" + r.stderr[-4000:])


def build_facts(features=(), nochecks=False, keep=False):
    """Run the driver over REPO; returns the parsed JSON document."""
    ensure_driver()
    os.makedirs(WORK, exist_ok=True)
    nonce = uuid.uuid4().hex
    tdir = os.path.join(WORK, "t-%d-%s" % (os.getpid(), nonce[:8]))
    out = os.path.join(tdir, "facts.json")
    os.makedirs(tdir)
    seed = os.path.join(WORK, "deps-nochk" if nochecks else "deps")
    env = dict(os.environ)
    env.update({
        "CARGO_NET_OFFLINE": "true",
        "LD_LIBRARY_PATH": _sysroot() + "/lib:" + os.environ.get("LD_LIBRARY_PATH", ""),
        "RUSTFLAGS": RUSTFLAGS_NOCHK if nochecks else RUSTFLAGS_DEV,
        "RUSTC_WORKSPACE_WRAPPER": SA_BIN,
        "SA_OUT": out,
        "SA_NONCE": nonce,
        "CARGO_TARGET_DIR": tdir,
    })
    env.pop("RUSTC_WRAPPER", None)
    try:
        if os.path.isdir(seed):
            # hard-link the pre-built dependency artefacts (never contains nodejs-semver itself)
            subprocess.run(["cp", "-al", os.path.join(seed, "debug"), os.path.join(tdir, "debug")],
                           check=False, capture_output=True)
        cmd = ["cargo", "+nightly", "check", "--offline", "--lib"]
        if features:
            cmd += ["--features", ",".join(features)]
        t0 = time.time()
        r = subprocess.run(cmd, cwd=REPO, env=env, capture_output=True, text=True)
        if r.returncode != 0:
            raise FactsError("cargo check failed on %s:\n%s" % (REPO, r.stderr[-6000:]))
        if not os.path.exists(out):
            raise FactsError("driver did not run (no fact file) — stale cache?\n" + r.stderr[-2000:])
        with open(out) as f:
            doc = json.load(f)
        if doc.get("nonce") != nonce:
            raise FactsError("fact file carries a wrong nonce")
        doc["_build_s"] = time.time() - t0
        doc["_features"] = list(features)
        doc["_nochecks"] = nochecks
        return doc
    finally:
        if not keep:
            shutil.rmtree(tdir, ignore_errors=True)


def prebuild_deps():
    """setup: check the dependencies once so that later runs only re-check the crate itself."""
    ensure_driver()
    os.makedirs(WORK, exist_ok=True)
    for name, flags in (("deps", RUSTFLAGS_DEV), ("deps-nochk", RUSTFLAGS_NOCHK)):
        seed = os.path.join(WORK, name)
        shutil.rmtree(seed, ignore_errors=True)
        env = dict(os.environ)
        env.update({
            "CARGO_NET_OFFLINE": "true",
            "LD_LIBRARY_PATH": _sysroot() + "/lib:" + os.environ.get("LD_LIBRARY_PATH", ""),
            "RUSTFLAGS": flags,
            "RUSTC_WORKSPACE_WRAPPER": SA_BIN,
            "CARGO_TARGET_DIR": seed,
        })
        env.pop("SA_OUT", None)
        r = subprocess.run(["cargo", "+nightly", "check", "--offline", "--lib", "--features", "serde"],
                           cwd=REPO, env=env, capture_output=True, text=True)
        if r.returncode != 0:
            raise FactsError("dependency pre-build failed:\n" + r.stderr[-4000:])
        # drop everything that belongs to the crate under analysis
        dbg = os.path.join(seed, "debug")
        for sub in (".fingerprint", "deps", "incremental", "build"):
            p = os.path.join(dbg, sub)
            if not os.path.isdir(p):
                continue
            for f in os.listdir(p):
                if f.startswith("nodejs-semver") or f.startswith("nodejs_semver") or f.startswith("libnodejs_semver"):
                    q = os.path.join(p, f)
                    shutil.rmtree(q, ignore_errors=True) if os.path.isdir(q) else os.remove(q)


CANONICAL_NEW = "range::BoundSet::new"


def alias_anchors(doc):
    """The validating constructor of BoundSet is an anchor of many tables and is addressed by its path. When a function of
    that path does not exist, the unique associated function of BoundSet with the signature (Bound, Bound) ->
    Option<BoundSet> is taken for it (a rename): every reference to its path — and to the closures written in it — is
    rewritten to the canonical path. Never active on a tree that has `range::BoundSet::new`."""
    if CANONICAL_NEW in doc["bodies"]:
        return doc
    types = doc["types"]
    cands = []
    for k, b in doc["bodies"].items():
        if b.get("impl_self") != "range::BoundSet" or b.get("arg_count") != 2 or b.get("def_kind") != "AssocFn":
            continue
        loc = b["locals"]
        if types[loc[1]]["s"] == "range::Bound" and types[loc[2]]["s"] == "range::Bound" \
                and types[loc[0]]["s"].replace(" ", "") == "std::option::Option<range::BoundSet>":
            cands.append(k)
    if len(cands) != 1:
        return doc
    old = cands[0]
    text = json.dumps(doc)
    q = json.dumps(old)[:-1]                      # the JSON spelling of the path without the closing quote
    text = text.replace(q + '"', '"' + CANONICAL_NEW + '"').replace(q + "::{", '"' + CANONICAL_NEW + "::{")
    new = json.loads(text)
    new["_aliases"] = {old: CANONICAL_NEW}
    return new


class Program:
    """Typed view of a fact document."""

    def __init__(self, doc):
        doc = alias_anchors(doc)
        self.aliases = doc.get("_aliases", {})
        self.doc = doc
        self.bodies = doc["bodies"]
        self.types = doc["types"]
        self.adts = doc["adts"]
        self.impls = doc["impls"]
        self.consts = {k: int(v["v"]) for k, v in doc["consts"].items() if "v" in v}
        self.const_bodies = {k: v["body"] for k, v in doc["consts"].items() if "body" in v}
        self._impl_ix = {}
        for im in self.impls:
            self._impl_ix.setdefault((im["trait"], _strip_generics(im["self_str"])), []).append(im)

    def body(self, key):
        b = self.bodies.get(key)
        if b is None:
            raise KeyError(key)
        return b

    def has_body(self, key):
        return key in self.bodies

    def ty(self, ix):
        return self.types[ix]

    def ty_str(self, ix):
        return self.types[ix]["s"]

    def find_impl(self, trait, self_name):
        """Local impls of `trait` for the ADT called `self_name` (generic arguments ignored)."""
        return self._impl_ix.get((trait, _strip_generics(self_name)), [])

    def impl_method(self, trait, self_name, method):
        for im in self.find_impl(trait, self_name):
            if method in im["items"]:
                return im["items"][method]
        return None

    def impl_by_trait_ref(self, trait_ref):
        for im in self.impls:
            if im["trait_ref"] == trait_ref:
                return im
        return None

    def variant_name(self, adt, vidx):
        return self.adts[adt]["variants"][vidx]["name"]

    def variant_index(self, adt, name):
        for i, v in enumerate(self.adts[adt]["variants"]):
            if v["name"] == name:
                return i
        raise KeyError((adt, name))

    def discr(self, adt, vidx):
        d = self.adts[adt]["variants"][vidx]["discr"]
        return int(d) if d is not None else 0

    def field_index(self, adt, vidx, fname):
        return self.adts[adt]["variants"][vidx]["fields"].index(fname)

    def field_names(self, adt, vidx=0):
        return self.adts[adt]["variants"][vidx]["fields"]

    def span_str(self, sp):
        return "%s:%d" % (sp["file"], sp["line"])


def _strip_generics(s):
    i = s.find("<")
    return s if i < 0 else s[:i]


if __name__ == "__main__":
    if len(sys.argv) > 1 and sys.argv[1] == "setup":
        prebuild_deps()
        print("setup ok")
