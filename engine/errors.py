"""Tables of the parse entry points (`Version::parse`, `Range::parse`) and of the numeric guard in
`number()`, with the grammar call stubbed: which string ends up in `SemverError.input`, what the span
offset is made of, which kind is raised under which guard. Used by C05 (guards), C06 (arithmetic /
pointer-difference sites) and C17 (provenance)."""
from .interp import (Adt, Cell, Clo, Ctx, Inconclusive, Interp, NONE, Panic, Policy, Ptr, StrV, Tok, err, explore, is_some,
                     ok, some)
from .report import path_sig
from . import gram

ERRMODE = "winnow::error::ErrMode"
SPE = "SemverParseError"
SE = "SemverError"
KIND = "SemverErrorKind"


class EntryPolicy(Policy):
    """stubs the one grammar call of an entry point; string lengths are integer tokens"""

    def __init__(self, prog, ctx, len_rep, outcomes):
        Policy.__init__(self)
        self.allow_sub = True
        self.allow_len_diff = True
        self.prog = prog
        self.ctx = ctx
        self.len_rep = len_rep
        self.outcomes = outcomes
        self.parse_calls = []
        self.allow_int_literals = {0, prog.consts.get("MAX_LENGTH", 256)}
        # lengths may be compared with any literal: the literals met are logged and the table is re-run with
        # representatives on both sides of every one of them (entry_table iterates to a fixpoint)
        self.log_literals = set()
        self.free_literal_doms = ("len",)
        self.chosen = None

    def str_len(self, interp, s):
        v = self.len_rep if s.name == "caller" else 0
        return Tok("I", "len(%s)" % s.name, v, dom="len")

    def parse_next(self, interp, p, inp, info):
        # the stream is advanced by the grammar: whatever the local held is replaced
        c, path = interp.deref(inp)
        before = interp.read(c, path)
        self.parse_calls.append((gram.show_p(p), getattr(interp.strip(before), "name", None)))
        interp.write(c, path, Tok("T", "advanced", "", dom="text"))
        i = self.ctx.choose("parse-outcome", len(self.outcomes))
        o = self.outcomes[i]
        self.chosen = o
        if o == "ok":
            return ok(Tok("O", "parsed"))
        names = self.prog.field_names(SPE)
        kind_i = self.ctx.choose("err-kind", 2)
        ctx_i = self.ctx.choose("err-context", 2)
        f = {"input": Tok("T", "errpos", "", dom="text"),
             "context": some(Tok("T", "ctx", "", dom="ctx")) if ctx_i == 0 else NONE,
             "kind": some(Tok("O", "inner-kind")) if kind_i == 0 else NONE}
        self.chosen = (o, kind_i == 0, ctx_i == 0)
        e = Adt(SPE, 0, [f[n] for n in names])
        if o == "incomplete":
            return err(Adt(ERRMODE, self.prog.variant_index(ERRMODE, "Incomplete"), (Tok("O", "needed"),)))
        return err(Adt(ERRMODE, self.prog.variant_index(ERRMODE, "Backtrack" if o == "backtrack" else "Cut"), (e,)))


def stream_is_partial(prog):
    """D-PARTIAL: winnow raises ErrMode::Incomplete only for `Partial<_>` streams"""
    return any("winnow::stream::Partial" in t.get("s", "") or "winnow::Partial" in t.get("s", "") for t in prog.types)


def entry_table(prog, key, with_incomplete=False):
    """all paths of an entry point: list of dicts"""
    maxlen = prog.consts.get("MAX_LENGTH", 256)
    outcomes = ["ok", "backtrack", "cut"] + (["incomplete"] if with_incomplete else [])
    literals = {maxlen}
    for _round in range(6):
        rows = []
        seen = set()
        reps = sorted(set([0, 1] + [x for L in literals for x in (L - 1, L, L + 1) if x >= 0]))
        for len_rep in reps:
            def run(ctx, len_rep=len_rep):
                pol = EntryPolicy(prog, ctx, len_rep, outcomes)
                it = Interp(prog, pol, ctx=ctx)
                caller = Tok("T", "caller", "", dom="text")
                row = {"len": len_rep, "sig": None}
                try:
                    r = it.call_body(key, [caller])
                    row["status"] = "ok"
                    row["result"] = r
                except Panic as p:
                    row["status"] = "panic"
                    row["panic"] = p
                except Inconclusive as e:
                    row["status"] = "inconclusive"
                    row["error"] = e
                row["sig"] = path_sig(it)
                row["parse_calls"] = pol.parse_calls
                row["chosen"] = pol.chosen
                row["obligations"] = list(it.obligations)
                row["interp"] = it
                seen.update(pol.log_literals)
                return row
            for ctx, row in explore(run, limit=256):
                rows.append(row)
        if seen <= literals:
            return rows
        literals |= seen
    raise Inconclusive("length literals of %s do not stabilise: %s" % (key, sorted(literals)))


def decode_error(prog, it, r):
    """Result<_, SemverError> -> None for Ok, else dict(input=token name, offset=term, kind=…)"""
    if not (isinstance(r, Adt) and r.name == "std::result::Result"):
        raise Inconclusive("entry point returned %r" % (r,))
    if r.variant == 0:
        return None
    e = it.strip(r.fields[0])
    if not (isinstance(e, Adt) and e.name == SE):
        raise Inconclusive("error value %r" % (e,))
    f = dict(zip(prog.field_names(SE), e.fields))
    inp = it.strip(f["input"])
    span = it.strip(f["span"])
    kind = it.strip(f["kind"])
    out = {"input": getattr(inp, "name", repr(inp))}
    off = span.fields[0] if isinstance(span, Adt) and span.name == "miette::SourceSpan" else span
    out["offset"] = offset_term(off)
    out["length"] = span.fields[1] if isinstance(span, Adt) and span.name == "miette::SourceSpan" else None
    if isinstance(kind, Adt) and kind.name == KIND:
        out["kind"] = prog.variant_name(KIND, kind.variant)
        out["kind_payload"] = [getattr(it.strip(x), "name", repr(x)) for x in kind.fields]
    elif isinstance(kind, Tok):
        out["kind"] = kind.name
    else:
        out["kind"] = repr(kind)
    return out


def offset_term(off):
    if isinstance(off, int) and not isinstance(off, bool):
        return "const %d" % off
    if isinstance(off, Tok):
        if off.kind == "I":
            return off.name + ("%+d" % off.off if off.off else "")
        if off.kind == "D":
            return off.name
    return repr(off)


# --------------------------------------------------------------------------- number() guard

class NumberPolicy(Policy):
    """`number()` with digit1 stubbed: the try_map closure is applied to the matched text"""

    def __init__(self, prog, ctx, parse_outcome, value_rep):
        Policy.__init__(self)
        self.prog = prog
        self.ctx = ctx
        self.parse_outcome = parse_outcome
        self.value_rep = value_rep
        self.allow_int_literals = {0, prog.consts.get("MAX_SAFE_INTEGER", 900719925474099)}
        self.parse_types = []
        self.raw = None

    def parse_next(self, interp, p, inp, info):
        return self.apply(interp, p, inp)

    def apply(self, interp, p, inp):
        k = p.kind
        if k == "context":
            return self.apply(interp, p.args[0], inp)
        if k == "take":
            return self.apply(interp, p.args[0], inp)
        if k == "prim" and p.extra == "digit1":
            c, path = interp.deref(inp)
            interp.write(c, path, Tok("T", "after-digits", "", dom="text"))
            self.raw = Tok("T", "digits", "", dom="text")
            return ok(self.raw)
        if k == "try_map":
            c0, path0 = interp.deref(inp)
            start = interp.read(c0, path0)
            r = self.apply(interp, p.args[0], inp)
            if not (isinstance(r, Adt) and r.variant == 0):
                return r
            v = interp.call_value(p.extra, [r.fields[0]])
            if isinstance(v, Adt) and v.name == "std::result::Result" and v.variant == 0:
                return v
            # winnow's TryMap: the stream is reset to where the inner parser started, then
            # ErrMode::Backtrack(E::from_external_error(input, ErrorKind::Verify, e)) with the crate's impl
            interp.write(c0, path0, start)
            return gram.convert_external_error(interp, inp, v.fields[0])
        if k == "map":
            r = self.apply(interp, p.args[0], inp)
            if isinstance(r, Adt) and r.variant == 0:
                return ok(interp.call_value(p.extra, [r.fields[0]]))
            return r
        raise Inconclusive("number(): unexpected parser %s" % gram.show_p(p), interp.where())

    def str_parse(self, interp, args, info):
        self.parse_types.append([self.prog.ty_str(t) for t in info.get("targs", [])])
        if self.parse_outcome == "ok":
            return ok(Tok("I", "value", self.value_rep, dom="value"))
        return err(Tok("O", "parse-int-error"))


def number_witness(prog):
    """`number()` on concrete digit strings (digit1 answers the text itself, str::parse::<u64> as documented): returns
    [(text, expected, got)] for every text on which the outcome is not `Ok(value)` for value <= MAX_SAFE_INTEGER,
    MaxIntError(value) above it, ParseIntError beyond u64. Used when the abstract table is inconclusive (hand-written
    digit handling); a mismatch is a genuine violation."""
    from .interp import StrV
    from .models import concrete_u64_parse
    key = "number"
    mx = prog.consts.get("MAX_SAFE_INTEGER", 900719925474099)
    texts = ["0", "7", "10", "007", "99999999999999", "100000000000000", "123456789012345", str(mx - 1), str(mx), str(mx + 1),
             "9" * 15, "1" + "0" * 15, "18446744073709551615", "18446744073709551616", "9" * 20, "0" * 25 + "1", "1" + "0" * 25]
    out, ran = [], 0
    for text in texts:
        class Pol(NumberPolicy):
            def apply(pself, interp, p, inp):
                if p.kind == "prim" and p.extra == "digit1":
                    c, path = interp.deref(inp)
                    interp.write(c, path, Tok("T", "after-digits", "", dom="text"))
                    return ok(StrV(text))
                return NumberPolicy.apply(pself, interp, p, inp)

            def str_parse(pself, interp, args, info):
                return concrete_u64_parse(interp, args, info)
        ctx = Ctx()
        pol = Pol(prog, ctx, "ok", 0)
        pol.witness = True
        it = Interp(prog, pol, ctx=ctx)
        try:
            r = it.call_body(key, [Ptr(Cell(Tok("T", "start", "", dom="text")))])
        except Panic as p:
            out.append((text, "no panic", "panics: %s" % p))
            ran += 1
            continue
        except Inconclusive:
            continue
        ran += 1
        n = int(text)
        if n <= mx:
            exp = ("ok", n)
        elif n < (1 << 64):
            exp = ("err", "MaxIntError", n)
        else:
            exp = ("err", "ParseIntError", None)
        got = None
        if isinstance(r, Adt) and r.name == "std::result::Result":
            if r.variant == 0:
                v = r.fields[0]
                v = v.val + v.off if isinstance(v, Tok) and v.kind == "I" else v
                got = ("ok", v)
            else:
                try:
                    d = decode_number(prog, it, r)
                    payload = None
                    m = it.strip(r.fields[0].fields[0])
                    f = dict(zip(prog.field_names(SPE), m.fields))
                    kk = it.strip(f["kind"].fields[0]) if is_some(f["kind"]) else None
                    if kk is not None and kk.fields:
                        pv = it.strip(kk.fields[0])
                        payload = pv.val + pv.off if isinstance(pv, Tok) and pv.kind == "I" else (pv if isinstance(pv, int) else None)
                    got = ("err", d[3], payload if d[3] == "MaxIntError" else None)
                except Inconclusive:
                    continue
        if got != exp:
            out.append((text, exp, got))
    return out, ran


def number_table(prog):
    rows = []
    key = "number"
    if not prog.has_body(key):
        raise Inconclusive("function number() not found")
    mx = prog.consts.get("MAX_SAFE_INTEGER", 900719925474099)
    for outcome, rep in (("ok", 0), ("ok", mx - 1), ("ok", mx), ("ok", mx + 1), ("err", 0)):
        ctx = Ctx()
        pol = NumberPolicy(prog, ctx, outcome, rep)
        it = Interp(prog, pol, ctx=ctx)
        start = Tok("T", "start", "", dom="text")
        inp = Ptr(Cell(start))
        row = {"parse": outcome, "value": rep, "where": None}
        try:
            r = it.call_body(key, [inp])
            row["status"] = "ok"
            row["result"] = r
        except Panic as p:
            row["status"] = "panic"
            row["panic"] = p
        except Inconclusive as e:
            row["status"] = "inconclusive"
            row["error"] = e
        row["sig"] = path_sig(it)
        row["parse_types"] = pol.parse_types
        row["interp"] = it
        rows.append(row)
    return rows


def decode_number(prog, it, r):
    """-> ('ok', token) | ('err', mode, input name, kind name, payload names)"""
    if isinstance(r, Adt) and r.name == "std::result::Result":
        if r.variant == 0:
            return ("ok", r.fields[0])
        m = r.fields[0]
        if isinstance(m, Adt) and m.name == ERRMODE:
            mode = prog.variant_name(ERRMODE, m.variant)
            e = it.strip(m.fields[0])
            if isinstance(e, Adt) and e.name == SPE:
                f = dict(zip(prog.field_names(SPE), e.fields))
                inp = it.strip(f["input"])
                k = f["kind"]
                kn, payload = None, []
                if is_some(k):
                    kk = it.strip(k.fields[0])
                    if isinstance(kk, Adt) and kk.name == KIND:
                        kn = prog.variant_name(KIND, kk.variant)
                        payload = [getattr(it.strip(x), "name", repr(x)) for x in kk.fields]
                return ("err", mode, getattr(inp, "name", repr(inp)), kn, payload)
    raise Inconclusive("number() returned %r" % (r,))
