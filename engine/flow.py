"""E-FLOW: structural rules over the exported MIR (no interpretation): panic-site inventory, CFG and
call-graph utilities, loops and recursion, dead-edge reachability."""

PANIC_CALLEES = {
    "std::option::Option::<T>::unwrap": "unwrap",
    "std::option::Option::<T>::expect": "expect",
    "std::result::Result::<T, E>::unwrap": "unwrap",
    "std::result::Result::<T, E>::expect": "expect",
    "std::result::Result::<T, E>::unwrap_err": "unwrap",
    "std::result::Result::<T, E>::expect_err": "expect",
    "core::panicking::panic_fmt": "panic_fmt",
    "core::panicking::panic": "panic",
    "core::panicking::panic_display": "panic",
    "core::panicking::panic_explicit": "panic",
    "core::panicking::unreachable_display": "panic",
    "core::panicking::assert_failed": "panic",
    "std::rt::begin_panic": "panic",
    "core::option::unwrap_failed": "panic",
    "core::result::unwrap_failed": "panic",
    "core::slice::index::slice_index_fail": "index",
    "core::str::slice_error_fail": "index",
}


def callee_of(term):
    if term["k"] != "call":
        return None
    f = term["func"]
    if "const" in f and f["const"].get("kind") == "fn":
        return f["const"]
    return None


def callee_key(c):
    r = c.get("resolved")
    return r["def"] if r else c["def"]


def is_index_call(c):
    k = callee_key(c)
    return "std::ops::Index<" in k or "std::ops::IndexMut<" in k or k.endswith("::index") and "Index" in k


def panic_sites(prog):
    """every construct of the crate that can panic: Assert terminators and calls of panicking std functions"""
    sites = []
    for key, body in prog.bodies.items():
        live = reachable(body)
        for bi, bb in enumerate(body["blocks"]):
            if bb["cleanup"] or bi not in live:
                continue
            t = bb["term"]
            if t["k"] == "assert":
                sites.append({"owner": key, "bb": bi, "kind": "assert", "detail": t["msg_full"], "msg": t["msg"],
                              "span": t["span"]})
            c = callee_of(t)
            if c is not None:
                k = callee_key(c)
                if k in PANIC_CALLEES:
                    sites.append({"owner": key, "bb": bi, "kind": PANIC_CALLEES[k], "detail": c.get("def_args", k),
                                  "span": t["span"]})
                elif is_index_call(c):
                    sites.append({"owner": key, "bb": bi, "kind": "index", "detail": (c.get("resolved") or c).get("def_args", k),
                                  "span": t["span"]})
                elif t.get("target") is None and not k.startswith("core::panicking"):
                    sites.append({"owner": key, "bb": bi, "kind": "diverging-call", "detail": k, "span": t["span"]})
    return sites


def _block_const(bb, local):
    """the constant a local holds at the end of a block when its last assignment there is `local = const c`"""
    val = None
    for st in bb["stmts"]:
        if st["k"] == "assign" and st["place"]["l"] == local and not st["place"]["p"]:
            rv = st["rv"]
            c = rv.get("op", {}).get("const") if rv.get("k") == "use" else None
            if c is not None and c.get("kind") in ("bool", "int", "char"):
                val = int(c["v"]) if c["kind"] != "bool" else int(bool(c["v"]))
            else:
                val = None
    return val


def successors(body, bi, skip_cleanup=True):
    t = body["blocks"][bi]["term"]
    k = t["k"]
    out = []
    if k == "goto":
        out = [t["target"]]
    elif k == "switch":
        d = t.get("discr", {})
        pl = d.get("move") or d.get("copy")
        cv = None
        if "const" in d and d["const"].get("kind") in ("bool", "int", "char"):
            cv = int(d["const"]["v"]) if d["const"]["kind"] != "bool" else int(bool(d["const"]["v"]))
        elif pl is not None and not pl["p"]:
            cv = _block_const(body["blocks"][bi], pl["l"])
        if cv is not None:
            # a switch on a constant (`debug_assert!(true, ..)`, `if false`): only the matching edge exists
            hit = [x[1] for x in t["targets"] if int(x[0]) == cv]
            out = hit[:1] if hit else [t["otherwise"]]
        else:
            out = [x[1] for x in t["targets"]] + [t["otherwise"]]
    elif k in ("call", "drop", "assert"):
        if t.get("target") is not None:
            out = [t["target"]]
    return out


def reachable(body, removed_edges=()):
    seen = {0}
    stack = [0]
    removed = set(removed_edges)
    while stack:
        b = stack.pop()
        for s in successors(body, b):
            if (b, s) in removed or s in seen:
                continue
            seen.add(s)
            stack.append(s)
    return seen


def cfg_sccs(body):
    """non-trivial strongly connected components of the non-cleanup CFG (= loops)"""
    n = len(body["blocks"])
    index = {}
    low = {}
    onstack = set()
    stack = []
    out = []
    counter = [0]
    import sys
    sys.setrecursionlimit(max(10000, n * 4))

    def strong(v):
        index[v] = low[v] = counter[0]
        counter[0] += 1
        stack.append(v)
        onstack.add(v)
        for w in successors(body, v):
            if body["blocks"][w]["cleanup"]:
                continue
            if w not in index:
                strong(w)
                low[v] = min(low[v], low[w])
            elif w in onstack:
                low[v] = min(low[v], index[w])
        if low[v] == index[v]:
            comp = []
            while True:
                w = stack.pop()
                onstack.discard(w)
                comp.append(w)
                if w == v:
                    break
            if len(comp) > 1 or v in successors(body, v):
                out.append(sorted(comp))
    for v in sorted(reachable(body)):
        if v not in index:
            strong(v)
    return out


def local_callees(prog, key):
    """crate bodies a body may call or hand out as a function value (closures, fn items)"""
    out = set()

    def walk(o):
        if isinstance(o, dict):
            if o.get("kind") == "fn" and "def" in o:
                r = o.get("resolved")
                k = r["def"] if r else o["def"]
                if k in prog.bodies:
                    out.add(k)
            if o.get("ak") == "closure" and o.get("def") in prog.bodies:
                out.add(o["def"])
            if o.get("kind") == "closure" and o.get("def") in prog.bodies:
                out.add(o["def"])
            for v in o.values():
                walk(v)
        elif isinstance(o, list):
            for v in o:
                walk(v)
    walk(prog.bodies[key]["blocks"])
    return out


def call_graph_cycles(prog):
    graph = {k: local_callees(prog, k) for k in prog.bodies}
    index, low, onstack, stack, out = {}, {}, set(), [], []
    counter = [0]

    def strong(v):
        index[v] = low[v] = counter[0]
        counter[0] += 1
        stack.append(v)
        onstack.add(v)
        for w in graph[v]:
            if w not in index:
                strong(w)
                low[v] = min(low[v], low[w])
            elif w in onstack:
                low[v] = min(low[v], index[w])
        if low[v] == index[v]:
            comp = []
            while True:
                w = stack.pop()
                onstack.discard(w)
                comp.append(w)
                if w == v:
                    break
            if len(comp) > 1 or v in graph[v]:
                out.append(sorted(comp))
    for v in graph:
        if v not in index:
            strong(v)
    return out, graph


ITER_NEXT = ("std::iter::Iterator>::next", "std::iter::Iterator::next")


UNBOUNDED_SOURCES = ("std::iter::Repeat<", "std::iter::RepeatWith<", "std::ops::RangeFrom<", "std::iter::FromFn<",
                     "std::iter::Successors<", "std::iter::Cycle<", "std::iter::from_fn", "std::iter::successors")
STD_ITER_PREFIXES = ("std::", "core::", "alloc::")


def _generic_args(ty):
    """top-level generic arguments of `Path<A, B, …>` (None when there are none)"""
    i = ty.find("<")
    if i < 0 or not ty.endswith(">"):
        return None, []
    head, inner = ty[:i], ty[i + 1:-1]
    args, depth, cur = [], 0, ""
    for ch in inner:
        if ch in "<([":
            depth += 1
        elif ch in ">)]":
            depth -= 1
        if ch == "," and depth == 0:
            args.append(cur.strip())
            cur = ""
        else:
            cur += ch
    if cur.strip():
        args.append(cur.strip())
    return head, args


def iterator_type_bounded(ty):
    """does an iterator of this (instantiated std) type end? Sources: slices, vectors, arrays, strings, options and
    integer ranges with an end do; `Repeat`, `RepeatWith`, `RangeFrom`, `FromFn`, `Successors`, `Cycle` do not. `Zip` ends
    with its shorter side, `Take` always ends, every other adaptor ends when what it wraps does."""
    ty = ty.strip()
    if ty.startswith("&mut "):
        ty = ty[5:]
    head, args = _generic_args(ty)
    if head is None:
        return not any(u.rstrip("<") in ty for u in UNBOUNDED_SOURCES)
    if head in ("std::iter::Zip",):
        return any(iterator_type_bounded(a) for a in args if not a.startswith("'"))
    if head in ("std::iter::Take",):
        return True
    if (head + "<") in UNBOUNDED_SOURCES:
        return False
    # adaptors and sources alike: every type argument that is itself an iterator type must end
    for a in args:
        if a.startswith("'") or a.startswith("{closure") or a.startswith("for<") or a.startswith("fn("):
            continue
        if a.startswith(STD_ITER_PREFIXES) and "::iter::" in a or a.startswith(("std::slice::", "std::vec::", "std::str::", "std::option::", "std::array::", "std::ops::Range")):
            if not iterator_type_bounded(a):
                return False
        elif any(u in a for u in UNBOUNDED_SOURCES):
            return False
    return True


def loop_is_iterator_bounded(body, comp):
    """a CFG loop is bounded when it contains a call of Iterator::next on a std iterator whose instantiated type
    names no unbounded source (Repeat, RepeatWith, RangeFrom, FromFn, Successors, Cycle): every other std iterator
    is finite when its sources are (slices, vectors, arrays, strings, options, bounded integer ranges)"""
    for b in comp:
        c = callee_of(body["blocks"][b]["term"])
        if c is None:
            continue
        k = callee_key(c)
        if not k.endswith(ITER_NEXT):
            continue
        inst = (c.get("resolved") or c).get("def_args") or k
        if not inst.startswith("<"):
            continue
        self_ty = inst[1:].split(" as std::iter::Iterator>")[0]
        if self_ty.startswith("&mut "):
            self_ty = self_ty[5:]
        if not iterator_type_bounded(self_ty):
            continue
        if self_ty.startswith("<impl ") or self_ty.startswith("impl ") or GENERIC_ITER.match(self_ty):
            # the iterator is an argument of generic type (`impl IntoIterator`, `I: Iterator`): whether it ends is
            # decided at the call sites of this function (see generic_iterator_callers_bounded)
            return "generic:" + inst
        if not self_ty.startswith(STD_ITER_PREFIXES):
            continue            # a crate-defined iterator: not covered by this rule
        if "impl " in self_ty or "dyn " in self_ty:
            continue            # opaque: the source is not visible in the type
        return inst
    return None


import re as _re
GENERIC_ITER = _re.compile(r"^(<[A-Z]\w* as std::iter::IntoIterator>::IntoIter|[A-Z]\w{0,3})$")


def generic_iterator_callers_bounded(prog, key):
    """every crate call site of the private generic function `key` instantiates it with std types that name no unbounded
    source (and no opaque type); a function without call sites is dead"""
    b = prog.bodies[key]
    if b.get("vis") == "pub":
        return False
    for k2, b2 in prog.bodies.items():
        for bb in b2["blocks"]:
            c = callee_of(bb["term"])
            if c is None or callee_key(c) != key:
                continue
            inst = (c.get("resolved") or c).get("def_args") or ""
            m = _re.search(r"::<(.*)>$", inst)
            targs = m.group(1) if m else ""
            if not targs or any(u in targs for u in UNBOUNDED_SOURCES) or "impl " in targs or "dyn " in targs:
                return False
            if _re.search(r"(^|[ <,(&])[A-Z]\w{0,3}([>,) ]|$)", targs):
                return False           # still generic at this call site
    return True


def errmode_incomplete_dead_blocks(prog, body):
    """blocks only reachable through the `ErrMode::Incomplete` edge of a match on an ErrMode value"""
    em = "winnow::error::ErrMode"
    if em not in prog.adts:
        return set()
    inc_discr = None
    for i, v in enumerate(prog.adts[em]["variants"]):
        if v["name"] == "Incomplete":
            inc_discr = int(v["discr"])
    edges = []
    for bi, bb in enumerate(body["blocks"]):
        t = bb["term"]
        if t["k"] != "switch":
            continue
        # the discriminant local must come from `discriminant(place)` of an ErrMode-typed place in this block
        is_errmode = False
        for st in bb["stmts"]:
            if st["k"] == "assign" and st["rv"]["k"] == "discr":
                pl = st["rv"]["place"]
                ty = prog.types[body["locals"][pl["l"]]]["s"] if not pl["p"] else None
                if ty and ty.startswith(em):
                    is_errmode = True
        if not is_errmode:
            continue
        for val, tgt in t["targets"]:
            if int(val) == inc_discr:
                edges.append((bi, tgt))
    if not edges:
        return set()
    live = reachable(body, removed_edges=edges)
    return set(reachable(body)) - live


def _sccs_of(nodes, succ):
    index, low, onstack, stack, out = {}, {}, set(), [], []
    counter = [0]

    def strong(v):
        index[v] = low[v] = counter[0]
        counter[0] += 1
        stack.append(v)
        onstack.add(v)
        for w in succ(v):
            if w not in nodes:
                continue
            if w not in index:
                strong(w)
                low[v] = min(low[v], low[w])
            elif w in onstack:
                low[v] = min(low[v], index[w])
        if low[v] == index[v]:
            comp = []
            while True:
                w = stack.pop()
                onstack.discard(w)
                comp.append(w)
                if w == v:
                    break
            if len(comp) > 1 or v in succ(v):
                out.append(sorted(comp))
    for v in sorted(nodes):
        if v not in index:
            strong(v)
    return out


GET_LIKE = ("core::slice::<impl [T]>::get", "std::vec::Vec::<T, A>::get", "core::str::<impl str>::get", "core::slice::<impl [T]>::get_mut")


def counter_loop_bounded(body, comp):
    """a loop indexed by a counter: some local c is changed inside the loop only by `c = c + k` (k >= 1 constant), every
    cycle of the loop passes through that assignment, and the loop is left — before the next increment — whenever
    `slice.get(c)` answers None or `c < len` fails, for a slice / length that comes from a std collection.
    Returns the counter local or None."""
    comp_set = set(comp)
    blocks = body["blocks"]
    # candidate counters: c with `t = AddWithOverflow(copy c, const k)` and `c = move t.0` inside the loop
    sums = {}
    for b in comp:
        for st in blocks[b]["stmts"]:
            if st["k"] == "assign" and not st["place"]["p"] and st["rv"].get("k") == "binop" and st["rv"]["op"] in ("AddWithOverflow", "Add"):
                a, k = st["rv"]["a"], st["rv"]["b"].get("const")
                if "copy" in a and not a["copy"]["p"] and k and k.get("kind") == "int" and int(k["v"]) >= 1:
                    sums[st["place"]["l"]] = (a["copy"]["l"], st["rv"]["op"])
    for t, (c, op) in sums.items():
        inc_blocks = set()
        other_writes = False
        for b in comp:
            for st in blocks[b]["stmts"]:
                if st["k"] == "assign" and st["place"]["l"] == c and not st["place"]["p"]:
                    rv = st["rv"]
                    src = rv.get("op", {}) if rv.get("k") == "use" else {}
                    pl = src.get("move") or src.get("copy")
                    if pl and pl["l"] == t and (pl["p"] == [] if op == "Add" else (len(pl["p"]) == 1 and pl["p"][0][0] == "field" and pl["p"][0][1] == 0)):
                        inc_blocks.add(b)
                    else:
                        other_writes = True
            tm = blocks[b]["term"]
            if tm["k"] == "call" and tm.get("dest") and tm["dest"]["l"] == c:
                other_writes = True
        if other_writes or not inc_blocks:
            continue
        rest = comp_set - inc_blocks

        def succ(v):
            return [w for w in successors(body, v) if w in rest]
        if _sccs_of(rest, succ):
            continue                     # some cycle avoids the increment

        def reaches_increment(start):
            seen, stack = set(), [start]
            while stack:
                v = stack.pop()
                if v in seen or v not in comp_set:
                    continue
                if v in inc_blocks:
                    return True
                seen.add(v)
                stack.extend(successors(body, v))
            return False
        # exits tied to the counter
        holders = {}          # local -> True (holds the Option answered by get(c)); tuple local -> {field: True}
        for b in comp:
            tm = blocks[b]["term"]
            cal = callee_of(tm)
            if cal is not None and callee_key(cal) in GET_LIKE and len(tm["args"]) == 2:
                idx = tm["args"][1]
                il = (idx.get("move") or idx.get("copy") or {}).get("l")
                is_c = il == c or any(st["k"] == "assign" and st["place"]["l"] == il and not st["place"]["p"] and st["rv"].get("k") == "use"
                                      and (st["rv"]["op"].get("copy") or st["rv"]["op"].get("move") or {}).get("l") == c
                                      for st in blocks[b]["stmts"])
                if is_c and tm.get("dest") and not tm["dest"]["p"]:
                    holders[tm["dest"]["l"]] = True
        tuples = {}
        for b in comp:
            for st in blocks[b]["stmts"]:
                if st["k"] == "assign" and not st["place"]["p"] and st["rv"].get("k") == "aggr" and st["rv"].get("ak") == "tuple":
                    for i, o in enumerate(st["rv"]["ops"]):
                        l = (o.get("move") or o.get("copy") or {}).get("l")
                        if l in holders:
                            tuples.setdefault(st["place"]["l"], set()).add(i)
        exit_ok = False
        for b in comp:
            tm = blocks[b]["term"]
            if tm["k"] != "switch":
                continue
            for st in blocks[b]["stmts"]:
                if st["k"] == "assign" and st["rv"].get("k") == "discr":
                    pl = st["rv"]["place"]
                    is_holder = (pl["l"] in holders and not pl["p"]) or \
                        (pl["l"] in tuples and len(pl["p"]) == 1 and pl["p"][0][0] == "field" and pl["p"][0][1] in tuples[pl["l"]])
                    if is_holder:
                        none_t = [t2 for v, t2 in tm["targets"] if int(v) == 0]
                        if none_t and all(not reaches_increment(x) for x in none_t):
                            exit_ok = True
                if st["k"] == "assign" and st["rv"].get("k") == "binop" and st["rv"]["op"] in ("Lt", "Le", "Gt", "Ge", "Ne"):
                    a, bb_ = st["rv"]["a"], st["rv"]["b"]
                    la = (a.get("copy") or a.get("move") or {}).get("l")
                    lb = (bb_.get("copy") or bb_.get("move") or {}).get("l")
                    if c in (la, lb):
                        other = lb if la == c else la
                        if other is not None and _is_len_local(body, other):
                            # one of the two branches must leave the loop without another increment
                            tg = [t2 for _, t2 in tm["targets"]] + [tm["otherwise"]]
                            if any(not reaches_increment(x) for x in tg):
                                exit_ok = True
        if exit_ok:
            return c
    return None


SHRINK = ("std::vec::Vec::<T, A>::remove", "std::vec::Vec::<T, A>::swap_remove", "std::vec::Vec::<T, A>::pop",
          "std::collections::VecDeque::<T, A>::pop_front", "std::collections::VecDeque::<T, A>::pop_back")
GROW = ("::push", "::insert", "::extend", "::append", "::extend_from_slice", "::push_back", "::push_front", "::resize")


def shrinking_loop_bounded(body, comp):
    """a loop that takes an element out of a local collection on every turn (`remove`, `swap_remove`, or `pop` whose
    `None` leaves the loop) and never adds to that collection inside the loop: the length is a ranking function"""
    comp_set = set(comp)
    blocks = body["blocks"]

    def ref_target(b, arg):
        """the local a `&mut V` argument refers to (defined in block b by `_t = &mut _V`)"""
        l = (arg.get("move") or arg.get("copy") or {}).get("l")
        for st in blocks[b]["stmts"]:
            if st["k"] == "assign" and st["place"]["l"] == l and not st["place"]["p"] and st["rv"].get("k") == "ref":
                pl = st["rv"]["place"]
                if not pl["p"]:
                    return pl["l"]
        return None
    shrink_blocks = {}
    for b in comp:
        tm = blocks[b]["term"]
        c = callee_of(tm)
        if c is not None and callee_key(c) in SHRINK and tm.get("args"):
            v = ref_target(b, tm["args"][0])
            if v is not None:
                shrink_blocks.setdefault(v, []).append((b, callee_key(c), tm))
    for v, lst in shrink_blocks.items():
        grows = False
        for b in comp:
            tm = blocks[b]["term"]
            c = callee_of(tm)
            if c is not None and callee_key(c).endswith(GROW) and tm.get("args") and ref_target(b, tm["args"][0]) == v:
                grows = True
        if grows:
            continue
        sb = set(b for b, _, _ in lst)
        rest = comp_set - sb

        def succ(x):
            return [w for w in successors(body, x) if w in rest]
        if _sccs_of(rest, succ):
            continue
        ok = True
        for b, k, tm in lst:
            if k.endswith("::pop") or "pop_" in k:
                # the None answer must leave the loop before the next pop
                d = tm.get("dest", {}).get("l")
                left = False
                for b2 in comp:
                    t2 = blocks[b2]["term"]
                    if t2["k"] != "switch":
                        continue
                    for st in blocks[b2]["stmts"]:
                        if st["k"] == "assign" and st["rv"].get("k") == "discr" and st["rv"]["place"]["l"] == d and not st["rv"]["place"]["p"]:
                            none_t = [t3 for val, t3 in t2["targets"] if int(val) == 0]
                            seen, stack, back = set(), list(none_t), False
                            while stack:
                                x = stack.pop()
                                if x in seen or x not in comp_set:
                                    continue
                                if x in sb:
                                    back = True
                                    break
                                seen.add(x)
                                stack.extend(successors(body, x))
                            if none_t and not back:
                                left = True
                if not left:
                    ok = False
        if ok:
            return v
    return None


def dividing_loop_bounded(body, comp):
    """`while n != 0 { … n /= c; }` (c a constant >= 2): inside the loop the local n is only ever assigned n / c, every
    turn passes through that assignment and through a test of n against 0 that can leave the loop. n strictly
    decreases while it is positive, so the loop makes at most log_c(n) + 1 turns. Returns the local or None."""
    comp_set = set(comp)
    blocks = body["blocks"]

    def opl(o):
        x = o.get("copy") or o.get("move")
        return x["l"] if x and not x["p"] else None
    cands = {}
    other_writes = set()
    for b in comp:
        for st in blocks[b]["stmts"]:
            if st["k"] != "assign" or st["place"]["p"]:
                continue
            l, rv = st["place"]["l"], st["rv"]
            if rv.get("k") == "binop" and rv["op"] == "Div" and opl(rv["a"]) == l and rv["b"].get("const") \
                    and rv["b"]["const"].get("kind") == "int" and int(rv["b"]["const"]["v"]) >= 2:
                cands.setdefault(l, set()).add(b)
            else:
                other_writes.add(l)
        tm = blocks[b]["term"]
        if tm["k"] == "call" and tm.get("dest") and not tm["dest"]["p"]:
            other_writes.add(tm["dest"]["l"])
    for n, div_blocks in cands.items():
        if n in other_writes:
            continue
        # references to n taken inside the loop could write through them
        if any(st["k"] == "assign" and st["rv"].get("k") in ("ref", "rawptr") and st["rv"]["place"]["l"] == n
               for b in comp for st in blocks[b]["stmts"]):
            continue
        rest = comp_set - div_blocks

        def succ(x, rest=rest):
            return [w for w in successors(body, x) if w in rest]
        if _sccs_of(rest, succ):
            continue
        # a zero test on n with an edge out of the loop, on every cycle
        tests = set()
        for b in comp:
            tm = blocks[b]["term"]
            if tm["k"] != "switch":
                continue
            d = opl(tm["discr"])
            for st in blocks[b]["stmts"]:
                if st["k"] == "assign" and not st["place"]["p"] and st["place"]["l"] == d and st["rv"].get("k") == "binop" \
                        and st["rv"]["op"] in ("Ne", "Eq", "Gt", "Lt"):
                    a, c = st["rv"]["a"], st["rv"]["b"]
                    zero = lambda o: o.get("const") and o["const"].get("kind") == "int" and int(o["const"]["v"]) == 0

                    def is_n(o):
                        l = opl(o)
                        if l == n:
                            return True
                        return any(s2["k"] == "assign" and not s2["place"]["p"] and s2["place"]["l"] == l and s2["rv"].get("k") == "use"
                                   and opl(s2["rv"]["op"]) == n for s2 in blocks[b]["stmts"])
                    if (is_n(a) and zero(c)) or (zero(a) and is_n(c)):
                        if any(t not in comp_set for t in [t3 for _, t3 in tm["targets"]] + [tm["otherwise"]]):
                            tests.add(b)
        if not tests:
            continue
        rest2 = comp_set - tests

        def succ2(x, rest2=rest2):
            return [w for w in successors(body, x) if w in rest2]
        if _sccs_of(rest2, succ2):
            continue
        return n
    return None


def _is_len_local(body, l):
    """the local is only ever assigned the result of a std `len()`-like call (or a copy of such a local)"""
    ok_any = False
    for bb in body["blocks"]:
        for st in bb["stmts"]:
            if st["k"] == "assign" and st["place"]["l"] == l and not st["place"]["p"]:
                rv = st["rv"]
                src = (rv.get("op", {}).get("copy") or rv.get("op", {}).get("move")) if rv.get("k") == "use" else None
                if src and not src["p"] and src["l"] != l and _is_len_local(body, src["l"]):
                    ok_any = True
                else:
                    return False
        tm = bb["term"]
        if tm["k"] == "call" and tm.get("dest") and tm["dest"]["l"] == l and not tm["dest"]["p"]:
            c = callee_of(tm)
            k = callee_key(c) if c else ""
            if k.endswith("::len") and k.startswith(("std::", "core::", "alloc::", "<std::", "<core::")):
                ok_any = True
            else:
                return False
    return ok_any


def unbounded_loops(body, prog=None, key=None):
    """loop nests of a body that are not driven by a std collection iterator: list of block sets.
    A loop is accepted when it contains an `Iterator::next` call on a collection iterator; the nest inside it
    (the loop with that block removed) is examined recursively."""
    bad = []
    nodes = set(b for b in reachable(body) if not body["blocks"][b]["cleanup"])

    def succ(v):
        return [w for w in successors(body, v) if not body["blocks"][w]["cleanup"]]

    def examine(comp):
        hdr = None
        for b in comp:
            c = callee_of(body["blocks"][b]["term"])
            if c is not None:
                r = loop_is_iterator_bounded(body, [b])
                if r and r.startswith("generic:") and not (prog is not None and key is not None and generic_iterator_callers_bounded(prog, key)):
                    r = None
                if r:
                    hdr = b
                    break
        if hdr is None:
            if counter_loop_bounded(body, comp) is None and shrinking_loop_bounded(body, comp) is None \
                    and dividing_loop_bounded(body, comp) is None:
                bad.append(comp)
            return
        rest = set(comp) - {hdr}
        for inner in _sccs_of(rest, succ):
            examine(inner)
    for comp in _sccs_of(nodes, succ):
        examine(comp)
    return bad


def reach_callees(prog, start):
    """every callee key (crate or not) called from `start` or from a crate body reachable from it (closures, helpers)"""
    seen, stack, out = set(), [start], set()
    while stack:
        k = stack.pop()
        if k in seen or k not in prog.bodies:
            continue
        seen.add(k)
        for bb in prog.bodies[k]["blocks"]:
            c = callee_of(bb["term"])
            if c is not None:
                out.add(callee_key(c))
        for c in local_callees(prog, k):
            stack.append(c)
    return out, seen


def delegates_to_parse(prog, start, from_str, parse):
    """`start` reaches `parse` either directly, through `from_str`, or through str::parse (which calls FromStr::from_str,
    required to call `parse`)"""
    callees, bodies = reach_callees(prog, start)
    if parse in callees:
        return True
    # `parse` and `from_str` are the same entry point when either delegates to the other
    fs_ok = from_str in prog.bodies and (parse in reach_callees(prog, from_str)[0] or
                                         (parse in prog.bodies and (from_str in reach_callees(prog, parse)[0] or
                                                                    any("core::str::<impl str>::parse" in c for c in reach_callees(prog, parse)[0]))))
    if from_str in callees or from_str in bodies:
        return fs_ok
    if any("core::str::<impl str>::parse" in c for c in callees):
        return fs_ok
    return False


def deserializes_borrowed_str(prog, start):
    """the text is obtained with `<&str as Deserialize>::deserialize`, which only accepts strings borrowed from the
    deserializer's input (fails for readers, `serde_json::Value`, escaped JSON text)"""
    callees, _ = reach_callees(prog, start)
    return any("serde::Deserialize<'de> for &'a str>::deserialize" in c or "Deserialize<'de> for &" in c and " str>" in c for c in callees)
