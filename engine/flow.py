"""E-FLOW: structural rules over the exported MIR (no interpretation): panic-site inventory, CFG and
call-graph utilities, loops and recursion, dead-edge reachability."""

PANIC_CALLEES = {
    "std::option::Option::<T>::unwrap": "unwrap",
    "std::option::Option::<T>::expect": "expect",
    "std::result::Result::<T, E>::unwrap": "unwrap",
    "std::result::Result::<T, E>::expect": "expect",
    "std::result::Result::<T, E>::unwrap_err": "unwrap",
    "std::result::Result::<T, E>::expect_err": "expect",
    "core::panicking::panic_fmt": "panic_fmt",
    "core::panicking::panic": "panic",
    "core::panicking::panic_display": "panic",
    "core::panicking::panic_explicit": "panic",
    "core::panicking::unreachable_display": "panic",
    "core::panicking::assert_failed": "panic",
    "std::rt::begin_panic": "panic",
    "core::option::unwrap_failed": "panic",
    "core::result::unwrap_failed": "panic",
    "core::slice::index::slice_index_fail": "index",
    "core::str::slice_error_fail": "index",
}


def callee_of(term):
    if term["k"] != "call":
        return None
    f = term["func"]
    if "const" in f and f["const"].get("kind") == "fn":
        return f["const"]
    return None


def callee_key(c):
    r = c.get("resolved")
    return r["def"] if r else c["def"]


def is_index_call(c):
    k = callee_key(c)
    return "std::ops::Index<" in k or "std::ops::IndexMut<" in k or k.endswith("::index") and "Index" in k


def panic_sites(prog):
    """every construct of the crate that can panic: Assert terminators and calls of panicking std functions"""
    sites = []
    for key, body in prog.bodies.items():
        for bi, bb in enumerate(body["blocks"]):
            if bb["cleanup"]:
                continue
            t = bb["term"]
            if t["k"] == "assert":
                sites.append({"owner": key, "bb": bi, "kind": "assert", "detail": t["msg_full"], "msg": t["msg"],
                              "span": t["span"]})
            c = callee_of(t)
            if c is not None:
                k = callee_key(c)
                if k in PANIC_CALLEES:
                    sites.append({"owner": key, "bb": bi, "kind": PANIC_CALLEES[k], "detail": c.get("def_args", k),
                                  "span": t["span"]})
                elif is_index_call(c):
                    sites.append({"owner": key, "bb": bi, "kind": "index", "detail": (c.get("resolved") or c).get("def_args", k),
                                  "span": t["span"]})
                elif t.get("target") is None and not k.startswith("core::panicking"):
                    sites.append({"owner": key, "bb": bi, "kind": "diverging-call", "detail": k, "span": t["span"]})
    return sites


def successors(body, bi, skip_cleanup=True):
    t = body["blocks"][bi]["term"]
    k = t["k"]
    out = []
    if k == "goto":
        out = [t["target"]]
    elif k == "switch":
        out = [x[1] for x in t["targets"]] + [t["otherwise"]]
    elif k in ("call", "drop", "assert"):
        if t.get("target") is not None:
            out = [t["target"]]
    return out


def reachable(body, removed_edges=()):
    seen = {0}
    stack = [0]
    removed = set(removed_edges)
    while stack:
        b = stack.pop()
        for s in successors(body, b):
            if (b, s) in removed or s in seen:
                continue
            seen.add(s)
            stack.append(s)
    return seen


def cfg_sccs(body):
    """non-trivial strongly connected components of the non-cleanup CFG (= loops)"""
    n = len(body["blocks"])
    index = {}
    low = {}
    onstack = set()
    stack = []
    out = []
    counter = [0]
    import sys
    sys.setrecursionlimit(max(10000, n * 4))

    def strong(v):
        index[v] = low[v] = counter[0]
        counter[0] += 1
        stack.append(v)
        onstack.add(v)
        for w in successors(body, v):
            if body["blocks"][w]["cleanup"]:
                continue
            if w not in index:
                strong(w)
                low[v] = min(low[v], low[w])
            elif w in onstack:
                low[v] = min(low[v], index[w])
        if low[v] == index[v]:
            comp = []
            while True:
                w = stack.pop()
                onstack.discard(w)
                comp.append(w)
                if w == v:
                    break
            if len(comp) > 1 or v in successors(body, v):
                out.append(sorted(comp))
    for v in sorted(reachable(body)):
        if v not in index:
            strong(v)
    return out


def local_callees(prog, key):
    """crate bodies a body may call or hand out as a function value (closures, fn items)"""
    out = set()

    def walk(o):
        if isinstance(o, dict):
            if o.get("kind") == "fn" and "def" in o:
                r = o.get("resolved")
                k = r["def"] if r else o["def"]
                if k in prog.bodies:
                    out.add(k)
            if o.get("ak") == "closure" and o.get("def") in prog.bodies:
                out.add(o["def"])
            if o.get("kind") == "closure" and o.get("def") in prog.bodies:
                out.add(o["def"])
            for v in o.values():
                walk(v)
        elif isinstance(o, list):
            for v in o:
                walk(v)
    walk(prog.bodies[key]["blocks"])
    return out


def call_graph_cycles(prog):
    graph = {k: local_callees(prog, k) for k in prog.bodies}
    index, low, onstack, stack, out = {}, {}, set(), [], []
    counter = [0]

    def strong(v):
        index[v] = low[v] = counter[0]
        counter[0] += 1
        stack.append(v)
        onstack.add(v)
        for w in graph[v]:
            if w not in index:
                strong(w)
                low[v] = min(low[v], low[w])
            elif w in onstack:
                low[v] = min(low[v], index[w])
        if low[v] == index[v]:
            comp = []
            while True:
                w = stack.pop()
                onstack.discard(w)
                comp.append(w)
                if w == v:
                    break
            if len(comp) > 1 or v in graph[v]:
                out.append(sorted(comp))
    for v in graph:
        if v not in index:
            strong(v)
    return out, graph


ITER_NEXT = ("std::iter::Iterator>::next", "std::iter::Iterator::next")


UNBOUNDED_SOURCES = ("std::iter::Repeat<", "std::iter::RepeatWith<", "std::ops::RangeFrom<", "std::iter::FromFn<",
                     "std::iter::Successors<", "std::iter::Cycle<", "std::iter::from_fn", "std::iter::successors")
STD_ITER_PREFIXES = ("std::", "core::", "alloc::")


def loop_is_iterator_bounded(body, comp):
    """a CFG loop is bounded when it contains a call of Iterator::next on a std iterator whose instantiated type
    names no unbounded source (Repeat, RepeatWith, RangeFrom, FromFn, Successors, Cycle): every other std iterator
    is finite when its sources are (slices, vectors, arrays, strings, options, bounded integer ranges)"""
    for b in comp:
        c = callee_of(body["blocks"][b]["term"])
        if c is None:
            continue
        k = callee_key(c)
        if not k.endswith(ITER_NEXT):
            continue
        inst = (c.get("resolved") or c).get("def_args") or k
        if not inst.startswith("<"):
            continue
        self_ty = inst[1:].split(" as std::iter::Iterator>")[0]
        if self_ty.startswith("&mut "):
            self_ty = self_ty[5:]
        if not self_ty.startswith(STD_ITER_PREFIXES):
            continue            # a crate-defined iterator: not covered by this rule
        if any(u in self_ty for u in UNBOUNDED_SOURCES):
            continue
        if "impl " in self_ty or "dyn " in self_ty:
            continue            # opaque: the source is not visible in the type
        return inst
    return None


def errmode_incomplete_dead_blocks(prog, body):
    """blocks only reachable through the `ErrMode::Incomplete` edge of a match on an ErrMode value"""
    em = "winnow::error::ErrMode"
    if em not in prog.adts:
        return set()
    inc_discr = None
    for i, v in enumerate(prog.adts[em]["variants"]):
        if v["name"] == "Incomplete":
            inc_discr = int(v["discr"])
    edges = []
    for bi, bb in enumerate(body["blocks"]):
        t = bb["term"]
        if t["k"] != "switch":
            continue
        # the discriminant local must come from `discriminant(place)` of an ErrMode-typed place in this block
        is_errmode = False
        for st in bb["stmts"]:
            if st["k"] == "assign" and st["rv"]["k"] == "discr":
                pl = st["rv"]["place"]
                ty = prog.types[body["locals"][pl["l"]]]["s"] if not pl["p"] else None
                if ty and ty.startswith(em):
                    is_errmode = True
        if not is_errmode:
            continue
        for val, tgt in t["targets"]:
            if int(val) == inc_discr:
                edges.append((bi, tgt))
    if not edges:
        return set()
    live = reachable(body, removed_edges=edges)
    return set(reachable(body)) - live


def _sccs_of(nodes, succ):
    index, low, onstack, stack, out = {}, {}, set(), [], []
    counter = [0]

    def strong(v):
        index[v] = low[v] = counter[0]
        counter[0] += 1
        stack.append(v)
        onstack.add(v)
        for w in succ(v):
            if w not in nodes:
                continue
            if w not in index:
                strong(w)
                low[v] = min(low[v], low[w])
            elif w in onstack:
                low[v] = min(low[v], index[w])
        if low[v] == index[v]:
            comp = []
            while True:
                w = stack.pop()
                onstack.discard(w)
                comp.append(w)
                if w == v:
                    break
            if len(comp) > 1 or v in succ(v):
                out.append(sorted(comp))
    for v in sorted(nodes):
        if v not in index:
            strong(v)
    return out


def unbounded_loops(body):
    """loop nests of a body that are not driven by a std collection iterator: list of block sets.
    A loop is accepted when it contains an `Iterator::next` call on a collection iterator; the nest inside it
    (the loop with that block removed) is examined recursively."""
    bad = []
    nodes = set(b for b in reachable(body) if not body["blocks"][b]["cleanup"])

    def succ(v):
        return [w for w in successors(body, v) if not body["blocks"][w]["cleanup"]]

    def examine(comp):
        hdr = None
        for b in comp:
            c = callee_of(body["blocks"][b]["term"])
            if c is not None and loop_is_iterator_bounded(body, [b]):
                hdr = b
                break
        if hdr is None:
            bad.append(comp)
            return
        rest = set(comp) - {hdr}
        for inner in _sccs_of(rest, succ):
            examine(inner)
    for comp in _sccs_of(nodes, succ):
        examine(comp)
    return bad


def reach_callees(prog, start):
    """every callee key (crate or not) called from `start` or from a crate body reachable from it (closures, helpers)"""
    seen, stack, out = set(), [start], set()
    while stack:
        k = stack.pop()
        if k in seen or k not in prog.bodies:
            continue
        seen.add(k)
        for bb in prog.bodies[k]["blocks"]:
            c = callee_of(bb["term"])
            if c is not None:
                out.add(callee_key(c))
        for c in local_callees(prog, k):
            stack.append(c)
    return out, seen


def delegates_to_parse(prog, start, from_str, parse):
    """`start` reaches `parse` either directly, through `from_str`, or through str::parse (which calls FromStr::from_str,
    required to call `parse`)"""
    callees, bodies = reach_callees(prog, start)
    if parse in callees:
        return True
    fs_ok = from_str in prog.bodies and parse in reach_callees(prog, from_str)[0]
    if from_str in callees or from_str in bodies:
        return fs_ok
    if any("core::str::<impl str>::parse" in c for c in callees):
        return fs_ok
    return False
