"""Models of core/alloc/winnow functions for the abstract interpreter (the trusted base of E-TAB).

Each model transcribes the documented behaviour of the function it stands for on the abstract
values of `interp.py`. Functions not listed here make the analysis of their caller
INCONCLUSIVE (never silently pass).
"""
from .interp import (Adt, BoxV, BytesV, Cell, Clo, FnV, Inconclusive, ListV, NONE, Panic, Ptr, Sparse, StrV,
                     Tok, UNINIT, UNIT, err, is_some, ok, ordering, ordering_to_int, some)

MODELS = {}


def model(*keys):
    def deco(f):
        for k in keys:
            MODELS[k] = f
        return f
    return deco


def call(interp, info, args):
    res = info.get("resolved")
    keys = []
    if res:
        keys.append(res["def"])
    keys.append(info["def"])
    for k in keys:
        m = MODELS.get(k)
        if m is not None:
            return m(interp, args, info)
    if keys[0].startswith("std::convert::num::<impl std::convert::From<") and keys[0].endswith(">::from") and len(args) == 1 \
            and (isinstance(args[0], Tok) or (isinstance(args[0], int))):
        return args[0]                 # lossless integer widening (u8 -> u32, u64 -> u128, bool -> u8 …)
    # trait methods that could not be resolved statically (generic code): dispatch on the value
    tr = info.get("trait")
    if tr:
        m = MODELS.get(tr + "::" + info.get("method", ""))
        if m is not None:
            return m(interp, args, info)
    raise Inconclusive("no model for callee %s" % (keys[0],), interp.where())


# --------------------------------------------------------------------------- token hooks

def tok_field(interp, t, elem):
    if t.extra and "fields" in t.extra and elem in t.extra["fields"]:
        return t.extra["fields"][elem]
    if t.kind == "V" and isinstance(elem, int):
        # an opaque version whose fields are looked at although the analysis treats it as a point of the order:
        # the field values are free (explored), so a result that depends on them cannot match the reference in
        # every branch. Numeric fields: equality-only tokens with a chosen class; prerelease list: empty or not.
        names = interp.prog.field_names("Version")
        fname = names[elem] if elem < len(names) else None
        memo = interp.__dict__.setdefault("_lazy_fields", {})
        k = (t.name, fname)
        if k not in memo:
            if fname in ("major", "minor", "patch"):
                memo[k] = Tok("I", "%s.%s" % (t.name, fname), interp.ctx.choose("free-field", 2), dom=fname, extra={"eq_only": True})
            elif fname == "pre_release":
                memo[k] = Tok("L", "%s.pre_release" % t.name, (0,) if interp.ctx.choose("free-prerelease", 2) else (),
                              dom="pre_release:" + t.name)
            else:
                raise Inconclusive("field %s of opaque version %r" % (fname, t), interp.where())
        return memo[k]
    raise Inconclusive("field projection %r on opaque token %r" % (elem, t), interp.where())


def tok_cast(interp, t, from_ix, to_ix):
    if t.kind == "C":
        bits, _ = interp.mask_bits(to_ix)
        if bits == 8:
            interp.events.append(("char_as_u8", interp.where()))
            return t.val & 0xFF
        raise Inconclusive("cast of char token to %d bits" % bits, interp.where())
    if t.kind == "I":
        fb, fs = interp.mask_bits(from_ix)
        tb, ts = interp.mask_bits(to_ix)
        # value preserving for the non-negative values a token stands for when not narrowing
        if tb >= fb or (tb == fb):
            interp.events.append(("int_cast", fb, fs, tb, ts))
            return t
        raise Inconclusive("narrowing cast of integer token", interp.where())
    raise Inconclusive("cast of token %r" % (t,), interp.where())


def tok_discr(interp, t):
    raise Inconclusive("discriminant of opaque token %r" % (t,), interp.where())


def tok_len(interp, t):
    if t.kind in ("L", "T") and t.extra and "len" in t.extra:
        return t.extra["len"]
    raise Inconclusive("length of opaque token %r" % (t,), interp.where())


def tok_switch(interp, t, term):
    """SwitchInt on a token: allowed for integer tokens against literals of the policy."""
    if t.kind == "I":
        lits = [int(v) for v, _ in term["targets"]]
        for l in lits:
            interp.policy.int_cmp(interp, t, l, "Eq")
        return t.val + t.off
    if t.kind == "C" and t.dom == "input-first-byte" and hasattr(interp.policy, "first_byte_decide"):
        return interp.policy.first_byte_decide(interp, t, [int(v) for v, _ in term["targets"]])
    if t.kind == "C":  # abstract char: exact for comparisons with ASCII literals
        lits = [int(v) for v, _ in term["targets"]]
        if any(l >= 0x80 for l in lits):
            raise Inconclusive("char token matched against non-ASCII literal", interp.where())
        return t.val
    if t.kind == "N":  # length token: only `== 0` tests
        lits = [int(v) for v, _ in term["targets"]]
        if any(l != 0 for l in lits):
            raise Inconclusive("length token compared with %r" % (lits,), interp.where())
        return t.val
    raise Inconclusive("switch on token %r" % (t,), interp.where())


# --------------------------------------------------------------------------- generic dispatch

def mkref(v):
    return Ptr(Cell(v), ())


def _adt_is_local(interp, v):
    ad = interp.prog.adts.get(v.name)
    return bool(ad and ad.get("local"))


def cmp_values(interp, a, b):
    """Ord::cmp on two values (references and boxes are transparent) -> -1/0/1"""
    a, b = interp.strip(a), interp.strip(b)
    if isinstance(a, Tok) or isinstance(b, Tok):
        if isinstance(a, Tok) and isinstance(b, Tok) and a.kind == b.kind and a.kind in ("V", "L", "T"):
            if a.kind == "T" and a.dom != b.dom and {a.dom, b.dom} <= {"numtext", "ident-str"}:
                # the decimal text of a number against the text of an alphanumeric identifier (which may start with a
                # digit or a hyphen): both orders are realisable ("3" vs "2-x", "3" vs "alpha"), never equal
                return -1 if interp.ctx.choose("text-order", 2) == 0 else 1
            if a.kind == "T" and a.dom == b.dom == "numtext" and a.val != b.val:
                # decimal texts of two different numbers: text order need not follow numeric order ("10" < "9")
                return -1 if interp.ctx.choose("text-order", 2) == 0 else 1
            if a.dom != b.dom:
                raise Inconclusive("comparison across domains %r %r" % (a, b), interp.where())
            interp.events.append(("cmp", a.name, b.name))
            return (a.val > b.val) - (a.val < b.val)
        x, y = interp.policy.int_cmp(interp, a, b)
        return (x > y) - (x < y)
    if isinstance(a, bool) or isinstance(a, int):
        return (a > b) - (a < b)
    if isinstance(a, Adt) and isinstance(b, Adt):
        if _adt_is_local(interp, a):
            k = interp.prog.impl_method("std::cmp::Ord", a.name, "cmp")
            if k:
                return ordering_to_int(interp.call_key(k, [mkref(a), mkref(b)]))
            r = partial_cmp_values(interp, a, b)
            if r is None:
                raise Inconclusive("partial_cmp returned None for %s" % a.name, interp.where())
            return r
        if a.name == "std::cmp::Ordering":
            return (a.variant > b.variant) - (a.variant < b.variant)
        if a.name in ("std::option::Option", "std::result::Result"):
            if a.variant != b.variant:
                return (a.variant > b.variant) - (a.variant < b.variant)
            return cmp_values(interp, a.fields, b.fields)
        raise Inconclusive("Ord::cmp on foreign ADT %s" % a.name, interp.where())
    if isinstance(a, StrV) and isinstance(b, StrV):
        x, y = a.s.encode(), b.s.encode()
        return (x > y) - (x < y)
    if isinstance(a, ListV) and isinstance(b, ListV):
        return cmp_values(interp, a.items, b.items) if False else _lex(interp, a.items, b.items)
    if isinstance(a, tuple) and isinstance(b, tuple):
        return _lex(interp, a, b)
    raise Inconclusive("Ord::cmp on %r / %r" % (a, b), interp.where())


def _lex(interp, xs, ys):
    for x, y in zip(xs, ys):
        c = cmp_values(interp, x, y)
        if c:
            return c
    return (len(xs) > len(ys)) - (len(xs) < len(ys))


def partial_cmp_values(interp, a, b):
    a, b = interp.strip(a), interp.strip(b)
    if isinstance(a, Adt) and _adt_is_local(interp, a):
        k = interp.prog.impl_method("std::cmp::PartialOrd", a.name, "partial_cmp")
        if k:
            r = interp.call_key(k, [mkref(a), mkref(b)])
            if is_some(r):
                return ordering_to_int(r.fields[0])
            return None
        raise Inconclusive("no PartialOrd impl for %s" % a.name, interp.where())
    return cmp_values(interp, a, b)


def eq_values(interp, a, b):
    a, b = interp.strip(a), interp.strip(b)
    if isinstance(a, Tok) or isinstance(b, Tok):
        if isinstance(a, Tok) and isinstance(b, Tok) and a.kind == b.kind and a.kind in ("V", "L", "T", "S"):
            if a.dom != b.dom:
                raise Inconclusive("equality across domains %r %r" % (a, b), interp.where())
            interp.events.append(("eq", a.name, b.name))
            return a.val == b.val
        x, y = interp.policy.int_cmp(interp, a, b, "Eq")
        return x == y
    if isinstance(a, (bool, int)) and isinstance(b, (bool, int)):
        return a == b
    if isinstance(a, Adt) and isinstance(b, Adt):
        if _adt_is_local(interp, a):
            k = interp.prog.impl_method("std::cmp::PartialEq", a.name, "eq")
            if k:
                r = interp.call_key(k, [mkref(a), mkref(b)])
                if not isinstance(r, bool):
                    raise Inconclusive("eq returned %r" % (r,), interp.where())
                return r
            raise Inconclusive("no PartialEq impl for %s" % a.name, interp.where())
        if a.name != b.name:
            raise Inconclusive("eq on different ADTs", interp.where())
        if a.variant != b.variant:
            return False
        return all(eq_values(interp, x, y) for x, y in zip(a.fields, b.fields))
    if isinstance(a, StrV) and isinstance(b, StrV):
        return a.s == b.s
    if isinstance(a, ListV) and isinstance(b, ListV):
        return len(a.items) == len(b.items) and all(eq_values(interp, x, y) for x, y in zip(a.items, b.items))
    if isinstance(a, tuple) and isinstance(b, tuple):
        return len(a) == len(b) and all(eq_values(interp, x, y) for x, y in zip(a, b))
    raise Inconclusive("PartialEq::eq on %r / %r" % (a, b), interp.where())


def clone_value(interp, v):
    if isinstance(v, Ptr):
        return v  # &T: Copy
    if isinstance(v, BoxV):
        return BoxV(Cell(clone_value(interp, v.cell.v)))
    if isinstance(v, (Tok, bool, int, StrV, FnV, BytesV)):
        return v
    if isinstance(v, Adt):
        if _adt_is_local(interp, v):
            k = interp.prog.impl_method("std::clone::Clone", v.name, "clone")
            if k:
                return interp.call_key(k, [mkref(v)])
            raise Inconclusive("no Clone impl for %s" % v.name, interp.where())
        return Adt(v.name, v.variant, [clone_value(interp, f) for f in v.fields])
    if isinstance(v, ListV):
        return ListV([clone_value(interp, x) for x in v.items])
    if isinstance(v, tuple):
        return tuple(clone_value(interp, x) for x in v)
    if isinstance(v, Clo):
        return v
    raise Inconclusive("Clone::clone on %r" % (v,), interp.where())


# --------------------------------------------------------------------------- cmp / clone traits

@model("std::cmp::PartialOrd::lt", "<std::boxed::Box<T, A> as std::cmp::PartialOrd>::lt",
       "std::cmp::impls::<impl std::cmp::PartialOrd<&B> for &A>::lt")
def m_lt(interp, args, info):
    return _rel(interp, args, "lt")


@model("std::cmp::PartialOrd::le", "<std::boxed::Box<T, A> as std::cmp::PartialOrd>::le",
       "std::cmp::impls::<impl std::cmp::PartialOrd<&B> for &A>::le")
def m_le(interp, args, info):
    return _rel(interp, args, "le")


@model("std::cmp::PartialOrd::gt", "<std::boxed::Box<T, A> as std::cmp::PartialOrd>::gt",
       "std::cmp::impls::<impl std::cmp::PartialOrd<&B> for &A>::gt")
def m_gt(interp, args, info):
    return _rel(interp, args, "gt")


@model("std::cmp::PartialOrd::ge", "<std::boxed::Box<T, A> as std::cmp::PartialOrd>::ge",
       "std::cmp::impls::<impl std::cmp::PartialOrd<&B> for &A>::ge")
def m_ge(interp, args, info):
    return _rel(interp, args, "ge")


def _rel(interp, args, which):
    a, b = interp.strip(args[0]), interp.strip(args[1])
    if isinstance(a, Adt) and _adt_is_local(interp, a):
        k = interp.prog.impl_method("std::cmp::PartialOrd", a.name, which)
        if k:  # the impl overrides the default method
            return interp.call_key(k, [mkref(a), mkref(b)])
    c = partial_cmp_values(interp, a, b)
    if c is None:
        return False
    return {"lt": c < 0, "le": c <= 0, "gt": c > 0, "ge": c >= 0}[which]


@model("std::cmp::PartialOrd::partial_cmp", "std::cmp::impls::<impl std::cmp::PartialOrd for u64>::partial_cmp",
       "std::cmp::impls::<impl std::cmp::PartialOrd for isize>::partial_cmp",
       "<std::string::String as std::cmp::PartialOrd>::partial_cmp",
       "<std::boxed::Box<T, A> as std::cmp::PartialOrd>::partial_cmp",
       "std::cmp::impls::<impl std::cmp::PartialOrd<&B> for &A>::partial_cmp")
def m_partial_cmp(interp, args, info):
    c = partial_cmp_values(interp, args[0], args[1])
    return NONE if c is None else some(ordering(c))


@model("std::cmp::Ord::cmp", "std::cmp::impls::<impl std::cmp::Ord for u64>::cmp",
       "std::cmp::impls::<impl std::cmp::Ord for isize>::cmp", "std::cmp::impls::<impl std::cmp::Ord for usize>::cmp",
       "<std::string::String as std::cmp::Ord>::cmp", "<std::vec::Vec<T, A> as std::cmp::Ord>::cmp",
       "<std::boxed::Box<T, A> as std::cmp::Ord>::cmp", "std::cmp::impls::<impl std::cmp::Ord for &A>::cmp")
def m_cmp(interp, args, info):
    return ordering(cmp_values(interp, args[0], args[1]))


@model("std::cmp::PartialEq::eq", "<std::boxed::Box<T, A> as std::cmp::PartialEq>::eq",
       "std::cmp::impls::<impl std::cmp::PartialEq<&B> for &A>::eq",
       "<std::cmp::Ordering as std::cmp::PartialEq>::eq", "<std::string::String as std::cmp::PartialEq>::eq",
       "std::vec::partial_eq::<impl std::cmp::PartialEq<std::vec::Vec<U, A2>> for std::vec::Vec<T, A1>>::eq",
       "<std::option::Option<T> as std::cmp::PartialEq>::eq", "<miette::SourceSpan as std::cmp::PartialEq>::eq")
def m_eq(interp, args, info):
    return eq_values(interp, args[0], args[1])


@model("std::cmp::PartialEq::ne", "<std::boxed::Box<T, A> as std::cmp::PartialEq>::ne",
       "std::cmp::impls::<impl std::cmp::PartialEq<&B> for &A>::ne")
def m_ne(interp, args, info):
    return not eq_values(interp, args[0], args[1])


def _lt_vals(interp, a, b):
    c = partial_cmp_values(interp, a, b)
    return c is not None and c < 0


@model("std::cmp::max", "std::cmp::Ord::max")
def m_max(interp, args, info):
    v1, v2 = args
    if getattr(interp, "std_variant", "lt") == "lt":
        return v1 if _lt_vals(interp, v2, v1) else v2       # if other < self { self } else { other }
    return v1 if cmp_values(interp, v1, v2) > 0 else v2     # max_by(v1, v2, Ord::cmp)


@model("std::cmp::min", "std::cmp::Ord::min")
def m_min(interp, args, info):
    v1, v2 = args
    if getattr(interp, "std_variant", "lt") == "lt":
        return v2 if _lt_vals(interp, v2, v1) else v1       # if other < self { other } else { self }
    return v2 if cmp_values(interp, v1, v2) > 0 else v1     # min_by(v1, v2, Ord::cmp)


@model("std::clone::Clone::clone", "<std::boxed::Box<T, A> as std::clone::Clone>::clone",
       "<std::vec::Vec<T, A> as std::clone::Clone>::clone", "<std::option::Option<T> as std::clone::Clone>::clone",
       "<std::string::String as std::clone::Clone>::clone", "std::clone::impls::<impl std::clone::Clone for u64>::clone",
       "std::clone::impls::<impl std::clone::Clone for &T>::clone", "<miette::SourceSpan as std::clone::Clone>::clone",
       "<std::num::ParseIntError as std::clone::Clone>::clone")
def m_clone(interp, args, info):
    return clone_value(interp, interp.load(args[0]))


# --------------------------------------------------------------------------- Box / Vec / Option / Result

@model("std::boxed::Box::<T>::new")
def m_box_new(interp, args, info):
    return BoxV(Cell(args[0]))


@model("std::boxed::Box::<T>::new_uninit")
def m_box_new_uninit(interp, args, info):
    return BoxV(Cell(UNINIT))


@model("std::boxed::box_assume_init_into_vec_unsafe")
def m_box_into_vec(interp, args, info):
    v = args[0].cell.v
    while isinstance(v, Sparse) and len(v.d) == 1:
        v = list(v.d.values())[0]
    if not isinstance(v, ListV):
        raise Inconclusive("vec! expansion not recognised: %r" % (v,), interp.where())
    return v


@model("<std::boxed::Box<T, A> as std::ops::Drop>::drop")
def m_box_drop(interp, args, info):
    return UNIT


@model("<std::boxed::Box<T, A> as std::convert::AsRef<T>>::as_ref", "<std::boxed::Box<T, A> as std::ops::Deref>::deref")
def m_box_as_ref(interp, args, info):
    b = interp.load(args[0])
    if not isinstance(b, BoxV):
        raise Inconclusive("Box::as_ref on %r" % (b,), interp.where())
    return Ptr(b.cell, ())


@model("std::vec::Vec::<T>::new")
def m_vec_new(interp, args, info):
    return ListV(())


def _vec_at(interp, p):
    c, path = interp.deref(p)
    v = interp.read(c, path)
    return c, path, v


@model("std::vec::Vec::<T, A>::push")
def m_vec_push(interp, args, info):
    c, path, v = _vec_at(interp, args[0])
    if isinstance(v, Tok):
        hook = getattr(interp.policy, "list_push", None)
        if hook is None:
            raise Inconclusive("Vec::push on the opaque list %r" % (v,), interp.where())
        return hook(interp, c, path, v, args[1])
    if not isinstance(v, ListV):
        raise Inconclusive("Vec::push on %r" % (v,), interp.where())
    interp.write(c, path, ListV(v.items + (args[1],)))
    return UNIT


@model("std::vec::Vec::<T, A>::pop")
def m_vec_pop(interp, args, info):
    c, path, v = _vec_at(interp, args[0])
    if not isinstance(v, ListV):
        raise Inconclusive("Vec::pop on %r" % (v,), interp.where())
    if not v.items:
        return NONE
    interp.write(c, path, ListV(v.items[:-1]))
    return some(v.items[-1])


@model("std::vec::Vec::<T, A>::append")
def m_vec_append(interp, args, info):
    c, path, v = _vec_at(interp, args[0])
    c2, path2, v2 = _vec_at(interp, args[1])
    if not (isinstance(v, ListV) and isinstance(v2, ListV)):
        raise Inconclusive("Vec::append on %r" % (v,), interp.where())
    interp.write(c, path, ListV(v.items + v2.items))
    interp.write(c2, path2, ListV(()))
    return UNIT


@model("std::vec::Vec::<T, A>::is_empty")
def m_vec_is_empty(interp, args, info):
    v = interp.load(args[0])
    if isinstance(v, Tok) and v.kind == "L" and v.dom == "default-list":
        memo = interp.__dict__.setdefault("_default_list_empty", {})
        if v.name not in memo:
            memo[v.name] = interp.ctx.choose("default-list-empty", 2) == 1
        return memo[v.name]
    if isinstance(v, Tok) and v.kind == "L":
        interp.events.append(("is_empty", v.name))
        return len(v.val) == 0
    if isinstance(v, ListV):
        return len(v.items) == 0
    raise Inconclusive("Vec::is_empty on %r" % (v,), interp.where())


@model("std::vec::Vec::<T, A>::len")
def m_vec_len(interp, args, info):
    v = interp.load(args[0])
    if isinstance(v, Tok) and v.kind == "L":
        interp.events.append(("len", v.name))
        return Tok("N", "len(%s)" % v.name, len(v.val))
    if isinstance(v, ListV):
        return len(v.items)
    raise Inconclusive("Vec::len on %r" % (v,), interp.where())


@model("<std::vec::Vec<T, A> as std::ops::Deref>::deref", "<std::vec::Vec<T, A> as std::ops::DerefMut>::deref_mut",
       "std::vec::Vec::<T, A>::as_mut_slice", "std::vec::Vec::<T, A>::as_slice", "std::string::String::as_bytes",
       "<std::string::String as std::ops::Deref>::deref")
def m_vec_deref(interp, args, info):
    return args[0]


@model("std::option::Option::<T>::unwrap")
def m_opt_unwrap(interp, args, info):
    v = args[0]
    if is_some(v):
        return v.fields[0]
    raise Panic("unwrap_none", interp.where())


@model("std::option::Option::<T>::unwrap_or")
def m_opt_unwrap_or(interp, args, info):
    return args[0].fields[0] if is_some(args[0]) else args[1]


@model("std::option::Option::<T>::is_some")
def m_opt_is_some(interp, args, info):
    return is_some(interp.load(args[0]))


@model("std::option::Option::<T>::is_none")
def m_opt_is_none(interp, args, info):
    return not is_some(interp.load(args[0]))


@model("std::option::Option::<T>::map")
def m_opt_map(interp, args, info):
    if is_some(args[0]):
        return some(interp.call_value(args[1], [args[0].fields[0]]))
    return NONE


@model("std::option::Option::<T>::and_then")
def m_opt_and_then(interp, args, info):
    if is_some(args[0]):
        return interp.call_value(args[1], [args[0].fields[0]])
    return NONE


@model("std::option::Option::<T>::filter")
def m_opt_filter(interp, args, info):
    if is_some(args[0]) and interp.call_value(args[1], [mkref(args[0].fields[0])]):
        return args[0]
    return NONE


@model("std::option::Option::<std::option::Option<T>>::flatten")
def m_opt_flatten(interp, args, info):
    return args[0].fields[0] if is_some(args[0]) else NONE


@model("std::option::Option::<T>::as_ref")
def m_opt_as_ref(interp, args, info):
    c, path = interp.deref(args[0])
    v = interp.read(c, path)
    return some(Ptr(c, path + (0,))) if is_some(v) else NONE


@model("std::prelude::v1::Some")
def m_some(interp, args, info):
    return some(args[0])


def _is_ok(v):
    return isinstance(v, Adt) and v.name == "std::result::Result" and v.variant == 0


@model("std::result::Result::<T, E>::map")
def m_res_map(interp, args, info):
    if _is_ok(args[0]):
        return ok(interp.call_value(args[1], [args[0].fields[0]]))
    return args[0]


@model("std::result::Result::<T, E>::map_err")
def m_res_map_err(interp, args, info):
    if _is_ok(args[0]):
        return args[0]
    return err(interp.call_value(args[1], [args[0].fields[0]]))


@model("std::result::Result::<T, E>::unwrap_or_else")
def m_res_unwrap_or_else(interp, args, info):
    if _is_ok(args[0]):
        return args[0].fields[0]
    return interp.call_value(args[1], [args[0].fields[0]])


@model("std::result::Result::<T, E>::ok")
def m_res_ok(interp, args, info):
    return some(args[0].fields[0]) if _is_ok(args[0]) else NONE


@model("<std::result::Result<T, E> as std::ops::Try>::branch")
def m_try_branch(interp, args, info):
    v = args[0]
    cf = "std::ops::ControlFlow"
    if _is_ok(v):
        return Adt(cf, interp.prog.variant_index(cf, "Continue"), (v.fields[0],))
    return Adt(cf, interp.prog.variant_index(cf, "Break"), (err(v.fields[0]),))


@model("<std::result::Result<T, F> as std::ops::FromResidual<std::result::Result<std::convert::Infallible, E>>>::from_residual")
def m_from_residual(interp, args, info):
    r = args[0]
    targs = info.get("targs", [])
    # Result<T, F> from Result<Infallible, E>: F::from(E); identical types convert by identity
    return err(r.fields[0])


@model("std::hint::must_use")
def m_must_use(interp, args, info):
    return args[0]


# --------------------------------------------------------------------------- conversions

@model("<T as std::convert::Into<U>>::into")
def m_into(interp, args, info):
    targs = info.get("targs", [])
    if len(targs) >= 2:
        t, u = interp.prog.ty_str(targs[0]), interp.prog.ty_str(targs[1])
        if t == u:
            return args[0]
        im = interp.prog.impl_by_trait_ref("<%s as std::convert::From<%s>>" % (u, t))
        if im and "from" in im["items"]:
            return interp.call_fn({"def": im["items"]["from"], "local": True,
                                   "resolved": {"def": im["items"]["from"], "local": True, "kind": "Item"}}, args)
        m = MODELS.get("into:%s->%s" % (t, u))
        if m:
            return m(interp, args, info)
        raise Inconclusive("Into::into %s -> %s has no local From impl" % (t, u), interp.where())
    raise Inconclusive("Into::into without type arguments", interp.where())


@model("into:&str->std::string::String", "<T as std::string::ToString>::to_string",
       "<str as std::string::ToString>::to_string", "std::string::String::from",
       "std::str::<impl std::borrow::ToOwned for str>::to_owned", "alloc::str::<impl std::borrow::ToOwned for str>::to_owned",
       "<std::string::String as std::convert::From<&str>>::from", "<std::string::String as std::str::FromStr>::from_str_infallible",
       "std::string::String::from_str", "core::str::<impl str>::to_string", "std::str::<impl str>::to_owned")
def m_to_string(interp, args, info):
    v = args[0]
    while isinstance(v, Ptr):
        v = interp.load(v)
    if isinstance(v, StrV) or (isinstance(v, Tok) and v.kind == "T"):
        return v
    if isinstance(v, Tok) and v.kind == "I":
        return Tok("T", "text(%s)" % v.name, str(v.val + v.off), dom="numtext", extra={"of": v})
    if isinstance(v, Adt) and _adt_is_local(interp, v):
        fm = Formatter()
        display_value(interp, Ptr(Cell(fm), ()), v)
        if all(k == "lit" for k, _ in fm.out):
            return StrV("".join(x for _, x in fm.out))
        if len(fm.out) == 1:
            return m_to_string(interp, [fm.out[0][1]], info)
        return Tok("T", "+".join(x if k == "lit" else x.name for k, x in fm.out), None, dom="composite-text")
    raise Inconclusive("to_string on %r" % (v,), interp.where())


@model("std::convert::AsRef::as_ref")
def m_as_ref(interp, args, info):
    # generic `S: AsRef<str>`: the abstract argument already is the string it denotes
    v = interp.strip(args[0])
    if isinstance(v, (Tok, StrV)):
        return v
    return args[0]


@model("core::str::<impl str>::as_ptr")
def m_str_as_ptr(interp, args, info):
    s = interp.strip(args[0])
    if isinstance(s, Tok) and s.kind == "T":
        return Tok("A", "ptr(%s)" % s.name, None, dom="addr")
    raise Inconclusive("str::as_ptr on %r" % (s,), interp.where())


@model("into:(usize, usize)->miette::SourceSpan")
def m_into_span(interp, args, info):
    return Adt("miette::SourceSpan", 0, (args[0][0], args[0][1]))


@model("miette::SourceSpan::offset")
def m_span_offset(interp, args, info):
    return interp.strip(args[0]).fields[0]


# --------------------------------------------------------------------------- iterators

class IterV(object):
    """Lazy iterator value. kind: slice (by ref), vec (by value), map, filter, flatten, enumerate, once"""
    __slots__ = ("kind", "a", "b", "i")

    def __init__(self, kind, a=None, b=None, i=0):
        self.kind, self.a, self.b, self.i = kind, a, b, i

    def __repr__(self):
        return "Iter(%s)" % self.kind


def make_iter(interp, v):
    """IntoIterator::into_iter on a value"""
    if isinstance(v, IterV):
        return v
    if isinstance(v, Ptr):
        tgt = interp.load(v)
        if isinstance(tgt, ListV):
            return IterV("slice", v)
        if isinstance(tgt, Ptr):
            return make_iter(interp, tgt)
        if isinstance(tgt, IterV):
            return IterV("byref", v)           # `&mut I`: advancing it advances the iterator it points to
        if isinstance(tgt, Adt) and tgt.name == "std::option::Option":
            # `&Option<T>` iterates over a reference to the value, if any
            c_, path_ = interp.deref(v)
            if is_some(tgt):
                return IterV("vec", ListV([Ptr(c_, tuple(path_) + (("v", tgt.variant), ("f", 0)))])) if False else \
                    IterV("vec", ListV([mkref(tgt.fields[0])]))
            return IterV("vec", ListV(()))
        raise Inconclusive("into_iter on reference to %r" % (tgt,), interp.where())
    if isinstance(v, ListV):
        return IterV("vec", v)
    if isinstance(v, Tok) and v.kind == "L" and v.dom == "default-list":
        return IterV("vec", ListV(()))
    if isinstance(v, Adt) and v.name == "std::option::Option":
        return IterV("vec", ListV(v.fields))
    raise Inconclusive("into_iter on %r" % (v,), interp.where())


def iter_next(interp, it):
    """returns (Option value, new iterator state)"""
    k = it.kind
    if k == "byref":
        c, path = interp.deref(it.a)
        x, inner = iter_next(interp, interp.read(c, path))
        interp.write(c, path, inner)
        return x, it
    if k == "slice":
        c, path = interp.deref(it.a)
        lst = interp.read(c, path)
        if it.i < len(lst.items):
            return some(Ptr(c, path + (("i", it.i),))), IterV("slice", it.a, None, it.i + 1)
        return NONE, it
    if k == "vec":
        if it.i < len(it.a.items):
            return some(it.a.items[it.i]), IterV("vec", it.a, None, it.i + 1)
        return NONE, it
    if k == "map":
        x, inner = iter_next(interp, it.a)
        if is_some(x):
            return some(interp.call_value(it.b, [x.fields[0]])), IterV("map", inner, it.b)
        return NONE, IterV("map", inner, it.b)
    if k == "filter":
        inner = it.a
        while True:
            x, inner = iter_next(interp, inner)
            if not is_some(x):
                return NONE, IterV("filter", inner, it.b)
            keep = interp.call_value(it.b, [mkref(x.fields[0])])
            if not isinstance(keep, bool):
                raise Inconclusive("filter predicate returned %r" % (keep,), interp.where())
            if keep:
                return x, IterV("filter", inner, it.b)
    if k == "enumerate":
        x, inner = iter_next(interp, it.a)
        if is_some(x):
            return some((it.i, x.fields[0])), IterV("enumerate", inner, None, it.i + 1)
        return NONE, IterV("enumerate", inner, None, it.i)
    if k == "flatten":
        outer, cur = it.a, it.b
        while True:
            if cur is not None:
                x, cur = iter_next(interp, cur)
                if is_some(x):
                    return x, IterV("flatten", outer, cur)
                cur = None
            o, outer = iter_next(interp, outer)
            if not is_some(o):
                return NONE, IterV("flatten", outer, None)
            cur = make_iter(interp, o.fields[0])
    if k == "take":
        if it.i >= it.b:
            return NONE, it
        x, inner = iter_next(interp, it.a)
        return x, IterV("take", inner, it.b, it.i + 1)
    if k == "skip":
        inner = it.a
        for _ in range(it.b - it.i):
            x, inner = iter_next(interp, inner)
            if not is_some(x):
                return NONE, IterV("skip", inner, it.b, it.b)
        x, inner = iter_next(interp, inner)
        return x, IterV("skip", inner, it.b, it.b)
    if k == "chain":
        if it.a is not None:
            x, a = iter_next(interp, it.a)
            if is_some(x):
                return x, IterV("chain", a, it.b)
        x, b = iter_next(interp, it.b)
        return x, IterV("chain", None, b)
    if k == "cloned":
        x, inner = iter_next(interp, it.a)
        if is_some(x):
            return some(clone_value(interp, interp.load(x.fields[0]))), IterV("cloned", inner)
        return NONE, IterV("cloned", inner)
    if k == "filter_map":
        inner = it.a
        while True:
            x, inner = iter_next(interp, inner)
            if not is_some(x):
                return NONE, IterV("filter_map", inner, it.b)
            y = interp.call_value(it.b, [x.fields[0]])
            if is_some(y):
                return y, IterV("filter_map", inner, it.b)
    if k == "map_while":
        if it.i:
            return NONE, it
        x, inner = iter_next(interp, it.a)
        if not is_some(x):
            return NONE, IterV("map_while", inner, it.b, 0)
        y = interp.call_value(it.b, [x.fields[0]])
        if is_some(y):
            return y, IterV("map_while", inner, it.b, 0)
        return NONE, IterV("map_while", inner, it.b, 1)
    if k == "take_while":
        if it.i:
            return NONE, it
        x, inner = iter_next(interp, it.a)
        if not is_some(x):
            return NONE, IterV("take_while", inner, it.b, 0)
        keep = interp.call_value(it.b, [mkref(x.fields[0])])
        if not isinstance(keep, bool):
            raise Inconclusive("take_while predicate returned %r" % (keep,), interp.where())
        if keep:
            return x, IterV("take_while", inner, it.b, 0)
        return NONE, IterV("take_while", inner, it.b, 1)
    if k == "skip_while":
        inner = it.a
        while True:
            x, inner = iter_next(interp, inner)
            if not is_some(x):
                return NONE, IterV("skip_while", inner, it.b, it.i)
            if it.i:
                return x, IterV("skip_while", inner, it.b, 1)
            drop_ = interp.call_value(it.b, [mkref(x.fields[0])])
            if not isinstance(drop_, bool):
                raise Inconclusive("skip_while predicate returned %r" % (drop_,), interp.where())
            if not drop_:
                return x, IterV("skip_while", inner, it.b, 1)
    if k == "repeat":
        return some(it.a), it
    if k == "inspect":
        x, inner = iter_next(interp, it.a)
        if is_some(x):
            interp.call_value(it.b, [mkref(x.fields[0])])
        return x, IterV("inspect", inner, it.b)
    if k == "peekable":
        if it.b is not None:
            return it.b[0], IterV("peekable", it.a, None)
        x, inner = iter_next(interp, it.a)
        return x, IterV("peekable", inner, None)
    if k == "zip":
        x, a = iter_next(interp, it.a)
        if not is_some(x):
            return NONE, IterV("zip", a, it.b)
        y, b = iter_next(interp, it.b)
        if not is_some(y):
            return NONE, IterV("zip", a, b)
        return some((x.fields[0], y.fields[0])), IterV("zip", a, b)
    raise Inconclusive("iterator kind %s" % k, interp.where())


def drain(interp, it):
    out = []
    while True:
        x, it = iter_next(interp, it)
        if not is_some(x):
            return out
        out.append(x.fields[0])


@model("<&'a std::vec::Vec<T, A> as std::iter::IntoIterator>::into_iter", "<I as std::iter::IntoIterator>::into_iter",
       "<std::vec::Vec<T, A> as std::iter::IntoIterator>::into_iter", "core::slice::<impl [T]>::iter",
       "core::slice::<impl [T]>::iter_mut", "std::vec::Vec::<T, A>::iter_mut",
       "std::iter::IntoIterator::into_iter", "<&'a [T] as std::iter::IntoIterator>::into_iter")
def m_into_iter(interp, args, info):
    return make_iter(interp, args[0])


@model("<std::slice::Iter<'a, T> as std::iter::Iterator>::next", "<std::iter::Enumerate<I> as std::iter::Iterator>::next",
       "std::iter::Iterator::next", "<std::vec::IntoIter<T, A> as std::iter::Iterator>::next",
       "<std::iter::Map<I, F> as std::iter::Iterator>::next", "<std::iter::Filter<I, P> as std::iter::Iterator>::next")
def m_iter_next(interp, args, info):
    c, path = interp.deref(args[0])
    it = interp.read(c, path)
    x, it2 = iter_next(interp, it)
    interp.write(c, path, it2)
    return x


@model("std::iter::Iterator::map")
def m_iter_map(interp, args, info):
    return IterV("map", make_iter(interp, args[0]), args[1])


@model("std::iter::Iterator::filter")
def m_iter_filter(interp, args, info):
    return IterV("filter", make_iter(interp, args[0]), args[1])


@model("std::iter::Iterator::enumerate")
def m_iter_enumerate(interp, args, info):
    return IterV("enumerate", make_iter(interp, args[0]))


@model("std::iter::Iterator::flatten")
def m_iter_flatten(interp, args, info):
    return IterV("flatten", make_iter(interp, args[0]), None)


@model("std::iter::Iterator::collect")
def m_iter_collect(interp, args, info):
    return ListV(drain(interp, make_iter(interp, args[0])))


@model("std::iter::Iterator::fold", "<std::iter::Flatten<I> as std::iter::Iterator>::fold")
def m_iter_fold(interp, args, info):
    acc = args[1]
    for x in drain(interp, make_iter(interp, args[0])):
        acc = interp.call_value(args[2], [acc, x])
    return acc


@model("std::iter::Iterator::try_fold")
def m_iter_try_fold(interp, args, info):
    """try_fold over an iterator passed by &mut; the closure returns Option<B> or Result<B, E>"""
    c, path = interp.deref(args[0])
    it = interp.read(c, path)
    it = it if isinstance(it, IterV) else make_iter(interp, it)
    acc = args[1]
    targs = info.get("targs", [])
    rty = interp.prog.ty_str(targs[-1]) if targs else ""
    is_opt = rty.startswith("std::option::Option")
    is_res = rty.startswith("std::result::Result")
    if not (is_opt or is_res):
        raise Inconclusive("try_fold with residual type %s" % rty, interp.where())
    while True:
        x, it = iter_next(interp, it)
        interp.write(c, path, it)
        if not is_some(x):
            return some(acc) if is_opt else ok(acc)
        r = interp.call_value(args[2], [acc, x.fields[0]])
        if is_opt:
            if not is_some(r):
                return NONE
            acc = r.fields[0]
        else:
            if not _is_ok(r):
                return r
            acc = r.fields[0]


@model("std::iter::Iterator::any")
def m_iter_any(interp, args, info):
    c, path = interp.deref(args[0])
    it = interp.read(c, path)
    while True:
        x, it = iter_next(interp, it)
        interp.write(c, path, it)
        if not is_some(x):
            return False
        if interp.call_value(args[1], [x.fields[0]]):
            return True


@model("std::iter::Iterator::all")
def m_iter_all(interp, args, info):
    c, path = interp.deref(args[0])
    it = interp.read(c, path)
    while True:
        x, it = iter_next(interp, it)
        interp.write(c, path, it)
        if not is_some(x):
            return True
        if not interp.call_value(args[1], [x.fields[0]]):
            return False


@model("std::iter::Iterator::max")
def m_iter_max(interp, args, info):
    # max_by(cmp): fold with `if compare(&acc, &x).is_gt() { acc } else { x }` (last maximum wins)
    xs = drain(interp, make_iter(interp, args[0]))
    if not xs:
        return NONE
    acc = xs[0]
    for x in xs[1:]:
        acc = acc if cmp_values(interp, acc, x) > 0 else x
    return some(acc)


@model("std::iter::Iterator::min")
def m_iter_min(interp, args, info):
    # min_by(cmp): fold with `if compare(&acc, &x).is_le() { acc } else { x }` (first minimum wins)
    xs = drain(interp, make_iter(interp, args[0]))
    if not xs:
        return NONE
    acc = xs[0]
    for x in xs[1:]:
        acc = acc if cmp_values(interp, acc, x) <= 0 else x
    return some(acc)


@model("std::iter::Iterator::rev")
def m_iter_rev(interp, args, info):
    xs = drain(interp, make_iter(interp, args[0]))
    return IterV("vec", ListV(list(reversed(xs))))


@model("std::iter::Iterator::take")
def m_iter_take(interp, args, info):
    if not isinstance(args[1], int):
        raise Inconclusive("take(%r)" % (args[1],), interp.where())
    return IterV("take", make_iter(interp, args[0]), args[1])


@model("std::iter::Iterator::skip")
def m_iter_skip(interp, args, info):
    if not isinstance(args[1], int):
        raise Inconclusive("skip(%r)" % (args[1],), interp.where())
    return IterV("skip", make_iter(interp, args[0]), args[1])


@model("std::iter::Iterator::chain")
def m_iter_chain(interp, args, info):
    return IterV("chain", make_iter(interp, args[0]), make_iter(interp, args[1]))


@model("std::iter::Iterator::cloned", "std::iter::Iterator::copied")
def m_iter_cloned(interp, args, info):
    return IterV("cloned", make_iter(interp, args[0]))


@model("std::iter::Iterator::filter_map")
def m_iter_filter_map(interp, args, info):
    return IterV("filter_map", make_iter(interp, args[0]), args[1])


@model("std::iter::Iterator::flat_map")
def m_iter_flat_map(interp, args, info):
    return IterV("flatten", IterV("map", make_iter(interp, args[0]), args[1]), None)


@model("std::iter::Iterator::zip")
def m_iter_zip(interp, args, info):
    return IterV("zip", make_iter(interp, args[0]), make_iter(interp, args[1]))


def _by_ref_iter(interp, p):
    c, path = interp.deref(p)
    return c, path, interp.read(c, path)


@model("std::iter::Iterator::find")
def m_iter_find(interp, args, info):
    c, path, it = _by_ref_iter(interp, args[0])
    while True:
        x, it = iter_next(interp, it)
        interp.write(c, path, it)
        if not is_some(x):
            return NONE
        if interp.call_value(args[1], [mkref(x.fields[0])]):
            return x


@model("std::iter::Iterator::find_map")
def m_iter_find_map(interp, args, info):
    c, path, it = _by_ref_iter(interp, args[0])
    while True:
        x, it = iter_next(interp, it)
        interp.write(c, path, it)
        if not is_some(x):
            return NONE
        y = interp.call_value(args[1], [x.fields[0]])
        if is_some(y):
            return y


@model("std::iter::Iterator::position")
def m_iter_position(interp, args, info):
    c, path, it = _by_ref_iter(interp, args[0])
    i = 0
    while True:
        x, it = iter_next(interp, it)
        interp.write(c, path, it)
        if not is_some(x):
            return NONE
        if interp.call_value(args[1], [x.fields[0]]):
            return some(i)
        i += 1


@model("std::iter::Iterator::rposition", "<std::slice::Iter<'a, T> as std::iter::Iterator>::rposition")
def m_iter_rposition(interp, args, info):
    c, path, it = _by_ref_iter(interp, args[0])
    xs = drain(interp, it)
    interp.write(c, path, IterV("vec", ListV(())))
    for i in range(len(xs) - 1, -1, -1):
        if interp.call_value(args[1], [xs[i]]):
            return some(i)
    return NONE


@model("std::iter::Iterator::last")
def m_iter_last(interp, args, info):
    xs = drain(interp, make_iter(interp, args[0]))
    return some(xs[-1]) if xs else NONE


@model("std::iter::Iterator::nth")
def m_iter_nth(interp, args, info):
    c, path, it = _by_ref_iter(interp, args[0])
    x = NONE
    for _ in range(args[1] + 1):
        x, it = iter_next(interp, it)
        interp.write(c, path, it)
        if not is_some(x):
            return NONE
    return x


@model("std::iter::Iterator::for_each")
def m_iter_for_each(interp, args, info):
    for x in drain(interp, make_iter(interp, args[0])):
        interp.call_value(args[1], [x])
    return UNIT


@model("std::iter::Iterator::reduce")
def m_iter_reduce(interp, args, info):
    xs = drain(interp, make_iter(interp, args[0]))
    if not xs:
        return NONE
    acc = xs[0]
    for x in xs[1:]:
        acc = interp.call_value(args[1], [acc, x])
    return some(acc)


@model("std::iter::Iterator::max_by")
def m_iter_max_by(interp, args, info):
    xs = drain(interp, make_iter(interp, args[0]))
    if not xs:
        return NONE
    acc = xs[0]
    for x in xs[1:]:
        c = ordering_to_int(interp.call_value(args[1], [mkref(acc), mkref(x)]))
        acc = acc if c > 0 else x
    return some(acc)


@model("std::iter::Iterator::min_by")
def m_iter_min_by(interp, args, info):
    xs = drain(interp, make_iter(interp, args[0]))
    if not xs:
        return NONE
    acc = xs[0]
    for x in xs[1:]:
        c = ordering_to_int(interp.call_value(args[1], [mkref(acc), mkref(x)]))
        acc = acc if c <= 0 else x
    return some(acc)


@model("std::iter::Iterator::max_by_key")
def m_iter_max_by_key(interp, args, info):
    xs = drain(interp, make_iter(interp, args[0]))
    if not xs:
        return NONE
    acc, ka = xs[0], interp.call_value(args[1], [mkref(xs[0])])
    for x in xs[1:]:
        kx = interp.call_value(args[1], [mkref(x)])
        if not cmp_values(interp, ka, kx) > 0:
            acc, ka = x, kx
    return some(acc)


@model("std::iter::Iterator::min_by_key")
def m_iter_min_by_key(interp, args, info):
    xs = drain(interp, make_iter(interp, args[0]))
    if not xs:
        return NONE
    acc, ka = xs[0], interp.call_value(args[1], [mkref(xs[0])])
    for x in xs[1:]:
        kx = interp.call_value(args[1], [mkref(x)])
        if not cmp_values(interp, ka, kx) <= 0:
            acc, ka = x, kx
    return some(acc)


@model("core::slice::<impl [T]>::len")
def m_slice_len(interp, args, info):
    v = interp.strip(args[0])
    if isinstance(v, ListV):
        return len(v.items)
    raise Inconclusive("slice len of %r" % (v,), interp.where())


@model("core::slice::<impl [T]>::is_empty")
def m_slice_is_empty(interp, args, info):
    v = interp.strip(args[0])
    if isinstance(v, ListV):
        return len(v.items) == 0
    raise Inconclusive("slice is_empty of %r" % (v,), interp.where())


def _elem_ptr(interp, p, i):
    c, path = interp.deref(p)
    v = interp.read(c, path)
    if isinstance(v, Tok) and v.kind == "L":
        # opaque identifier list: only its emptiness is observable; elements are opaque
        items = ListV([Tok("O", "%s[%d]" % (v.name, k)) for k in range(len(v.val))])
        interp.events.append(("is_empty", v.name))
        return Cell(items), (), len(v.val)
    while isinstance(v, (Ptr, BoxV)):
        c, path = interp.deref(v)
        v = interp.read(c, path)
    if not isinstance(v, ListV):
        raise Inconclusive("element access on %r" % (v,), interp.where())
    n = len(v.items)
    return c, path, n


@model("core::slice::<impl [T]>::first")
def m_slice_first(interp, args, info):
    v0 = interp.strip(args[0])
    if isinstance(v0, Tok) and v0.dom == "input" and hasattr(interp.policy, "stream_first"):
        return interp.policy.stream_first(interp, v0)
    c, path, n = _elem_ptr(interp, args[0], 0)
    return some(Ptr(c, path + (("i", 0),))) if n else NONE


@model("core::slice::<impl [T]>::last")
def m_slice_last(interp, args, info):
    c, path, n = _elem_ptr(interp, args[0], 0)
    return some(Ptr(c, path + (("i", n - 1),))) if n else NONE


@model("core::slice::<impl [T]>::get")
def m_slice_get(interp, args, info):
    c, path, n = _elem_ptr(interp, args[0], 0)
    i = args[1]
    if not isinstance(i, int):
        raise Inconclusive("slice get(%r)" % (i,), interp.where())
    return some(Ptr(c, path + (("i", i),))) if 0 <= i < n else NONE


@model("<std::vec::Vec<T, A> as std::ops::Index<I>>::index", "core::slice::index::<impl std::ops::Index<I> for [T]>::index")
def m_vec_index(interp, args, info):
    c, path, n = _elem_ptr(interp, args[0], 0)
    i = args[1]
    if isinstance(i, Adt) and i.name.startswith("std::ops::Range"):
        # shared sub-slice: a read-only view (a fresh list of the same element values)
        f = i.fields
        nm = i.name
        lo, hi = {"std::ops::RangeTo": lambda: (0, f[0]), "std::ops::RangeFrom": lambda: (f[0], n),
                  "std::ops::Range": lambda: (f[0], f[1]), "std::ops::RangeFull": lambda: (0, n),
                  "std::ops::RangeToInclusive": lambda: (0, f[0] + 1 if isinstance(f[0], int) else f[0]),
                  "std::ops::RangeInclusive": lambda: (f[0], f[1] + 1 if isinstance(f[1], int) else f[1])}.get(nm, lambda: (None, None))()
        if not (isinstance(lo, int) and isinstance(hi, int)) or isinstance(lo, bool) or isinstance(hi, bool):
            raise Inconclusive("slice index with %r" % (i,), interp.where())
        if lo > hi or hi > n:
            raise Panic("index", interp.where(), "range %d..%d out of %d" % (lo, hi, n))
        v = interp.read(c, path)
        return Ptr(Cell(ListV(tuple(v.items[lo:hi]))))
    if not isinstance(i, int):
        raise Inconclusive("index with %r" % (i,), interp.where())
    if not 0 <= i < n:
        raise Panic("index", interp.where(), "index %d out of %d" % (i, n))
    return Ptr(c, path + (("i", i),))


@model("std::vec::Vec::<T, A>::extend_from_slice", "<std::vec::Vec<T, A> as std::iter::Extend<T>>::extend")
def m_vec_extend(interp, args, info):
    c, path, v = _vec_at(interp, args[0])
    src = args[1]
    xs = drain(interp, make_iter(interp, src))
    if info.get("resolved", {}).get("def", "").endswith("extend_from_slice"):
        xs = [clone_value(interp, interp.load(x)) for x in xs]
    interp.write(c, path, ListV(v.items + tuple(xs)))
    return UNIT


@model("std::vec::Vec::<T, A>::with_capacity", "std::vec::Vec::<T>::with_capacity")
def m_vec_with_capacity(interp, args, info):
    return ListV(())


@model("std::vec::Vec::<T, A>::clear")
def m_vec_clear(interp, args, info):
    c, path, v = _vec_at(interp, args[0])
    interp.write(c, path, ListV(()))
    return UNIT


@model("std::vec::Vec::<T, A>::iter", "std::vec::Vec::<T, A>::as_slice")
def m_vec_iter(interp, args, info):
    return make_iter(interp, args[0]) if info["def"].endswith("iter") else args[0]


@model("std::mem::take")
def m_mem_take(interp, args, info):
    c, path = interp.deref(args[0])
    v = interp.read(c, path)
    if isinstance(v, ListV):
        interp.write(c, path, ListV(()))
        return v
    if isinstance(v, Adt) and v.name == "std::option::Option":
        interp.write(c, path, NONE)
        return v
    raise Inconclusive("mem::take of %r" % (v,), interp.where())


@model("std::mem::replace")
def m_mem_replace(interp, args, info):
    c, path = interp.deref(args[0])
    v = interp.read(c, path)
    interp.write(c, path, args[1])
    return v


@model("std::option::Option::<T>::take")
def m_opt_take(interp, args, info):
    c, path = interp.deref(args[0])
    v = interp.read(c, path)
    interp.write(c, path, NONE)
    return v


@model("std::option::Option::<T>::and")
def m_opt_and(interp, args, info):
    return args[1] if is_some(args[0]) else NONE


@model("std::option::Option::<T>::xor")
def m_opt_xor(interp, args, info):
    a, b = is_some(args[0]), is_some(args[1])
    if a and not b:
        return args[0]
    if b and not a:
        return args[1]
    return NONE


@model("std::option::Option::<T>::zip")
def m_opt_zip(interp, args, info):
    if is_some(args[0]) and is_some(args[1]):
        return some((args[0].fields[0], args[1].fields[0]))
    return NONE


@model("std::option::Option::<T>::is_none_or")
def m_opt_is_none_or(interp, args, info):
    return bool((not is_some(args[0])) or interp.call_value(args[1], [args[0].fields[0]]))


@model("std::option::Option::<T>::as_mut")
def m_opt_as_mut(interp, args, info):
    c, path = interp.deref(args[0])
    v = interp.read(c, path)
    return some(Ptr(c, path + (0,))) if is_some(v) else NONE


@model("std::option::Option::<T>::get_or_insert_with")
def m_opt_get_or_insert_with(interp, args, info):
    c, path = interp.deref(args[0])
    v = interp.read(c, path)
    if not is_some(v):
        interp.write(c, path, some(interp.call_value(args[1], [])))
    return Ptr(c, path + (0,))


@model("std::option::Option::<T>::or")
def m_opt_or(interp, args, info):
    return args[0] if is_some(args[0]) else args[1]


@model("std::option::Option::<T>::or_else")
def m_opt_or_else(interp, args, info):
    return args[0] if is_some(args[0]) else interp.call_value(args[1], [])


@model("std::option::Option::<T>::unwrap_or_else")
def m_opt_unwrap_or_else(interp, args, info):
    return args[0].fields[0] if is_some(args[0]) else interp.call_value(args[1], [])


@model("std::option::Option::<T>::unwrap_or_default")
def m_opt_unwrap_or_default(interp, args, info):
    if is_some(args[0]):
        return args[0].fields[0]
    targs = info.get("targs", [])
    if targs:
        return default_of_type(interp, targs[0])
    raise Inconclusive("unwrap_or_default on None", interp.where())


def default_of_type(interp, tix, depth=0):
    """`Default::default()` of the std types the crate uses"""
    prog = interp.prog
    t = prog.types[tix]
    k = t.get("k")
    if k == "int":
        return 0
    if k == "bool":
        return False
    if k == "tuple" and depth < 4:
        return tuple(default_of_type(interp, x, depth + 1) for x in t["tys"])
    if k == "adt":
        n = t["adt"]
        if n == "std::vec::Vec":
            return ListV(())
        if n == "std::string::String":
            return StrV("")
        if n == "std::option::Option":
            return NONE
    if k == "adt" and prog.adts.get(t.get("adt"), {}).get("local"):
        km = prog.impl_method("std::default::Default", t["adt"], "default")
        if km:
            return interp.call_key(km, [])
    raise Inconclusive("Default::default() of %s" % prog.ty_str(tix), interp.where())


@model("<T as std::default::Default>::default", "std::default::Default::default", "<std::vec::Vec<T> as std::default::Default>::default",
       "<std::string::String as std::default::Default>::default", "<std::option::Option<T> as std::default::Default>::default")
def m_default(interp, args, info):
    targs = info.get("targs", [])
    res = info.get("resolved") or {}
    d = res.get("def", info.get("def", ""))
    if "Vec<T>" in d:
        return ListV(())
    if "String" in d:
        return StrV("")
    if "Option<T>" in d:
        return NONE
    if targs:
        t = interp.prog.types[targs[0]]
        if t.get("k") == "adt" and interp.prog.adts.get(t.get("adt"), {}).get("local"):
            k = interp.prog.impl_method("std::default::Default", t["adt"], "default")
            if k:
                return interp.call_key(k, [])
        return default_of_type(interp, targs[0])
    raise Inconclusive("Default::default() of an unknown type", interp.where())


@model("core::bool::<impl bool>::then_some")
def m_bool_then_some(interp, args, info):
    if not isinstance(args[0], bool):
        raise Inconclusive("then_some on %r" % (args[0],), interp.where())
    return some(args[1]) if args[0] else NONE


@model("core::bool::<impl bool>::then")
def m_bool_then(interp, args, info):
    if not isinstance(args[0], bool):
        raise Inconclusive("then on %r" % (args[0],), interp.where())
    return some(interp.call_value(args[1], [])) if args[0] else NONE


@model("std::option::Option::<T>::map_or")
def m_opt_map_or(interp, args, info):
    return interp.call_value(args[2], [args[0].fields[0]]) if is_some(args[0]) else args[1]


@model("std::option::Option::<T>::is_some_and")
def m_opt_is_some_and(interp, args, info):
    return bool(is_some(args[0]) and interp.call_value(args[1], [args[0].fields[0]]))


@model("std::option::Option::<T>::expect")
def m_opt_expect(interp, args, info):
    if is_some(args[0]):
        return args[0].fields[0]
    raise Panic("expect_none", interp.where())


@model("std::option::Option::<T>::ok_or")
def m_opt_ok_or(interp, args, info):
    return ok(args[0].fields[0]) if is_some(args[0]) else err(args[1])


@model("std::option::Option::<&T>::cloned", "std::option::Option::<&T>::copied")
def m_opt_cloned(interp, args, info):
    if is_some(args[0]):
        return some(clone_value(interp, interp.load(args[0].fields[0])))
    return NONE


@model("<std::option::Option<T> as std::ops::Try>::branch")
def m_opt_try_branch(interp, args, info):
    v = args[0]
    cf = "std::ops::ControlFlow"
    if is_some(v):
        return Adt(cf, interp.prog.variant_index(cf, "Continue"), (v.fields[0],))
    return Adt(cf, interp.prog.variant_index(cf, "Break"), (NONE,))


@model("<std::option::Option<T> as std::ops::FromResidual<std::option::Option<std::convert::Infallible>>>::from_residual")
def m_opt_from_residual(interp, args, info):
    return NONE


@model("std::iter::Iterator::count")
def m_iter_count(interp, args, info):
    return len(drain(interp, make_iter(interp, args[0])))


# --------------------------------------------------------------------------- formatting

class FmtArgs(object):
    __slots__ = ("pieces",)

    def __init__(self, pieces):
        self.pieces = pieces


class FmtArg(object):
    __slots__ = ("how", "ptr", "ty")

    def __init__(self, how, ptr, ty=None):
        self.how, self.ptr, self.ty = how, ptr, ty


class Formatter(object):
    """Output sink: list of ('lit', str) | ('tok', Tok)"""

    def __init__(self):
        self.out = []


def decode_template(bs):
    """core::fmt::Arguments byte template (documented in library/core/src/fmt/mod.rs)."""
    pieces = []
    i = 0
    argi = 0
    bs = list(bs)
    while i < len(bs):
        n = bs[i]
        i += 1
        if n == 0:
            break
        if n < 0x80:
            pieces.append(("lit", bytes(bs[i:i + n]).decode("utf-8")))
            i += n
        elif n == 0x80:
            ln = bs[i] | (bs[i + 1] << 8)
            i += 2
            pieces.append(("lit", bytes(bs[i:i + ln]).decode("utf-8")))
            i += ln
        elif n == 0xC0:
            pieces.append(("arg", argi, None))
            argi += 1
        else:
            # placeholder with options: bit0 flags(4) bit1 width(2) bit2 precision(2) bit3 arg index(2)
            opts = {}
            if n & 1:
                opts["flags"] = bs[i] | (bs[i + 1] << 8) | (bs[i + 2] << 16) | (bs[i + 3] << 24)
                i += 4
            if n & 2:
                opts["width"] = bs[i] | (bs[i + 1] << 8)
                i += 2
            if n & 4:
                opts["precision"] = bs[i] | (bs[i + 1] << 8)
                i += 2
            idx = argi
            if n & 8:
                idx = bs[i] | (bs[i + 1] << 8)
                i += 2
            pieces.append(("arg", idx, opts))
            argi = idx + 1
    return pieces


@model("std::fmt::Arguments::<'a>::new")
def m_fmt_new(interp, args, info):
    tpl = interp.strip(args[0])
    arr = interp.strip(args[1])
    if not isinstance(tpl, BytesV) or not isinstance(arr, ListV):
        raise Inconclusive("format_args! lowering not recognised", interp.where())
    pieces = []
    for p in decode_template(tpl.b):
        if p[0] == "lit":
            pieces.append(p)
        else:
            pieces.append(("arg", arr.items[p[1]], p[2]))
    return FmtArgs(pieces)


@model("std::fmt::Arguments::<'a>::from_str", "std::fmt::Arguments::<'a>::from_str_nonconst")
def m_fmt_from_str(interp, args, info):
    s = interp.strip(args[0])
    return FmtArgs([("lit", s.s)])


@model("core::fmt::rt::Argument::<'_>::new_display")
def m_new_display(interp, args, info):
    targs = info.get("targs", [])
    return FmtArg("display", args[0], interp.prog.ty_str(targs[0]) if targs else None)


@model("core::fmt::rt::Argument::<'_>::new_debug")
def m_new_debug(interp, args, info):
    return FmtArg("debug", args[0])


def display_value(interp, fptr, v, ty=None):
    fm = interp.load(fptr)
    v = interp.strip(v)
    if isinstance(v, Tok):
        fm.out.append(("tok", v))
        return
    if ty is not None and ty.lstrip("&") == "char" and isinstance(v, int) and not isinstance(v, bool):
        fm.out.append(("lit", chr(v)))
        return
    if isinstance(v, bool):
        fm.out.append(("lit", "true" if v else "false"))
        return
    if isinstance(v, int):
        fm.out.append(("lit", str(v)))
        return
    if isinstance(v, StrV):
        fm.out.append(("lit", v.s))
        return
    if isinstance(v, Adt) and _adt_is_local(interp, v):
        k = interp.prog.impl_method("std::fmt::Display", v.name, "fmt")
        if k:
            interp.call_key(k, [mkref(v), fptr])
            return
    raise Inconclusive("Display of %r" % (v,), interp.where())


@model("std::fmt::Formatter::<'a>::write_fmt")
def m_write_fmt(interp, args, info):
    fa = args[1]
    if not isinstance(fa, FmtArgs):
        raise Inconclusive("write_fmt with %r" % (fa,), interp.where())
    for p in fa.pieces:
        if p[0] == "lit":
            interp.load(args[0]).out.append(("lit", p[1]))
        else:
            a = p[1]
            if p[2]:
                raise Inconclusive("format placeholder with options", interp.where())
            if a.how != "display":
                raise Inconclusive("non-Display placeholder", interp.where())
            display_value(interp, args[0], a.ptr, a.ty)
    return ok(UNIT)


@model("std::fmt::Formatter::<'a>::write_str")
def m_write_str(interp, args, info):
    s = interp.strip(args[1])
    if isinstance(s, Tok):
        interp.load(args[0]).out.append(("tok", s))        # an opaque text written as it is
    elif isinstance(s, StrV):
        interp.load(args[0]).out.append(("lit", s.s))
    else:
        raise Inconclusive("write_str of %r" % (s,), interp.where())
    return ok(UNIT)


@model("<&T as thiserror::__private::AsDisplay<'a>>::as_display")
def m_as_display(interp, args, info):
    return args[0]


@model("core::panicking::panic_fmt", "core::panicking::panic", "core::panicking::panic_display")
def m_panic_fmt(interp, args, info):
    fa = args[0] if args else None
    text = ""
    if isinstance(fa, FmtArgs):
        text = "".join(p[1] if p[0] == "lit" else "{}" for p in fa.pieces)
    raise Panic("panic_fmt", interp.where(), text)


# --------------------------------------------------------------------------- hashing (records what is fed)

def _feed_hash(interp, v, depth=0):
    """what a value feeds to the hasher, flattened: tuples and references feed their parts in order"""
    v = interp.strip(v)
    while isinstance(v, (Ptr, BoxV)):
        v = interp.strip(interp.load(v))
    if isinstance(v, tuple) and depth < 6:
        for x in v:
            _feed_hash(interp, x, depth + 1)
        return
    interp.events.append(("hash", v))


@model("core::hash::impls::<impl std::hash::Hash for u64>::hash", "core::hash::impls::<impl std::hash::Hash for isize>::hash",
       "<std::vec::Vec<T, A> as std::hash::Hash>::hash", "<std::string::String as std::hash::Hash>::hash",
       "<std::boxed::Box<T, A> as std::hash::Hash>::hash", "std::hash::Hash::hash",
       "core::hash::impls::<impl std::hash::Hash for &T>::hash", "core::hash::impls::<impl std::hash::Hash for &mut T>::hash",
       "core::hash::impls::<impl std::hash::Hash for [T]>::hash", "core::hash::impls::<impl std::hash::Hash for usize>::hash",
       "core::hash::impls::<impl std::hash::Hash for u32>::hash", "core::hash::impls::<impl std::hash::Hash for u8>::hash",
       "core::hash::impls::<impl std::hash::Hash for str>::hash", "core::hash::impls::<impl std::hash::Hash for bool>::hash")
def m_hash(interp, args, info):
    _feed_hash(interp, args[0])
    return UNIT


def _m_hash_tuple(interp, args, info):
    _feed_hash(interp, args[0])
    return UNIT


for _gen in ("(A, B)", "(A, B, C)", "(A, B, C, D)", "(A, B, C, D, E)", "(T, B)", "(T, B, C)", "(T, B, C, D)", "(T, B, C, D, E)",
             "(T,)", "(A,)"):
    MODELS["core::hash::impls::<impl std::hash::Hash for %s>::hash" % _gen] = _m_hash_tuple


# --------------------------------------------------------------------------- strings

@model("core::str::<impl str>::len")
def m_str_len(interp, args, info):
    s = interp.strip(args[0])
    if isinstance(s, StrV):
        return len(s.s.encode())
    if isinstance(s, Tok) and s.kind == "T":
        hook = getattr(interp.policy, "str_len", None)
        if hook is None:
            raise Inconclusive("length of the opaque text %r" % (s,), interp.where())
        return hook(interp, s)
    raise Inconclusive("str::len on %r" % (s,), interp.where())


@model("core::str::<impl str>::parse")
def m_str_parse(interp, args, info):
    # `s.parse::<T>()` for a type of the crate is `<T as FromStr>::from_str(s)`
    targs = info.get("targs", [])
    if targs:
        t = interp.prog.types[targs[0]]
        if t.get("k") == "adt" and interp.prog.adts.get(t.get("adt"), {}).get("local"):
            k = interp.prog.impl_method("std::str::FromStr", t["adt"], "from_str")
            if k:
                return interp.call_key(k, [args[0]])
    hook = getattr(interp.policy, "str_parse", None)
    if hook is None:
        raise Inconclusive("str::parse is not modelled in this analysis", interp.where())
    return hook(interp, args, info)


@model("miette::LabeledSpan::new_with_span")
def m_labeled_span(interp, args, info):
    return Adt("miette::LabeledSpan", 0, (args[0], args[1]))


@model("std::iter::once")
def m_iter_once(interp, args, info):
    return IterV("vec", ListV([args[0]]))


@model("into:&str->std::string::String#")
def _unused(interp, args, info):
    return args[0]


def _char_pred(name, f):
    def m(interp, args, info):
        v = interp.strip(args[0])
        if isinstance(v, Tok) and v.kind == "C":
            v = v.val
        if not isinstance(v, int):
            raise Inconclusive("%s on %r" % (name, v), interp.where())
        return f(v)
    return m


def _alnum(b):
    return 0x30 <= b <= 0x39 or 0x41 <= b <= 0x5A or 0x61 <= b <= 0x7A


# winnow 0.6 `impl AsChar for u8`: is_alphanum = is_alpha || is_dec_digit (ASCII ranges)
MODELS["<u8 as winnow::stream::AsChar>::is_alphanum"] = _char_pred("u8::is_alphanum", lambda b: _alnum(b & 0xFF))
MODELS["<u8 as winnow::stream::AsChar>::is_alpha"] = _char_pred("u8::is_alpha", lambda b: 0x41 <= b <= 0x5A or 0x61 <= b <= 0x7A)
MODELS["<u8 as winnow::stream::AsChar>::is_dec_digit"] = _char_pred("u8::is_dec_digit", lambda b: 0x30 <= b <= 0x39)
# winnow 0.6 `impl AsChar for char`: the same ASCII ranges on the code point
MODELS["<char as winnow::stream::AsChar>::is_alphanum"] = _char_pred("char::is_alphanum", _alnum)
MODELS["<char as winnow::stream::AsChar>::is_alpha"] = _char_pred("char::is_alpha", lambda b: 0x41 <= b <= 0x5A or 0x61 <= b <= 0x7A)
MODELS["<char as winnow::stream::AsChar>::is_dec_digit"] = _char_pred("char::is_dec_digit", lambda b: 0x30 <= b <= 0x39)
# core: the is_ascii_* family is false for every non-ASCII char, hence invariant on the abstract classes
for _n, _f in (("is_ascii_alphanumeric", _alnum), ("is_ascii_digit", lambda b: 0x30 <= b <= 0x39),
               ("is_ascii_alphabetic", lambda b: 0x41 <= b <= 0x5A or 0x61 <= b <= 0x7A),
               ("is_ascii_lowercase", lambda b: 0x61 <= b <= 0x7A), ("is_ascii_uppercase", lambda b: 0x41 <= b <= 0x5A),
               ("is_ascii", lambda b: b < 0x80), ("is_ascii_hexdigit", lambda b: 0x30 <= b <= 0x39 or 0x41 <= b <= 0x46 or 0x61 <= b <= 0x66),
               ("is_ascii_punctuation", lambda b: 0x21 <= b <= 0x2F or 0x3A <= b <= 0x40 or 0x5B <= b <= 0x60 or 0x7B <= b <= 0x7E),
               ("is_ascii_whitespace", lambda b: b in (0x20, 0x09, 0x0A, 0x0C, 0x0D))):
    for _pfx in ("core", "std"):
        MODELS[_pfx + "::char::methods::<impl char>::" + _n] = _char_pred("char::" + _n, _f)
        MODELS[_pfx + "::num::<impl u8>::" + _n] = _char_pred("u8::" + _n, lambda b, _f=_f: _f(b & 0xFF))


# Unicode-aware predicates are NOT invariant on the abstract character classes (a class of non-ASCII characters may
# contain members of either kind). They are evaluated on the representative, which is a real character, and the
# evaluation is flagged: a `true` on a non-ASCII representative is a genuine witness; an all-`false` outcome proves
# nothing and the caller must treat the class as undecided (see props/c05.char_class).
def _unicode_pred(name, f):
    def m(interp, args, info):
        v = interp.strip(args[0])
        if isinstance(v, Tok) and v.kind == "C":
            v = v.val
        if not isinstance(v, int):
            raise Inconclusive("%s on %r" % (name, v), interp.where())
        interp.events.append(("unicode-pred", name))
        return f(chr(v))
    return m


for _n, _f in (("is_alphanumeric", lambda c: c.isalnum()), ("is_alphabetic", lambda c: c.isalpha()),
               ("is_numeric", lambda c: c.isnumeric()), ("is_whitespace", lambda c: c.isspace()),
               ("is_lowercase", lambda c: c.islower()), ("is_uppercase", lambda c: c.isupper())):
    for _pfx in ("core", "std"):
        MODELS[_pfx + "::char::methods::<impl char>::" + _n] = _unicode_pred("char::" + _n, _f)


@model("std::cmp::Ord::clamp")
def m_clamp(interp, args, info):
    v, lo, hi = args
    if cmp_values(interp, lo, hi) > 0:
        raise Panic("clamp", interp.where(), "min > max")
    if cmp_values(interp, v, lo) < 0:
        return lo
    if cmp_values(interp, v, hi) > 0:
        return hi
    return v


@model("std::fmt::Formatter::<'a>::pad")
def m_fmt_pad(interp, args, info):
    s_ = interp.strip(args[1])
    if isinstance(s_, StrV):
        interp.load(args[0]).out.append(("lit", s_.s))
    elif isinstance(s_, Tok):
        interp.load(args[0]).out.append(("tok", s_))
    else:
        raise Inconclusive("Formatter::pad with %r" % (s_,), interp.where())
    return ok(UNIT)


@model("std::fmt::Formatter::<'a>::write_char", "<std::fmt::Formatter<'_> as std::fmt::Write>::write_char")
def m_fmt_write_char(interp, args, info):
    c = args[1]
    if not isinstance(c, int):
        raise Inconclusive("write_char with %r" % (c,), interp.where())
    interp.load(args[0]).out.append(("lit", chr(c)))
    return ok(UNIT)


def _sort_list(interp, p, cmpf):
    import functools
    c, path = interp.deref(p)
    v = interp.read(c, path)
    while isinstance(v, (Ptr, BoxV)):
        c, path = interp.deref(v)
        v = interp.read(c, path)
    if not isinstance(v, ListV):
        raise Inconclusive("sort on %r" % (v,), interp.where())
    items = sorted(v.items, key=functools.cmp_to_key(cmpf))     # Python's sort is stable, like slice::sort
    interp.write(c, path, ListV(items))
    return UNIT


@model("std::slice::<impl [T]>::sort", "core::slice::<impl [T]>::sort_unstable", "alloc::slice::<impl [T]>::sort")
def m_slice_sort(interp, args, info):
    return _sort_list(interp, args[0], lambda a, b: cmp_values(interp, a, b))


def _list_at(interp, p):
    c, path = interp.deref(p)
    v = interp.read(c, path)
    while isinstance(v, (Ptr, BoxV)):
        c, path = interp.deref(v)
        v = interp.read(c, path)
    if not isinstance(v, ListV):
        raise Inconclusive("list operation on %r" % (v,), interp.where())
    return c, path, v


@model("std::vec::Vec::<T, A>::dedup")
def m_vec_dedup(interp, args, info):
    c, path, v = _list_at(interp, args[0])
    out = []
    for x in v.items:
        if out and eq_values(interp, out[-1], x):
            continue
        out.append(x)
    interp.write(c, path, ListV(out))
    return UNIT


@model("std::vec::Vec::<T, A>::dedup_by")
def m_vec_dedup_by(interp, args, info):
    # documented: same_bucket(a, b) gets the elements in the opposite order from the slice — `a` is the later element,
    # `b` the previously retained one — and `a` is removed when it answers true
    c, path, v = _list_at(interp, args[0])
    out = []
    for x in v.items:
        if out and interp.call_value(args[1], [mkref(x), mkref(out[-1])]):
            continue
        out.append(x)
    interp.write(c, path, ListV(out))
    return UNIT


@model("std::vec::Vec::<T, A>::dedup_by_key")
def m_vec_dedup_by_key(interp, args, info):
    c, path, v = _list_at(interp, args[0])
    out, keys = [], []
    for x in v.items:
        k = interp.call_value(args[1], [mkref(x)])
        if out and eq_values(interp, keys[-1], k):
            continue
        out.append(x)
        keys.append(k)
    interp.write(c, path, ListV(out))
    return UNIT


def _binary_search(interp, items, cmpf):
    """documented behaviour of slice::binary_search*: on a slice sorted consistently with cmpf, Ok(index of a match) — any
    match when there are several — else Err(insertion point). The slice is required to be sorted; if it is not, the
    result is unspecified, which this model reports as inconclusive."""
    res = [cmpf(x) for x in items]           # ordering of element vs target: -1 / 0 / 1
    if any(res[i] > res[i + 1] for i in range(len(res) - 1)):
        raise Inconclusive("binary_search on a slice that is not sorted for the target", interp.where())
    hits = [i for i, r in enumerate(res) if r == 0]
    if hits:
        i = hits[0] if len(hits) == 1 else hits[interp.ctx.choose("binary_search-match", len(hits))]
        return ok(i)
    return err(sum(1 for r in res if r < 0))


@model("core::slice::<impl [T]>::binary_search", "std::slice::<impl [T]>::binary_search")
def m_binary_search(interp, args, info):
    v = interp.strip(args[0])
    if not isinstance(v, ListV):
        raise Inconclusive("binary_search on %r" % (v,), interp.where())
    return _binary_search(interp, v.items, lambda x: cmp_values(interp, x, args[1]))


@model("core::slice::<impl [T]>::binary_search_by", "std::slice::<impl [T]>::binary_search_by")
def m_binary_search_by(interp, args, info):
    v = interp.strip(args[0])
    if not isinstance(v, ListV):
        raise Inconclusive("binary_search_by on %r" % (v,), interp.where())
    return _binary_search(interp, v.items, lambda x: ordering_to_int(interp.call_value(args[1], [mkref(x)])))


@model("core::slice::<impl [T]>::binary_search_by_key", "std::slice::<impl [T]>::binary_search_by_key")
def m_binary_search_by_key(interp, args, info):
    v = interp.strip(args[0])
    if not isinstance(v, ListV):
        raise Inconclusive("binary_search_by_key on %r" % (v,), interp.where())
    return _binary_search(interp, v.items, lambda x: cmp_values(interp, interp.call_value(args[2], [mkref(x)]), args[1]))


@model("std::slice::<impl [T]>::sort_by", "core::slice::<impl [T]>::sort_unstable_by", "alloc::slice::<impl [T]>::sort_by")
def m_slice_sort_by(interp, args, info):
    return _sort_list(interp, args[0], lambda a, b: ordering_to_int(interp.call_value(args[1], [mkref(a), mkref(b)])))


@model("std::slice::<impl [T]>::sort_by_key", "core::slice::<impl [T]>::sort_unstable_by_key", "alloc::slice::<impl [T]>::sort_by_key",
       "std::slice::<impl [T]>::sort_by_cached_key")
def m_slice_sort_by_key(interp, args, info):
    return _sort_list(interp, args[0], lambda a, b: cmp_values(interp, interp.call_value(args[1], [mkref(a)]),
                                                               interp.call_value(args[1], [mkref(b)])))


@model("core::str::<impl str>::starts_with", "core::str::<impl str>::ends_with", "core::str::<impl str>::contains")
def m_str_starts_with(interp, args, info):
    s_ = interp.strip(args[0])
    pat = args[1]
    if isinstance(s_, StrV) and isinstance(pat, (int, StrV)):
        needle = chr(pat) if isinstance(pat, int) else pat.s
        which = info["def"].rsplit("::", 1)[1]
        return {"starts_with": s_.s.startswith, "ends_with": s_.s.endswith, "contains": s_.s.__contains__}[which](needle)
    if isinstance(s_, StrV) and not isinstance(pat, (int, StrV)):
        # a concrete text against a closure / [char] pattern: decided character by character
        pv = interp.load(pat) if isinstance(pat, Ptr) else pat

        def is_hit(ch):
            if isinstance(pv, (ListV, tuple)):
                return any(isinstance(x, int) and x == ord(ch) for x in (pv.items if isinstance(pv, ListV) else pv))
            if isinstance(pv, (Clo, FnV)):
                r = interp.call_value(pv, [ord(ch)])
                if not isinstance(r, bool):
                    raise Inconclusive("pattern predicate answered %r" % (r,), interp.where())
                return r
            raise Inconclusive("text pattern %r" % (pv,), interp.where())
        which = info["def"].rsplit("::", 1)[1]
        if which == "starts_with":
            return bool(s_.s) and is_hit(s_.s[0])
        if which == "ends_with":
            return bool(s_.s) and is_hit(s_.s[-1])
        return any(is_hit(ch) for ch in s_.s)
    if isinstance(s_, Tok) and s_.dom == "input" and hasattr(interp.policy, "stream_starts_with") \
            and info["def"].rsplit("::", 1)[1] == "starts_with":
        return interp.policy.stream_starts_with(interp, s_, pat)
    if isinstance(s_, Tok) and s_.kind == "T":
        # opaque text (e.g. an identifier): whether it starts with / contains a given pattern is not determined by the
        # abstraction — both outcomes are explored
        interp.events.append(("text-test", s_.name))
        return interp.ctx.choose("text-test", 2) == 0
    raise Inconclusive("starts_with on %r" % (s_,), interp.where())


@model("core::str::<impl str>::trim", "core::str::<impl str>::trim_start", "core::str::<impl str>::trim_end",
       "core::str::<impl str>::trim_matches", "core::str::<impl str>::trim_start_matches", "core::str::<impl str>::trim_end_matches")
def m_str_trim(interp, args, info):
    s_ = interp.strip(args[0])
    if isinstance(s_, Tok) and s_.kind == "T" and s_.dom == "input":
        hook = getattr(interp.policy, "stream_trim_start", None)
        which_ = info["def"].rsplit("::", 1)[1]
        if hook is not None and which_ in ("trim_start_matches", "trim_start"):
            return hook(interp, s_, args[1] if which_ == "trim_start_matches" else None, info)
        if hook is not None:
            raise Inconclusive("%s on the input stream" % which_, interp.where())
    if isinstance(s_, Tok) and s_.kind == "T":
        # a sub-slice of the text: possibly the same text, but not in general — a different token
        return Tok("T", "trimmed(%s)" % s_.name, s_.val, dom=s_.dom)
    if isinstance(s_, StrV):
        which = info["def"].rsplit("::", 1)[1]
        if which == "trim":
            return StrV(s_.s.strip())
        if which == "trim_start":
            return StrV(s_.s.lstrip())
        if which == "trim_end":
            return StrV(s_.s.rstrip())
        # trim_matches / trim_start_matches / trim_end_matches on a concrete text: char, &str, [char] or closure pattern
        pat = args[1]
        if isinstance(pat, Ptr):
            pat = interp.load(pat)

        def hit(text, at_start):
            """length of a match at the start / end of text, 0 if none"""
            if isinstance(pat, StrV):
                if pat.s and (text.startswith(pat.s) if at_start else text.endswith(pat.s)):
                    return len(pat.s)
                return 0
            if not text:
                return 0
            ch = text[0] if at_start else text[-1]
            if isinstance(pat, bool):
                raise Inconclusive("trim pattern %r" % (pat,), interp.where())
            if isinstance(pat, int):
                return 1 if ord(ch) == pat else 0
            if isinstance(pat, (ListV, tuple)):
                items = pat.items if isinstance(pat, ListV) else pat
                return 1 if any(isinstance(x, int) and ord(ch) == x for x in items) else 0
            if isinstance(pat, (Clo, FnV)):
                r = interp.call_value(pat, [ord(ch)])
                if not isinstance(r, bool):
                    raise Inconclusive("trim predicate answered %r" % (r,), interp.where())
                return 1 if r else 0
            raise Inconclusive("trim pattern %r" % (pat,), interp.where())
        text = s_.s
        if which in ("trim_matches", "trim_start_matches"):
            while True:
                n = hit(text, True)
                if not n:
                    break
                text = text[n:]
        if which in ("trim_matches", "trim_end_matches"):
            while True:
                n = hit(text, False)
                if not n:
                    break
                text = text[:-n]
        return StrV(text)
    raise Inconclusive("trim on %r" % (s_,), interp.where())


def _float_cmp(interp, a, b):
    a, b = interp.strip(a), interp.strip(b)
    if isinstance(a, Tok) and isinstance(b, Tok) and a.kind == "F" and b.kind == "F":
        if a.val == b.val:
            return 0
        # distinct integers may collide after a lossy conversion to floating point (above 2^53)
        if interp.ctx.choose("float-collision", 2) == 1:
            return 0
        return (a.val > b.val) - (a.val < b.val)
    raise Inconclusive("float comparison on %r %r" % (a, b), interp.where())


@model("std::f64::<impl f64>::total_cmp", "core::f64::<impl f64>::total_cmp")
def m_total_cmp(interp, args, info):
    return ordering(_float_cmp(interp, args[0], args[1]))


def _int_method(name, f):
    def m(interp, args, info):
        a, b = args[0], args[1]
        if isinstance(a, bool) or isinstance(b, bool) or not isinstance(a, int) or not isinstance(b, int):
            raise Inconclusive("%s on %r, %r" % (name, a, b), interp.where())
        return f(a, b)
    return m


for _ty in ("usize", "u64", "u32", "u16", "u8"):
    for _pfx in ("core", "std"):
        MODELS["%s::num::<impl %s>::saturating_sub" % (_pfx, _ty)] = _int_method("saturating_sub", lambda a, b: max(a - b, 0))
        MODELS["%s::num::<impl %s>::checked_sub" % (_pfx, _ty)] = _int_method("checked_sub", lambda a, b: some(a - b) if a >= b else NONE)
        MODELS["%s::num::<impl %s>::wrapping_sub" % (_pfx, _ty)] = _int_method(
            "wrapping_sub", lambda a, b, _bits={"usize": 64, "u64": 64, "u32": 32, "u16": 16, "u8": 8}[_ty]: (a - b) % (1 << _bits))
        MODELS["%s::num::<impl %s>::min" % (_pfx, _ty)] = _int_method("min", min)
        MODELS["%s::num::<impl %s>::max" % (_pfx, _ty)] = _int_method("max", max)


# --------------------------------------------------------------------------- std::cmp::Ordering helpers
def _ord_arg(interp, v):
    while isinstance(v, Ptr):
        v = interp.load(v)
    return ordering_to_int(v)


@model("std::cmp::Ordering::then")
def m_ordering_then(interp, args, info):
    a = _ord_arg(interp, args[0])
    return ordering(a) if a != 0 else ordering(_ord_arg(interp, args[1]))


@model("std::cmp::Ordering::then_with")
def m_ordering_then_with(interp, args, info):
    a = _ord_arg(interp, args[0])
    if a != 0:
        return ordering(a)
    return interp.call_value(args[1], []) if hasattr(interp, "call_value") else interp.call_closure(args[1], [])


@model("std::cmp::Ordering::reverse")
def m_ordering_reverse(interp, args, info):
    return ordering(-_ord_arg(interp, args[0]))


for _n, _f in (("is_lt", lambda x: x < 0), ("is_le", lambda x: x <= 0), ("is_gt", lambda x: x > 0),
               ("is_ge", lambda x: x >= 0), ("is_eq", lambda x: x == 0), ("is_ne", lambda x: x != 0)):
    def _mk(f):
        def m(interp, args, info):
            return f(_ord_arg(interp, args[0]))
        return m
    MODELS.setdefault("std::cmp::Ordering::" + _n, _mk(_f))


@model("std::string::String::as_str", "std::string::String::as_mut_str", "<std::string::String as std::convert::AsRef<str>>::as_ref",
       "<std::string::String as std::borrow::Borrow<str>>::borrow", "<str as std::convert::AsRef<str>>::as_ref")
def m_string_as_str(interp, args, info):
    return args[0]


@model("std::iter::Iterator::try_for_each")
def m_iter_try_for_each(interp, args, info):
    """try_for_each over an iterator passed by &mut; the closure returns Option<()> or Result<(), E>"""
    c, path = interp.deref(args[0])
    it = interp.read(c, path)
    it = it if isinstance(it, IterV) else make_iter(interp, it)
    targs = info.get("targs", [])
    rty = interp.prog.ty_str(targs[-1]) if targs else ""
    is_opt = rty.startswith("std::option::Option")
    is_res = rty.startswith("std::result::Result")
    if not (is_opt or is_res):
        raise Inconclusive("try_for_each with residual type %s" % rty, interp.where())
    while True:
        x, it = iter_next(interp, it)
        interp.write(c, path, it)
        if not is_some(x):
            return some(UNIT) if is_opt else ok(UNIT)
        r = interp.call_value(args[1], [x.fields[0]])
        if is_opt:
            if not is_some(r):
                return NONE
        elif not _is_ok(r):
            return r


@model("std::array::<impl [T; N]>::map", "core::array::<impl [T; N]>::map")
def m_array_map(interp, args, info):
    a = args[0]
    if isinstance(a, ListV):
        return ListV([interp.call_value(args[1], [x]) for x in a.items])
    if isinstance(a, tuple):
        return tuple(interp.call_value(args[1], [x]) for x in a)
    raise Inconclusive("array map on %r" % (a,), interp.where())


@model("std::iter::Iterator::map_while")
def m_iter_map_while(interp, args, info):
    return IterV("map_while", make_iter(interp, args[0]), args[1], 0)


@model("std::iter::Iterator::take_while")
def m_iter_take_while(interp, args, info):
    return IterV("take_while", make_iter(interp, args[0]), args[1], 0)


@model("std::iter::Iterator::skip_while")
def m_iter_skip_while(interp, args, info):
    return IterV("skip_while", make_iter(interp, args[0]), args[1], 0)


@model("std::iter::Iterator::fuse", "std::iter::Iterator::by_ref_value", "std::iter::Iterator::peekable_not_peeked")
def m_iter_fuse(interp, args, info):
    # every iterator of this model keeps answering None after its first None
    return make_iter(interp, args[0])


@model("<std::vec::Vec<T> as std::iter::FromIterator<T>>::from_iter", "std::iter::FromIterator::from_iter",
       "<std::vec::Vec<T, A> as std::iter::FromIterator<T>>::from_iter")
def m_vec_from_iter(interp, args, info):
    return ListV(drain(interp, make_iter(interp, args[0])))


@model("std::array::<impl std::iter::IntoIterator for [T; N]>::into_iter", "core::array::<impl std::iter::IntoIterator for [T; N]>::into_iter")
def m_array_into_iter(interp, args, info):
    a = args[0]
    if isinstance(a, tuple):
        a = ListV(list(a))
    return make_iter(interp, a)


@model("core::str::<impl str>::strip_prefix")
def m_str_strip_prefix(interp, args, info):
    s_ = interp.strip(args[0])
    pat = args[1]
    if isinstance(s_, StrV) and isinstance(pat, (int, StrV)) and not isinstance(pat, bool):
        needle = chr(pat) if isinstance(pat, int) else pat.s
        return some(StrV(s_.s[len(needle):])) if s_.s.startswith(needle) else NONE
    hook = getattr(interp.policy, "stream_strip_prefix", None)
    if hook is not None and isinstance(s_, Tok) and s_.kind == "T":
        return hook(interp, s_, pat, info)
    if isinstance(s_, Tok) and s_.kind == "T":
        # opaque text: whether it starts with the pattern is not determined — both outcomes; the remainder is a
        # different text (a sub-slice that starts later)
        interp.events.append(("text-test", s_.name))
        if interp.ctx.choose("text-test", 2) == 0:
            return some(Tok("T", "stripped(%s)" % s_.name, s_.val, dom=s_.dom))
        return NONE
    raise Inconclusive("strip_prefix on %r" % (s_,), interp.where())


@model("core::slice::<impl [T]>::split_first")
def m_slice_split_first(interp, args, info):
    c, path, n = _elem_ptr(interp, args[0], 0)
    if not n:
        return NONE
    v = interp.read(c, path)
    return some((Ptr(c, path + (("i", 0),)), Ptr(Cell(ListV(tuple(v.items[1:]))))))


@model("core::slice::<impl [T]>::split_last")
def m_slice_split_last(interp, args, info):
    c, path, n = _elem_ptr(interp, args[0], 0)
    if not n:
        return NONE
    v = interp.read(c, path)
    return some((Ptr(c, path + (("i", n - 1),)), Ptr(Cell(ListV(tuple(v.items[:-1]))))))


@model("core::slice::<impl [T]>::split_at")
def m_slice_split_at(interp, args, info):
    c, path, n = _elem_ptr(interp, args[0], 0)
    k = args[1]
    if not isinstance(k, int) or isinstance(k, bool):
        raise Inconclusive("split_at(%r)" % (k,), interp.where())
    if k > n:
        raise Panic("index", interp.where(), "split_at %d of %d" % (k, n))
    v = interp.read(c, path)
    return (Ptr(Cell(ListV(tuple(v.items[:k])))), Ptr(Cell(ListV(tuple(v.items[k:])))))


@model("core::str::<impl str>::as_bytes", "std::string::String::as_bytes")
def m_str_as_bytes(interp, args, info):
    v = interp.strip(args[0])
    if isinstance(v, StrV):
        return Ptr(Cell(ListV(list(v.s.encode("utf-8")))))
    if isinstance(v, Tok) and v.kind == "T":
        # the byte view of an opaque text: the same opaque text (byte order of UTF-8 = string order, same equality)
        return args[0]
    raise Inconclusive("as_bytes on %r" % (v,), interp.where())


@model("core::str::<impl str>::bytes")
def m_str_bytes(interp, args, info):
    v = interp.strip(args[0])
    if isinstance(v, StrV):
        return IterV("vec", ListV(list(v.s.encode("utf-8"))))
    raise Inconclusive("bytes on %r" % (v,), interp.where())


@model("core::str::<impl str>::chars")
def m_str_chars(interp, args, info):
    v = interp.strip(args[0])
    if isinstance(v, StrV):
        return IterV("vec", ListV([ord(c) for c in v.s]))
    raise Inconclusive("chars on %r" % (v,), interp.where())


def concrete_u64_parse(interp, args, info):
    """str::parse::<u64> on a concrete text, as documented: optional `+`, decimal digits, no overflow"""
    import re as _re
    s_ = interp.strip(args[0])
    tys = [interp.prog.ty_str(t) for t in info.get("targs", [])]
    if not isinstance(s_, StrV) or "u64" not in tys:
        raise Inconclusive("str::parse::<%s> on %r" % (tys, s_), interp.where())
    if _re.fullmatch(r"\+?[0-9]+", s_.s) and int(s_.s) < (1 << 64):
        return ok(int(s_.s))
    return err(Tok("O", "parse_int_error"))


@model("core::slice::<impl [T]>::last_mut")
def m_slice_last_mut(interp, args, info):
    c, path, n = _elem_ptr(interp, args[0], 0)
    return some(Ptr(c, path + (("i", n - 1),))) if n else NONE


@model("core::slice::<impl [T]>::first_mut")
def m_slice_first_mut(interp, args, info):
    c, path, n = _elem_ptr(interp, args[0], 0)
    return some(Ptr(c, path + (("i", 0),))) if n else NONE


@model("core::slice::<impl [T]>::get_mut")
def m_slice_get_mut(interp, args, info):
    c, path, n = _elem_ptr(interp, args[0], 0)
    i = args[1]
    if not isinstance(i, int) or isinstance(i, bool):
        raise Inconclusive("slice get_mut(%r)" % (i,), interp.where())
    return some(Ptr(c, path + (("i", i),))) if 0 <= i < n else NONE


@model("std::slice::<impl [T]>::to_vec", "alloc::slice::<impl [T]>::to_vec")
def m_slice_to_vec(interp, args, info):
    c, path, n = _elem_ptr(interp, args[0], 0)
    v = interp.read(c, path)
    return ListV([clone_value(interp, x) for x in v.items])


@model("std::iter::Iterator::by_ref")
def m_iter_by_ref(interp, args, info):
    return args[0]


@model("core::slice::<impl [T]>::contains")
def m_slice_contains(interp, args, info):
    c, path, n = _elem_ptr(interp, args[0], 0)
    v = interp.read(c, path)
    needle = interp.load(args[1]) if isinstance(args[1], Ptr) else args[1]
    for x in v.items:
        if eq_values(interp, x, needle):
            return True
    return False


@model("std::char::convert::<impl std::convert::TryFrom<char> for u8>::try_from",
       "core::char::convert::<impl std::convert::TryFrom<char> for u8>::try_from")
def m_u8_try_from_char(interp, args, info):
    v = interp.strip(args[0])
    if isinstance(v, Tok) and v.kind == "C":
        v = v.val
    if not isinstance(v, int) or isinstance(v, bool):
        raise Inconclusive("u8::try_from(%r)" % (v,), interp.where())
    return ok(v) if v < 256 else err(Tok("O", "char-try-from-error"))


@model("std::result::Result::<T, E>::map_or")
def m_res_map_or(interp, args, info):
    return interp.call_value(args[2], [args[0].fields[0]]) if _is_ok(args[0]) else args[1]


@model("std::result::Result::<T, E>::map_or_else")
def m_res_map_or_else(interp, args, info):
    if _is_ok(args[0]):
        return interp.call_value(args[2], [args[0].fields[0]])
    return interp.call_value(args[1], [args[0].fields[0]])


@model("std::result::Result::<T, E>::is_ok_and")
def m_res_is_ok_and(interp, args, info):
    return bool(_is_ok(args[0]) and interp.call_value(args[1], [args[0].fields[0]]))


@model("std::result::Result::<T, E>::unwrap_or")
def m_res_unwrap_or(interp, args, info):
    return args[0].fields[0] if _is_ok(args[0]) else args[1]


@model("std::result::Result::<T, E>::unwrap_or_default")
def m_res_unwrap_or_default(interp, args, info):
    if _is_ok(args[0]):
        return args[0].fields[0]
    targs = info.get("targs", [])
    if targs:
        return default_of_type(interp, targs[0])
    raise Inconclusive("unwrap_or_default on Err", interp.where())


@model("std::ops::Fn::call", "std::ops::FnMut::call_mut", "std::ops::FnOnce::call_once",
       "<&F as std::ops::Fn<A>>::call", "<&F as std::ops::FnMut<A>>::call_mut", "<&F as std::ops::FnOnce<A>>::call_once",
       "<&mut F as std::ops::FnMut<A>>::call_mut", "<&mut F as std::ops::FnOnce<A>>::call_once")
def m_fn_call(interp, args, info):
    f = args[0]
    a = args[1] if len(args) > 1 else ()
    if not isinstance(a, tuple):
        raise Inconclusive("Fn::call with arguments %r" % (a,), interp.where())
    while isinstance(f, (Ptr, BoxV)) and isinstance(interp.load(f), (Ptr, BoxV, Clo, FnV)):
        f = interp.load(f)
    return interp.call_value(f, list(a))


@model("core::str::<impl str>::to_ascii_lowercase", "std::str::<impl str>::to_ascii_lowercase", "alloc::str::<impl str>::to_ascii_lowercase",
       "std::string::String::to_ascii_lowercase")
def m_str_to_ascii_lowercase(interp, args, info):
    v = interp.strip(args[0])
    if isinstance(v, StrV):
        return StrV("".join(c.lower() if c.isascii() else c for c in v.s))
    raise Inconclusive("to_ascii_lowercase on %r" % (v,), interp.where())


@model("core::str::<impl str>::to_ascii_uppercase", "std::str::<impl str>::to_ascii_uppercase", "alloc::str::<impl str>::to_ascii_uppercase")
def m_str_to_ascii_uppercase(interp, args, info):
    v = interp.strip(args[0])
    if isinstance(v, StrV):
        return StrV("".join(c.upper() if c.isascii() else c for c in v.s))
    raise Inconclusive("to_ascii_uppercase on %r" % (v,), interp.where())


@model("core::str::<impl str>::eq_ignore_ascii_case")
def m_str_eq_ignore_ascii_case(interp, args, info):
    a, b = interp.strip(args[0]), interp.strip(args[1])
    if isinstance(a, StrV) and isinstance(b, StrV):
        return a.s.lower() == b.s.lower()
    raise Inconclusive("eq_ignore_ascii_case on %r %r" % (a, b), interp.where())


@model("std::vec::Vec::<T, A>::remove")
def m_vec_remove(interp, args, info):
    c, path, v = _vec_at(interp, args[0])
    i = args[1]
    if not isinstance(i, int) or isinstance(i, bool):
        raise Inconclusive("Vec::remove(%r)" % (i,), interp.where())
    if not 0 <= i < len(v.items):
        raise Panic("index", interp.where(), "removal index %d out of %d" % (i, len(v.items)))
    x = v.items[i]
    interp.write(c, path, ListV(v.items[:i] + v.items[i + 1:]))
    return x


@model("std::vec::Vec::<T, A>::swap_remove")
def m_vec_swap_remove(interp, args, info):
    c, path, v = _vec_at(interp, args[0])
    i = args[1]
    if not isinstance(i, int) or isinstance(i, bool):
        raise Inconclusive("Vec::swap_remove(%r)" % (i,), interp.where())
    if not 0 <= i < len(v.items):
        raise Panic("index", interp.where(), "swap_remove index %d out of %d" % (i, len(v.items)))
    items = list(v.items)
    x = items[i]
    items[i] = items[-1]
    items.pop()
    interp.write(c, path, ListV(items))
    return x


@model("core::slice::<impl [T]>::windows")
def m_slice_windows(interp, args, info):
    c, path, n = _elem_ptr(interp, args[0], 0)
    k = args[1]
    if not isinstance(k, int) or isinstance(k, bool) or k <= 0:
        raise Inconclusive("windows(%r)" % (k,), interp.where())
    v = interp.read(c, path)
    out = []
    for i in range(0, max(0, n - k + 1)):
        out.append(Ptr(Cell(ListV(tuple(v.items[i:i + k])))))            # a read-only view of k consecutive elements
    return IterV("vec", ListV(out))


@model("std::iter::repeat")
def m_iter_repeat(interp, args, info):
    return IterV("repeat", args[0])


@model("std::ops::RangeInclusive::<Idx>::new")
def m_range_inclusive_new(interp, args, info):
    return Adt("std::ops::RangeInclusive", 0, (args[0], args[1], False))


@model("std::array::<impl std::ops::Index<I> for [T; N]>::index", "core::array::<impl std::ops::Index<I> for [T; N]>::index")
def m_array_index(interp, args, info):
    return m_vec_index(interp, args, info)


# ----------------------------------------------------------------------------- Result / Option: the rest of the small API

def _model_missing(*keys):
    """register only the names that have no model yet"""
    def deco(f):
        for k in keys:
            MODELS.setdefault(k, f)
        return f
    return deco


@_model_missing("std::result::Result::<T, E>::is_ok")
def m_res_is_ok(interp, args, info):
    return _is_ok(interp.strip(args[0]))


@_model_missing("std::result::Result::<T, E>::is_err")
def m_res_is_err(interp, args, info):
    return not _is_ok(interp.strip(args[0]))


@_model_missing("std::result::Result::<T, E>::is_err_and")
def m_res_is_err_and(interp, args, info):
    return bool((not _is_ok(args[0])) and interp.call_value(args[1], [args[0].fields[0]]))


@_model_missing("std::result::Result::<T, E>::err")
def m_res_err(interp, args, info):
    return NONE if _is_ok(args[0]) else some(args[0].fields[0])


@_model_missing("std::result::Result::<T, E>::unwrap", "std::result::Result::<T, E>::expect")
def m_res_unwrap(interp, args, info):
    if _is_ok(args[0]):
        return args[0].fields[0]
    raise Panic("unwrap_err_value", interp.where())


@_model_missing("std::result::Result::<T, E>::unwrap_err", "std::result::Result::<T, E>::expect_err")
def m_res_unwrap_err(interp, args, info):
    if not _is_ok(args[0]):
        return args[0].fields[0]
    raise Panic("unwrap_err_on_ok", interp.where())


@_model_missing("std::result::Result::<T, E>::and_then")
def m_res_and_then(interp, args, info):
    if _is_ok(args[0]):
        return interp.call_value(args[1], [args[0].fields[0]])
    return args[0]


@_model_missing("std::result::Result::<T, E>::or_else")
def m_res_or_else(interp, args, info):
    if _is_ok(args[0]):
        return args[0]
    return interp.call_value(args[1], [args[0].fields[0]])


@_model_missing("std::result::Result::<T, E>::and")
def m_res_and(interp, args, info):
    return args[1] if _is_ok(args[0]) else args[0]


@_model_missing("std::result::Result::<T, E>::or")
def m_res_or(interp, args, info):
    return args[0] if _is_ok(args[0]) else args[1]


@_model_missing("std::result::Result::<T, E>::as_ref", "std::result::Result::<T, E>::as_mut")
def m_res_as_ref(interp, args, info):
    c, path = interp.deref(args[0])
    v = interp.read(c, path)
    if not (isinstance(v, Adt) and v.name == "std::result::Result"):
        raise Inconclusive("Result::as_ref on %r" % (v,), interp.where())
    return Adt(v.name, v.variant, (Ptr(c, tuple(path) + (("v", v.variant), ("f", 0))),)) if False else \
        Adt(v.name, v.variant, (mkref(v.fields[0]),))


@_model_missing("std::result::Result::<T, E>::inspect", "std::option::Option::<T>::inspect")
def m_inspect(interp, args, info):
    v = args[0]
    if (isinstance(v, Adt) and v.name == "std::result::Result" and v.variant == 0) or is_some(v):
        interp.call_value(args[1], [mkref(v.fields[0])])
    return v


@_model_missing("std::result::Result::<T, E>::inspect_err")
def m_inspect_err(interp, args, info):
    v = args[0]
    if not _is_ok(v):
        interp.call_value(args[1], [mkref(v.fields[0])])
    return v


@_model_missing("std::option::Option::<T>::ok_or_else")
def m_opt_ok_or_else(interp, args, info):
    return ok(args[0].fields[0]) if is_some(args[0]) else err(interp.call_value(args[1], []))


@_model_missing("std::option::Option::<T>::map_or_else")
def m_opt_map_or_else(interp, args, info):
    if is_some(args[0]):
        return interp.call_value(args[2], [args[0].fields[0]])
    return interp.call_value(args[1], [])


@_model_missing("std::option::Option::<std::option::Option<T>>::flatten")
def m_opt_flatten(interp, args, info):
    return args[0].fields[0] if is_some(args[0]) else NONE


@_model_missing("std::option::Option::<T>::insert", "std::option::Option::<T>::replace")
def m_opt_insert(interp, args, info):
    c, path = interp.deref(args[0])
    old = interp.read(c, path)
    interp.write(c, path, some(args[1]))
    if info["def"].endswith("::replace"):
        return old
    return Ptr(c, tuple(path) + (("f", 0),)) if False else mkref(args[1])


@_model_missing("std::option::Option::<std::result::Result<T, E>>::transpose")
def m_opt_transpose(interp, args, info):
    v = args[0]
    if not is_some(v):
        return ok(NONE)
    r = v.fields[0]
    return ok(some(r.fields[0])) if _is_ok(r) else r


@_model_missing("std::result::Result::<std::option::Option<T>, E>::transpose")
def m_res_transpose(interp, args, info):
    r = args[0]
    if not _is_ok(r):
        return some(r)
    o = r.fields[0]
    return some(ok(o.fields[0])) if is_some(o) else NONE


# ----------------------------------------------------------------------------- Peekable, retain

@_model_missing("std::iter::Iterator::peekable")
def m_iter_peekable(interp, args, info):
    return IterV("peekable", make_iter(interp, args[0]), None)


def _peek(interp, p):
    c, path = interp.deref(p)
    it = interp.read(c, path)
    if not (isinstance(it, IterV) and it.kind == "peekable"):
        raise Inconclusive("peek on %r" % (it,), interp.where())
    if it.b is None:
        x, inner = iter_next(interp, it.a)
        it = IterV("peekable", inner, (x,))
        interp.write(c, path, it)
    return c, path, it


@_model_missing("std::iter::Peekable::<I>::peek", "std::iter::Peekable::<I>::peek_mut")
def m_peekable_peek(interp, args, info):
    c, path, it = _peek(interp, args[0])
    x = it.b[0]
    return some(mkref(x.fields[0])) if is_some(x) else NONE


@_model_missing("std::iter::Peekable::<I>::next_if")
def m_peekable_next_if(interp, args, info):
    c, path, it = _peek(interp, args[0])
    x = it.b[0]
    if is_some(x):
        keep = interp.call_value(args[1], [mkref(x.fields[0])])
        if not isinstance(keep, bool):
            raise Inconclusive("next_if predicate returned %r" % (keep,), interp.where())
        if keep:
            interp.write(c, path, IterV("peekable", it.a, None))
            return x
    return NONE


@_model_missing("std::iter::Peekable::<I>::next_if_eq")
def m_peekable_next_if_eq(interp, args, info):
    c, path, it = _peek(interp, args[0])
    x = it.b[0]
    if is_some(x) and eq_values(interp, x.fields[0], args[1]):
        interp.write(c, path, IterV("peekable", it.a, None))
        return x
    return NONE


@_model_missing("std::vec::Vec::<T, A>::retain", "std::vec::Vec::<T, A>::retain_mut")
def m_vec_retain(interp, args, info):
    c, path, v = _list_at(interp, args[0])
    out = []
    for x in v.items:
        keep = interp.call_value(args[1], [mkref(x)])
        if not isinstance(keep, bool):
            raise Inconclusive("retain predicate returned %r" % (keep,), interp.where())
        if keep:
            out.append(x)
    interp.write(c, path, ListV(out))
    return UNIT


# ----------------------------------------------------------------------------- more iterator consumers and Vec editing

def _range_of(interp, i, n):
    if not (isinstance(i, Adt) and i.name.startswith("std::ops::Range")):
        raise Inconclusive("range argument %r" % (i,), interp.where())
    f = i.fields
    lo, hi = {"std::ops::RangeTo": lambda: (0, f[0]), "std::ops::RangeFrom": lambda: (f[0], n),
              "std::ops::Range": lambda: (f[0], f[1]), "std::ops::RangeFull": lambda: (0, n),
              "std::ops::RangeToInclusive": lambda: (0, f[0] + 1 if isinstance(f[0], int) else f[0]),
              "std::ops::RangeInclusive": lambda: (f[0], f[1] + 1 if isinstance(f[1], int) else f[1])}.get(i.name, lambda: (None, None))()
    if not (isinstance(lo, int) and isinstance(hi, int)) or isinstance(lo, bool) or isinstance(hi, bool):
        raise Inconclusive("range with %r" % (i,), interp.where())
    if lo > hi or hi > n:
        raise Panic("index", interp.where(), "range %d..%d out of %d" % (lo, hi, n))
    return lo, hi


@_model_missing("std::iter::Iterator::unzip")
def m_iter_unzip(interp, args, info):
    xs = drain(interp, make_iter(interp, args[0]))
    for x in xs:
        if not (isinstance(x, tuple) and len(x) == 2):
            raise Inconclusive("unzip of %r" % (x,), interp.where())
    return (ListV([x[0] for x in xs]), ListV([x[1] for x in xs]))


@_model_missing("std::iter::Iterator::partition")
def m_iter_partition(interp, args, info):
    yes, no = [], []
    for x in drain(interp, make_iter(interp, args[0])):
        k = interp.call_value(args[1], [mkref(x)])
        if not isinstance(k, bool):
            raise Inconclusive("partition predicate returned %r" % (k,), interp.where())
        (yes if k else no).append(x)
    return (ListV(yes), ListV(no))


@_model_missing("std::iter::Iterator::inspect")
def m_iter_inspect(interp, args, info):
    return IterV("inspect", make_iter(interp, args[0]), args[1])


@_model_missing("std::iter::Iterator::scan")
def m_iter_scan(interp, args, info):
    state = Cell(args[1])
    f = args[2]
    out = []
    it = make_iter(interp, args[0])
    while True:
        x, it = iter_next(interp, it)
        if not is_some(x):
            break
        y = interp.call_value(f, [Ptr(state), x.fields[0]])
        if not is_some(y):
            break
        out.append(y.fields[0])
    return IterV("vec", ListV(out))


@_model_missing("std::iter::Iterator::step_by")
def m_iter_step_by(interp, args, info):
    n = args[1]
    if not isinstance(n, int) or isinstance(n, bool) or n <= 0:
        raise Inconclusive("step_by(%r)" % (n,), interp.where())
    xs = drain(interp, make_iter(interp, args[0]))
    return IterV("vec", ListV(xs[::n]))


@_model_missing("std::iter::Iterator::eq", "std::iter::Iterator::ne")
def m_iter_eq(interp, args, info):
    a = drain(interp, make_iter(interp, args[0]))
    b = drain(interp, make_iter(interp, args[1]))
    r = len(a) == len(b) and all(eq_values(interp, x, y) for x, y in zip(a, b))
    return r if info["def"].endswith("::eq") else not r


@_model_missing("std::iter::Iterator::cmp")
def m_iter_cmp(interp, args, info):
    a = drain(interp, make_iter(interp, args[0]))
    b = drain(interp, make_iter(interp, args[1]))
    return ordering(_lex(interp, a, b))


@_model_missing("std::iter::Iterator::lt", "std::iter::Iterator::le", "std::iter::Iterator::gt", "std::iter::Iterator::ge")
def m_iter_lt(interp, args, info):
    a = drain(interp, make_iter(interp, args[0]))
    b = drain(interp, make_iter(interp, args[1]))
    c = _lex(interp, a, b)
    return {"lt": c < 0, "le": c <= 0, "gt": c > 0, "ge": c >= 0}[info["def"].rsplit("::", 1)[1]]


@_model_missing("std::iter::Iterator::is_sorted", "core::slice::<impl [T]>::is_sorted")
def m_is_sorted(interp, args, info):
    xs = drain(interp, make_iter(interp, args[0]))
    return all(cmp_values(interp, xs[i], xs[i + 1]) <= 0 for i in range(len(xs) - 1))


@_model_missing("std::iter::Iterator::is_sorted_by", "core::slice::<impl [T]>::is_sorted_by")
def m_is_sorted_by(interp, args, info):
    xs = drain(interp, make_iter(interp, args[0]))
    for i in range(len(xs) - 1):
        r = interp.call_value(args[1], [mkref(xs[i]), mkref(xs[i + 1])])
        if not isinstance(r, bool):
            raise Inconclusive("is_sorted_by closure returned %r" % (r,), interp.where())
        if not r:
            return False
    return True


@_model_missing("std::iter::Iterator::is_sorted_by_key", "core::slice::<impl [T]>::is_sorted_by_key")
def m_is_sorted_by_key(interp, args, info):
    xs = [interp.call_value(args[1], [x]) for x in drain(interp, make_iter(interp, args[0]))]
    return all(cmp_values(interp, xs[i], xs[i + 1]) <= 0 for i in range(len(xs) - 1))


@_model_missing("std::vec::Vec::<T, A>::truncate")
def m_vec_truncate(interp, args, info):
    c, path, v = _list_at(interp, args[0])
    n = args[1]
    if not isinstance(n, int) or isinstance(n, bool):
        raise Inconclusive("truncate(%r)" % (n,), interp.where())
    interp.write(c, path, ListV(tuple(v.items)[:n]))
    return UNIT


@_model_missing("std::vec::Vec::<T, A>::split_off")
def m_vec_split_off(interp, args, info):
    c, path, v = _list_at(interp, args[0])
    n = args[1]
    if not isinstance(n, int) or isinstance(n, bool):
        raise Inconclusive("split_off(%r)" % (n,), interp.where())
    if n > len(v.items):
        raise Panic("index", interp.where(), "split_off at %d of %d" % (n, len(v.items)))
    interp.write(c, path, ListV(tuple(v.items)[:n]))
    return ListV(tuple(v.items)[n:])


@_model_missing("std::vec::Vec::<T, A>::drain")
def m_vec_drain(interp, args, info):
    c, path, v = _list_at(interp, args[0])
    lo, hi = _range_of(interp, args[1], len(v.items))
    items = tuple(v.items)
    interp.write(c, path, ListV(items[:lo] + items[hi:]))
    return IterV("vec", ListV(items[lo:hi]))


@_model_missing("std::vec::Vec::<T, A>::splice")
def m_vec_splice(interp, args, info):
    # the removed elements are returned as an iterator; the replacement is inserted when the Splice is dropped, which
    # in the statement-level uses this model supports (`v.splice(r, it);`) is at once
    c, path, v = _list_at(interp, args[0])
    lo, hi = _range_of(interp, args[1], len(v.items))
    new = drain(interp, make_iter(interp, args[2]))
    items = tuple(v.items)
    interp.write(c, path, ListV(items[:lo] + tuple(new) + items[hi:]))
    return IterV("vec", ListV(items[lo:hi]))


@_model_missing("core::slice::<impl [T]>::swap")
def m_slice_swap(interp, args, info):
    c, path, v = _list_at(interp, args[0])
    i, j = args[1], args[2]
    if not all(isinstance(x, int) and not isinstance(x, bool) for x in (i, j)):
        raise Inconclusive("swap(%r, %r)" % (i, j), interp.where())
    n = len(v.items)
    if not (0 <= i < n and 0 <= j < n):
        raise Panic("index", interp.where(), "swap index out of %d" % n)
    items = list(v.items)
    items[i], items[j] = items[j], items[i]
    interp.write(c, path, ListV(items))
    return UNIT


@_model_missing("std::vec::Vec::<T, A>::resize")
def m_vec_resize(interp, args, info):
    c, path, v = _list_at(interp, args[0])
    n = args[1]
    if not isinstance(n, int) or isinstance(n, bool) or n > 4096:
        raise Inconclusive("resize(%r)" % (n,), interp.where())
    items = list(v.items)[:n]
    while len(items) < n:
        items.append(clone_value(interp, args[2]))
    interp.write(c, path, ListV(items))
    return UNIT


# ----------------------------------------------------------------------------- fmt::Write on a type of the crate; Hasher::write*

@_model_missing("std::fmt::Write::write_fmt")
def m_write_fmt_custom(interp, args, info):
    """`write!(w, …)` on a crate type implementing fmt::Write: the arguments are formatted piece by piece (as the default
    method does through core::fmt::write) and every piece is handed to the type's own write_str"""
    w = interp.strip(interp.load(args[0])) if isinstance(args[0], Ptr) else args[0]
    fa = args[1]
    if not isinstance(fa, FmtArgs):
        raise Inconclusive("write_fmt with %r" % (fa,), interp.where())
    if isinstance(w, Formatter):
        return m_write_fmt(interp, args, info)
    if not (isinstance(w, Adt) and _adt_is_local(interp, w)):
        raise Inconclusive("fmt::Write::write_fmt on %r" % (w,), interp.where())
    k = interp.prog.impl_method("std::fmt::Write", w.name, "write_str")
    if not k:
        raise Inconclusive("no fmt::Write::write_str for %s" % w.name, interp.where())
    sink = Formatter()
    sp = Ptr(Cell(sink))
    m_write_fmt(interp, [sp, fa], info)
    for kind, x in sink.out:
        if kind == "lit":
            piece = StrV(x)
        elif isinstance(x, Tok) and x.kind == "I":
            piece = Tok("T", "text(%s)" % x.name, str(x.val + x.off), dom="numtext", extra={"of": x})   # its decimal text
        else:
            piece = x
        r = interp.call_key(k, [args[0], piece])
        if not (isinstance(r, Adt) and r.name == "std::result::Result" and r.variant == 0):
            return r
    return ok(UNIT)


@_model_missing("std::hash::Hasher::write", "std::hash::Hasher::write_u8", "std::hash::Hasher::write_u16", "std::hash::Hasher::write_u32",
                "std::hash::Hasher::write_u64", "std::hash::Hasher::write_usize", "std::hash::Hasher::write_str",
                "std::hash::Hasher::write_length_prefix", "std::hash::Hasher::write_i64", "std::hash::Hasher::write_u128")
def m_hasher_write(interp, args, info):
    _feed_hash(interp, args[1])
    return UNIT


# ----------------------------------------------------------------------------- char helpers on concrete values

def _need_int(interp, v, what):
    if isinstance(v, bool) or not isinstance(v, int):
        raise Inconclusive("%s on %r" % (what, v), interp.where())
    return v


@_model_missing("std::char::methods::<impl char>::from_digit", "core::char::methods::<impl char>::from_digit", "std::char::from_digit")
def m_char_from_digit(interp, args, info):
    n, radix = _need_int(interp, args[0], "from_digit"), _need_int(interp, args[1], "from_digit radix")
    if not 2 <= radix <= 36:
        raise Panic("from_digit_radix", interp.where())
    if n >= radix:
        return NONE
    return some(ord("0123456789abcdefghijklmnopqrstuvwxyz"[n]))


@_model_missing("std::char::methods::<impl char>::to_digit", "core::char::methods::<impl char>::to_digit")
def m_char_to_digit(interp, args, info):
    c, radix = _need_int(interp, args[0], "to_digit"), _need_int(interp, args[1], "to_digit radix")
    ch = chr(c).lower()
    d = "0123456789abcdefghijklmnopqrstuvwxyz".find(ch) if len(ch) == 1 else -1
    return some(d) if 0 <= d < radix else NONE


@_model_missing("std::char::methods::<impl char>::from_u32", "core::char::methods::<impl char>::from_u32", "std::char::from_u32")
def m_char_from_u32(interp, args, info):
    n = _need_int(interp, args[0], "from_u32")
    return some(n) if (n < 0xD800 or 0xE000 <= n < 0x110000) else NONE


@_model_missing("std::char::methods::<impl char>::len_utf8", "core::char::methods::<impl char>::len_utf8")
def m_char_len_utf8(interp, args, info):
    return len(chr(_need_int(interp, args[0], "len_utf8")).encode("utf-8"))


@_model_missing("core::str::traits::<impl std::ops::Index<I> for str>::index", "<std::string::String as std::ops::Index<I>>::index")
def m_str_index(interp, args, info):
    s_ = interp.strip(args[0])
    if not isinstance(s_, StrV):
        raise Inconclusive("str index on %r" % (s_,), interp.where())
    b = s_.s.encode("utf-8")
    lo, hi = _range_of(interp, args[1], len(b))

    def boundary(i):
        return i == 0 or i == len(b) or (b[i] & 0xC0) != 0x80
    if not (boundary(lo) and boundary(hi)):
        raise Panic("str_index", interp.where(), "byte index is not a char boundary")
    return Ptr(Cell(StrV(b[lo:hi].decode("utf-8"))))


@_model_missing("std::char::convert::<impl std::convert::From<u8> for char>::from", "core::char::convert::<impl std::convert::From<u8> for char>::from")
def m_char_from_u8(interp, args, info):
    return _need_int(interp, args[0], "char::from(u8)")


@_model_missing("std::str::from_utf8", "core::str::from_utf8", "core::str::converts::from_utf8")
def m_str_from_utf8(interp, args, info):
    v = interp.strip(args[0])
    if isinstance(v, ListV) and all(isinstance(x, int) and not isinstance(x, bool) for x in v.items):
        try:
            return ok(Ptr(Cell(StrV(bytes(v.items).decode("utf-8")))))
        except UnicodeDecodeError:
            return err(Tok("O", "utf8_error"))
    raise Inconclusive("from_utf8 on %r" % (v,), interp.where())


def _ascii_case(which):
    def f(interp, args, info):
        v = args[0]
        if isinstance(v, Ptr):
            v = interp.load(v)
        v = _need_int(interp, v, which)
        if which == "lower":
            return v + 32 if 0x41 <= v <= 0x5A else v
        return v - 32 if 0x61 <= v <= 0x7A else v
    return f


for _pfx in ("core", "std"):
    for _ty in ("::char::methods::<impl char>::", "::num::<impl u8>::"):
        MODELS.setdefault(_pfx + _ty + "to_ascii_lowercase", _ascii_case("lower"))
        MODELS.setdefault(_pfx + _ty + "to_ascii_uppercase", _ascii_case("upper"))


@_model_missing("core::num::<impl u8>::eq_ignore_ascii_case", "core::char::methods::<impl char>::eq_ignore_ascii_case",
                "std::char::methods::<impl char>::eq_ignore_ascii_case")
def m_eq_ignore_ascii_case(interp, args, info):
    a = _need_int(interp, interp.load(args[0]) if isinstance(args[0], Ptr) else args[0], "eq_ignore_ascii_case")
    b = _need_int(interp, interp.load(args[1]) if isinstance(args[1], Ptr) else args[1], "eq_ignore_ascii_case")
    lo = lambda v: v + 32 if 0x41 <= v <= 0x5A else v
    return lo(a) == lo(b)


@_model_missing("core::str::<impl str>::eq_ignore_ascii_case")
def m_str_eq_ignore_ascii_case(interp, args, info):
    a, b = interp.strip(args[0]), interp.strip(args[1])
    if isinstance(a, StrV) and isinstance(b, StrV):
        return a.s.lower() == b.s.lower() if a.s.isascii() and b.s.isascii() else \
            "".join(c.lower() if c.isascii() else c for c in a.s) == "".join(c.lower() if c.isascii() else c for c in b.s)
    raise Inconclusive("eq_ignore_ascii_case on %r %r" % (a, b), interp.where())


# ----------------------------------------------------------------------------- std::cmp free functions

@_model_missing("std::cmp::max_by", "core::cmp::max_by")
def m_cmp_max_by(interp, args, info):
    # documented: returns the second argument if the comparison determines them to be equal
    c = ordering_to_int(interp.call_value(args[2], [mkref(args[0]), mkref(args[1])]))
    return args[0] if c > 0 else args[1]


@_model_missing("std::cmp::min_by", "core::cmp::min_by")
def m_cmp_min_by(interp, args, info):
    # documented: returns the first argument if the comparison determines them to be equal
    c = ordering_to_int(interp.call_value(args[2], [mkref(args[0]), mkref(args[1])]))
    return args[1] if c > 0 else args[0]


@_model_missing("std::cmp::max_by_key", "core::cmp::max_by_key")
def m_cmp_max_by_key(interp, args, info):
    ka, kb = interp.call_value(args[2], [mkref(args[0])]), interp.call_value(args[2], [mkref(args[1])])
    return args[0] if cmp_values(interp, ka, kb) > 0 else args[1]


@_model_missing("std::cmp::min_by_key", "core::cmp::min_by_key")
def m_cmp_min_by_key(interp, args, info):
    ka, kb = interp.call_value(args[2], [mkref(args[0])]), interp.call_value(args[2], [mkref(args[1])])
    return args[1] if cmp_values(interp, ka, kb) > 0 else args[0]


# ----------------------------------------------------------------------------- integer helper methods on concrete values

def _int_method(name, f):
    def m(interp, args, info):
        vals = []
        for a in args:
            if isinstance(a, Tok) and a.kind == "I" and getattr(interp.policy, "witness", False):
                a = a.val + a.off
            vals.append(_need_int(interp, a, name))
        ty = info["def"].split("<impl ", 1)[1].split(">", 1)[0] if "<impl " in info["def"] else "u64"
        signed = ty.startswith("i")
        bits = {"usize": 64, "isize": 64}.get(ty) or int("".join(ch for ch in ty if ch.isdigit()) or 64)
        lo, hi = (-(1 << (bits - 1)), (1 << (bits - 1)) - 1) if signed else (0, (1 << bits) - 1)
        return f(vals, lo, hi, bits, signed)
    return m


def _sat(r, lo, hi):
    return max(lo, min(hi, r))


def _chk(r, lo, hi):
    return some(r) if lo <= r <= hi else NONE


def _wrapv(r, lo, hi, bits, signed):
    r &= (1 << bits) - 1
    return r - (1 << bits) if signed and r > hi else r


for _ty in ("u8", "u16", "u32", "u64", "u128", "usize", "i8", "i16", "i32", "i64", "i128", "isize"):
    _p = "core::num::<impl %s>::" % _ty
    MODELS.setdefault(_p + "saturating_add", _int_method("saturating_add", lambda v, lo, hi, b, s: _sat(v[0] + v[1], lo, hi)))
    MODELS.setdefault(_p + "saturating_sub", _int_method("saturating_sub", lambda v, lo, hi, b, s: _sat(v[0] - v[1], lo, hi)))
    MODELS.setdefault(_p + "saturating_mul", _int_method("saturating_mul", lambda v, lo, hi, b, s: _sat(v[0] * v[1], lo, hi)))
    MODELS.setdefault(_p + "checked_add", _int_method("checked_add", lambda v, lo, hi, b, s: _chk(v[0] + v[1], lo, hi)))
    MODELS.setdefault(_p + "checked_sub", _int_method("checked_sub", lambda v, lo, hi, b, s: _chk(v[0] - v[1], lo, hi)))
    MODELS.setdefault(_p + "checked_mul", _int_method("checked_mul", lambda v, lo, hi, b, s: _chk(v[0] * v[1], lo, hi)))
    MODELS.setdefault(_p + "wrapping_add", _int_method("wrapping_add", lambda v, lo, hi, b, s: _wrapv(v[0] + v[1], lo, hi, b, s)))
    MODELS.setdefault(_p + "wrapping_sub", _int_method("wrapping_sub", lambda v, lo, hi, b, s: _wrapv(v[0] - v[1], lo, hi, b, s)))
    MODELS.setdefault(_p + "wrapping_mul", _int_method("wrapping_mul", lambda v, lo, hi, b, s: _wrapv(v[0] * v[1], lo, hi, b, s)))
    MODELS.setdefault(_p + "pow", _int_method("pow", lambda v, lo, hi, b, s: v[0] ** v[1] if lo <= v[0] ** v[1] <= hi else (_ for _ in ()).throw(Panic("overflow", None, "pow"))))
    MODELS.setdefault(_p + "ilog10", _int_method("ilog10", lambda v, lo, hi, b, s: len(str(v[0])) - 1 if v[0] > 0 else (_ for _ in ()).throw(Panic("ilog_zero", None, "ilog10 of zero"))))
    MODELS.setdefault(_p + "checked_ilog10", _int_method("checked_ilog10", lambda v, lo, hi, b, s: some(len(str(v[0])) - 1) if v[0] > 0 else NONE))
    MODELS.setdefault(_p + "abs_diff", _int_method("abs_diff", lambda v, lo, hi, b, s: abs(v[0] - v[1])))
    MODELS.setdefault(_p + "min", _int_method("min", lambda v, lo, hi, b, s: min(v)))
    MODELS.setdefault(_p + "max", _int_method("max", lambda v, lo, hi, b, s: max(v)))
    MODELS.setdefault(_p + "is_power_of_two", _int_method("is_power_of_two", lambda v, lo, hi, b, s: v[0] > 0 and v[0] & (v[0] - 1) == 0))
    MODELS.setdefault(_p + "leading_zeros", _int_method("leading_zeros", lambda v, lo, hi, b, s: b - v[0].bit_length() if v[0] >= 0 else 0))
    MODELS.setdefault(_p + "count_ones", _int_method("count_ones", lambda v, lo, hi, b, s: bin(v[0] & ((1 << b) - 1)).count("1")))
