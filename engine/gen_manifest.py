"""Generate /verif/MANIFEST.json from the property registry (single source of truth)."""
import json
import os
import sys

from .props import REGISTRY

VERIF = os.path.dirname(os.path.dirname(os.path.abspath(__file__)))

NOT_YET = {}


def main():
    ids = ["C%02d" % i for i in range(1, 19)]
    checks = []
    na = []
    for pid in ids:
        m = REGISTRY.get(pid)
        if m is None or m.get("not_applicable"):
            na.append({"property_id": pid, "reason": (m or {}).get("not_applicable", "no check registered at this commit (work in progress)")})
            continue
        checks.append({
            "property_id": pid,
            "quick_cmd": "./check %s --tier quick" % pid,
            "thorough_cmd": "./check %s --tier thorough" % pid,
            "evidence_file": "/verif/evidence/%s.json" % pid,
            "replay_cmd_template": "./check %s --replay {path}" % pid,
            "engine": m["engine"],
            "technique": m["technique"],
            "level_claimed": {"category": m["level"], "text": m["level_text"], "design_ref": m["design_ref"]},
            "level_note": m["level_note"],
        })
    man = {
        "version": 1,
        "setup_cmd": "cd /verif && python3 -m engine.facts setup",
        "hooks": {
            "guard": "cijiugechu_nodejs_semver_verif",
            "enable": "none needed: the rustc_private driver /verif/sa sees private items; checks run "
                      "`cargo +nightly check --offline --lib` on /repo with RUSTC_WORKSPACE_WRAPPER=/verif/sa/target/release/sa",
            "baseline_off_cmd": "cd /repo && cargo test --workspace --no-fail-fast --offline",
            "source_commits": [],
            "add_only": True,
        },
        "engines": [
            {"name": "E-FACTS", "path": "sa/", "serves_properties": [c["property_id"] for c in checks],
             "kind_free_text": "rustc_private driver exporting MIR bodies with resolved callees, constants, ADT layouts, impl tables"},
            {"name": "E-TAB", "path": "engine/interp.py", "serves_properties": [c["property_id"] for c in checks if "E-TAB" in c["engine"]],
             "kind_free_text": "abstract interpreter of MIR over opaque tokens and enumerated worlds; decision tables compared with reference tables"},
            {"name": "E-SET", "path": "engine/setalg.py", "serves_properties": [c["property_id"] for c in checks if "E-SET" in c["engine"]],
             "kind_free_text": "range-level lifting to a free Boolean algebra with bounded list lengths"},
            {"name": "E-GRAM", "path": "engine/gram.py", "serves_properties": [c["property_id"] for c in checks if "E-GRAM" in c["engine"]],
             "kind_free_text": "winnow grammar extracted from MIR as combinator trees; PEG-exact automata and language inclusion"},
            {"name": "E-FLOW", "path": "engine/flow.py", "serves_properties": [c["property_id"] for c in checks if "E-FLOW" in c["engine"]],
             "kind_free_text": "structural MIR rules: panic inventory, provenance, dependence, wiring, call graph"},
        ],
        "checks": checks,
        "not_applicable": na,
        "notes": "Static analysis only: no check executes code of /repo. See DESIGN.md; known_findings.json lists recorded and fixed defects.",
    }
    with open(os.path.join(VERIF, "MANIFEST.json"), "w") as f:
        json.dump(man, f, indent=1)
    print("MANIFEST.json: %d checks, %d not applicable" % (len(checks), len(na)))


if __name__ == "__main__":
    main()
