"""C12 — printing a version and parsing it back returns the same version (DESIGN §5 C12): writer/reader agreement."""
from .. import gram, peg
from ..interp import Adt, Cell, Inconclusive, Interp, Policy, Ptr, Tok
from ..models import Formatter
from ..peg import diff, inter, union
from .c05 import build, entry_consumes_all, serde_delegation
from .c18 import display_order


def check(ctx, rep):
    prog = ctx.prog()
    display_order(rep, prog)                      # T-DISPLAY-V: template order of Display for Version
    identifier_display(rep, prog)
    g, problems = gram.extract(prog)
    for kx, v in problems.items():
        rep.inconc("grammar extraction of %s: %s" % (kx, v))
    if "version" not in g:
        rep.inconc("grammar function `version` not found")
        return
    writer_reader(ctx, rep, prog, g)
    serde_delegation(ctx, rep)
    from .c04 import classification
    classification(ctx, rep, prog)


def identifier_display(rep, prog):
    rule = "T-DISPLAY-IDENT"
    rep.rule(rule, 2, "Display for Identifier prints the payload and nothing else")
    key = "<Identifier as std::fmt::Display>::fmt"
    for vn in ("Numeric", "AlphaNumeric"):
        it = Interp(prog, Policy())
        fm = Formatter()
        t = Tok("I", "n", 5, dom="n") if vn == "Numeric" else Tok("T", "s", "abc", dom="s")
        try:
            it.call_body(key, [Ptr(Cell(Adt("Identifier", prog.variant_index("Identifier", vn), (t,)))), Ptr(Cell(fm))])
        except Inconclusive as e:
            rep.inconc("%s: %s" % (rule, e.reason), e.where)
            continue
        if len(fm.out) == 1 and fm.out[0][0] == "tok" and fm.out[0][1] is t:
            rep.ok(rule)
        else:
            rep.fail(rule, "%s|%s|%s" % (key, rule, vn), "prints %r" % (fm.out,))


def writer_reader(ctx, rep, prog, g):
    rule = "W-R-AGREEMENT"
    rep.rule(rule, 5, "every string the writer can emit from parser-produced fields is accepted and cut at the same places")
    try:
        L, P, classes, reps, classes_cp, class_of = build(prog, g)
        M, F = P.den(g["version"])
    except Inconclusive as e:
        rep.inconc("language: " + e.reason, e.where)
        return
    whole = entry_consumes_all(prog)
    lang = L.consumed_whole(M) if whole else diff(L.sigma_star(), F)
    ident_cl = None
    from .c05 import closures_in
    ident_keys = [c.key for c in (closures_in(g, "identifier") if "identifier" in g else [])]
    for name, cl in classes.items():
        if isinstance(name, tuple) and name[0] == "closure" and name[1] in ident_keys:
            ident_cl = cl
    if ident_cl is None:
        rep.inconc("identifier class not found")
        return
    digit = L.sym(classes["digit"])
    idc = L.sym(ident_cl)
    dot, dash, plus_ = L.sym(classes[("lit", ".")]), L.sym(classes[("lit", "-")]), L.sym(classes[("lit", "+")])
    num = L.plus(digit)
    wid = L.plus(idc)                       # what Identifier prints: digits, or text the identifier parser produced
    ids = L.concat(wid, L.star(L.concat(dot, wid)))
    core = L.seq(num, dot, num, dot, num)
    W = L.seq(core, L.opt(L.concat(dash, ids)), L.opt(L.concat(plus_, ids)))
    for c in range(L.k):
        rep.path(("class", c))
    # (1) the writer's image is accepted
    w = diff(W, lang).witness()
    if w is None:
        rep.ok(rule)
    else:
        rep.fail(rule, "Version::parse+Display|%s|printed form rejected" % rule,
                 "a printed version is not accepted by Version::parse (shortest: %r)" % L.word_str(w, reps), example=L.word_str(w, reps))
    # (2) identifiers cannot contain the separators the writer inserts
    seps = classes[("lit", ".")] | classes[("lit", "+")]
    if ident_cl & seps:
        rep.fail(rule, "identifier|%s|class contains a separator" % rule, "the identifier class contains '.' or '+': printed lists are cut differently")
    else:
        rep.ok(rule)
    # (3) section boundaries: on a printed string the sub-parsers stop exactly where the writer changed section
    def boundary(fn, before, after, what):
        if fn not in g:
            rep.inconc("grammar function %s not found" % fn)
            return
        try:
            Mf, Ff = P.den(g[fn])
        except Inconclusive as e:
            rep.inconc("%s: %s" % (fn, e.reason), e.where)
            return
        full = L.concat(before, after)
        marked = L.with_marker_anywhere(full)
        good = L.seq(before, L.mark(), after)
        # the parser must succeed on every such string …
        wf = inter(Ff, full).witness()
        # … and its match must end exactly at the section boundary
        wb = diff(inter(Mf, marked), good).witness()
        if wf is None and wb is None:
            rep.ok(rule)
        else:
            w = wf if wf is not None else wb
            rep.fail(rule, "%s|%s|%s" % (fn, rule, what), "%s: %r" % (
                "fails on a printed section" if wf is not None else "stops at a different place than the writer's section boundary",
                L.word_str(w, reps)), example=L.word_str(w, reps))
    tail_after_core = L.seq(L.opt(L.concat(dash, ids)), L.opt(L.concat(plus_, ids)))
    boundary("version_core", core, tail_after_core, "core")
    boundary("pre_release", L.concat(dash, ids), L.opt(L.concat(plus_, ids)), "prerelease")
    boundary("build", L.concat(plus_, ids), L.eps(), "build")
    # (4) length rule: a token the reader treats as optional but the writer always emits lengthens the printed form
    rule2 = "LENGTH-RULE"
    rep.rule(rule2, 1, "the printed form of an accepted input is never longer than the input (else the MAX_LENGTH cap rejects "
                       "the printed form of a cap-length input)")
    aln = L.sym(classes["ref_alnum"] - classes["digit"])     # a letter right after the patch number
    hyphenless = inter(lang, L.seq(core, aln, L.sigma_star()))
    w = hyphenless.witness()
    has_cap = any(True for bb in prog.bodies.get("Version::parse", {"blocks": []})["blocks"]
                  for st in bb["stmts"] if st["k"] == "assign" and st["rv"].get("k") == "binop"
                  and "MAX_LENGTH" in str(st["rv"].get("b", {}).get("const", {}).get("s", "")))
    if w is None or not has_cap:
        rep.ok(rule2)
    else:
        rep.fail(rule2, "Version::parse+Display|%s|optional '-' in reader, mandatory in writer, cap MAX_LENGTH" % rule2,
                 "the reader accepts a prerelease without its hyphen (%r) but the writer always prints `-`: a MAX_LENGTH-byte "
                 "hyphen-less version prints one byte longer and is rejected by the length cap" % L.word_str(w, reps),
                 example="1.2.3" + "a" * 251 + " (256 bytes) prints as 257 bytes")
    rep.analysed_item("writer image (from the Display template) vs reader automaton: alphabet %d classes, reader %d states" % (L.k, lang.n))
