"""Texts and claimed levels per property (single source for evidence files and MANIFEST.json)."""
from . import reg
from .common import TB_COMMON

TECH_TAB = ("abstract interpretation of rustc MIR over a finite domain (constructor shapes x weak orderings of opaque "
            "version tokens), every class enumerated and compared with a reference decision table")

reg("C07", level="proof", engine="E-TAB+E-SET", technique=TECH_TAB + "; range level lifted to a free Boolean algebra",
    design_ref="DESIGN.md §5 C07, §3.2, §3.3",
    explanation="BoundSet::new / Bound::cmp / BoundSet::intersect are interpreted from MIR on every (shape, weak "
                "ordering) class and compared with the cut-point model of interval intersection (emptiness, both cuts, "
                "provenance of the surviving bounds); Range::intersect is interpreted over interval tokens of a free "
                "Boolean algebra and must denote (union A) & (union B).",
    level_text="Proof over a finite abstraction: the interval algebra reads versions only through comparisons (checked "
               "by the interpreter), so all inputs fall into the finitely many (shape, weak-order) classes that are "
               "enumerated completely; the range level is exhaustive for the stated numbers of alternatives.",
    level_note="Trusted: rustc MIR, the interpreter and its std models, the cut-point reference, the order-isomorphism "
               "lemma, Version::cmp being the SemVer total order (C04). Range level bounded: |A|+|B| <= 3 quick, <= 4 thorough.",
    trusted_base=TB_COMMON, assumptions=["Version::cmp is a total order and == agrees with it (decided by C04)",
                                         "range-level tables are exhaustive only up to the stated list lengths"])

reg("C08", level="proof", engine="E-TAB+E-SET", technique=TECH_TAB + "; range level lifted to a free Boolean algebra",
    design_ref="DESIGN.md §5 C08",
    explanation="Predicate::flip and BoundSet::difference are interpreted from MIR on every (shape, weak ordering) class "
                "and compared with interval difference on cuts (one or two remainders, None iff contained, no panic); "
                "Range::difference is interpreted over interval tokens, with every way BoundSet::difference may split a "
                "remainder into pieces, and must denote (union A) minus (union B).",
    level_text="Proof over a finite abstraction (see C07); the range level is bounded by the number of alternatives.",
    level_note="Trusted base as C07. Range level: |A|+|B| <= 3 quick, <= 4 thorough.",
    trusted_base=TB_COMMON, assumptions=["C04", "range-level tables are exhaustive only up to the stated list lengths"])

reg("C09", level="proof", engine="E-TAB+E-SET", technique=TECH_TAB,
    design_ref="DESIGN.md §5 C09",
    explanation="BoundSet::allows_any is interpreted on every class and must equal 'max lower cut < min upper cut', must "
                "equal intersect(..).is_some() row by row; Range::allows_any must equal non-emptiness of (union A) & (union B).",
    level_text="Proof over a finite abstraction (see C07).", level_note="Trusted base as C07.",
    trusted_base=TB_COMMON, assumptions=["C04"])

reg("C10", level="proof", engine="E-TAB+E-SET", technique=TECH_TAB,
    design_ref="DESIGN.md §5 C10",
    explanation="BoundSet::allows_all is interpreted on every class and must equal containment of cut pairs, imply "
                "allows_any, and agree with difference(b,a) == None; Range::allows_all with a single alternative in B "
                "must imply containment in the Boolean-algebra model.",
    level_text="Proof over a finite abstraction (see C07).", level_note="Trusted base as C07; |A| <= 3 quick, <= 4 thorough.",
    trusted_base=TB_COMMON, assumptions=["C04"])
