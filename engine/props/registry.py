"""Texts and claimed levels per property (single source for evidence files and MANIFEST.json)."""
from . import reg
from .common import TB_COMMON

TECH_TAB = ("abstract interpretation of rustc MIR over a finite domain (constructor shapes x weak orderings of opaque "
            "version tokens), every class enumerated and compared with a reference decision table")

reg("C07", level="proof", engine="E-TAB+E-SET", technique=TECH_TAB + "; range level lifted to a free Boolean algebra",
    design_ref="DESIGN.md §5 C07, §3.2, §3.3",
    explanation="BoundSet::new / Bound::cmp / BoundSet::intersect are interpreted from MIR on every (shape, weak "
                "ordering) class and compared with the cut-point model of interval intersection (emptiness, both cuts, "
                "provenance of the surviving bounds); Range::intersect is interpreted over interval tokens of a free "
                "Boolean algebra and must denote (union A) & (union B). The prerelease clause (`what satisfies both operands "
                "satisfies the result`) is decided on real ranges over a small universe of release / prerelease versions "
                "(T-INT-SATISFIES, bounded). When an implementation reads version fields itself, a witness search over "
                "pairs of concrete intervals runs (a mismatch is reported, none found leaves the check inconclusive).",
    level_text="Proof over a finite abstraction: the interval algebra reads versions only through comparisons (checked "
               "by the interpreter), so all inputs fall into the finitely many (shape, weak-order) classes that are "
               "enumerated completely; the range level is exhaustive for the stated numbers of alternatives.",
    level_note="Trusted: rustc MIR, the interpreter and its std models, the cut-point reference, the order-isomorphism "
               "lemma, Version::cmp being the SemVer total order (C04). Range level bounded: |A|+|B| <= 3 quick, <= 4 thorough.",
    trusted_base=TB_COMMON, assumptions=["Version::cmp is a total order and == agrees with it (decided by C04)",
                                         "range-level tables are exhaustive only up to the stated list lengths"])

reg("C08", level="proof", engine="E-TAB+E-SET", technique=TECH_TAB + "; range level lifted to a free Boolean algebra",
    design_ref="DESIGN.md §5 C08",
    explanation="Predicate::flip and BoundSet::difference are interpreted from MIR on every (shape, weak ordering) class "
                "and compared with interval difference on cuts (one or two remainders, None iff contained, no panic); "
                "Range::difference is interpreted over interval tokens, with every way BoundSet::difference may split a "
                "remainder into pieces, and must denote (union A) minus (union B).",
    level_text="Proof over a finite abstraction (see C07); the range level is bounded by the number of alternatives.",
    level_note="Trusted base as C07. Range level: |A|+|B| <= 3 quick, <= 4 thorough.",
    trusted_base=TB_COMMON, assumptions=["C04", "range-level tables are exhaustive only up to the stated list lengths"])

reg("C09", level="proof", engine="E-TAB+E-SET", technique=TECH_TAB,
    design_ref="DESIGN.md §5 C09",
    explanation="BoundSet::allows_any is interpreted on every class and must equal 'max lower cut < min upper cut', must "
                "equal intersect(..).is_some() row by row; Range::allows_any must equal non-emptiness of (union A) & (union B).",
    level_text="Proof over a finite abstraction (see C07).", level_note="Trusted base as C07.",
    trusted_base=TB_COMMON, assumptions=["C04"])

reg("C10", level="proof", engine="E-TAB+E-SET", technique=TECH_TAB,
    design_ref="DESIGN.md §5 C10",
    explanation="BoundSet::allows_all is interpreted on every class and must equal containment of cut pairs, imply "
                "allows_any, and agree with difference(b,a) == None; Range::allows_all with a single alternative in B "
                "must imply containment in the Boolean-algebra model.",
    level_text="Proof over a finite abstraction (see C07).", level_note="Trusted base as C07; |A| <= 3 quick, <= 4 thorough.",
    trusted_base=TB_COMMON, assumptions=["C04"])

TECH_L0 = ("abstract interpretation of rustc MIR over integer / identifier-list tokens; complete enumeration of the "
           "weak orderings of the atoms the function may read; entry-by-entry comparison with a reference table")

reg("C04", level="proof", engine="E-TAB", technique=TECH_L0, design_ref="DESIGN.md §5 C04",
    explanation="<Version as Ord>::cmp, partial_cmp, PartialEq::eq and Hash::hash are interpreted from MIR on every class "
                "of (per-field order of the numeric components) x (emptiness / order of the prerelease lists) x (build "
                "same / different) and compared with SemVer 2.0.0 §11; the derived impls of Identifier are interpreted on "
                "all variant/order classes; the numeric classification closure of identifier() is tabulated. An implementation "
                "that walks or slices the identifier lists instead of comparing them whole is tabulated on structured lists "
                "(real lists of numeric identifier tokens: equal, strict prefix either way, first difference at each position).",
    level_text="Proof over a finite abstraction: the functions are loop-free and read their inputs only through same-field "
               "comparisons, emptiness/length-vs-0 and lexicographic list comparison (enforced by the interpreter), so the "
               "enumerated worlds cover all inputs. Total-order laws follow from the table being the lexicographic product.",
    level_note="Trusted: rustc MIR, the interpreter/models, std semantics of u64/String/Vec ordering and of derive(Ord), "
               "the transcription of SemVer §11.",
    trusted_base=TB_COMMON + ["std: u64, String and Vec<T: Ord> comparison, derive(PartialOrd, Ord) semantics",
                              "lemma: a lexicographic product of total orders is a total order"],
    assumptions=["sort/min/max of std are correct for a lawful total order"])

reg("C16", level="proof", engine="E-TAB", technique=TECH_L0, design_ref="DESIGN.md §5 C16",
    explanation="Version::diff is interpreted from MIR (with Version::cmp and is_prerelease as interpreted callees) on every "
                "class of per-field orderings of (a.f, b.f, 0), prerelease-list valuations and build same/different, and "
                "compared entry by entry with a transcription of node-semver 7.6.2 functions/diff.js; rows are paired for "
                "symmetry; the Display arms of VersionDiff are interpreted and compared with npm's names. When the per-field "
                "abstraction does not apply (fields compared across each other or with other literals) a witness search over "
                "small joint valuations runs: a mismatch is reported, none found leaves the check inconclusive.",
    level_text="Proof over a finite abstraction: diff is loop-free and reads its inputs only through same-field comparisons, "
               "comparisons with the literal 0 and emptiness/order of the prerelease lists (enforced by the interpreter).",
    level_note="Trusted: rustc MIR, interpreter/models, the transcription of node-semver's diff().",
    trusted_base=TB_COMMON + ["transcription of node-semver 7.6.2 functions/diff.js (engine/versions.py ref_diff)"],
    assumptions=[])

reg("C03", level="proof", engine="E-TAB", technique=TECH_L0, design_ref="DESIGN.md §5 C03",
    explanation="BoundSet::satisfies is interpreted from MIR over the 9 bound shapes x every realisable valuation of the gate "
                "atoms (order of the version against each bound, prerelease flags of version and bounds, per-field equality "
                "of major/minor/patch) and compared with: within the bounds AND (release OR some bound is a prerelease of "
                "the same tuple). Version comparisons are level-1 primitives (justified by C04); field reads are admitted "
                "only as same-field equality tests and emptiness of the prerelease list. R-SAT: Range::satisfies is interpreted "
                "on one or two one-token alternatives (=t, >=t, <t) over every realisable gate valuation of (version, t1, t2) and "
                "must be the OR of each alternative's own bounds-and-gate answer (a tag in one alternative never opens another). "
                "R-ANY: Range::any() is the single (unbounded, unbounded) alternative. Witness tier on structured versions when "
                "the gate abstraction does not apply.",
    level_text="Proof over a finite abstraction of the single-interval gate. That the two surviving bounds of an alternative "
               "suffice (npm looks at every comparator) rests on the convexity lemma (DESIGN §5 C03) plus C02/C07; the -0 "
               "upper bounds are part of the C01 desugaring table.",
    level_note="Trusted: rustc MIR, interpreter/models, C04 for Version ordering, the hand lemma on convexity of the "
               "prereleases of one tuple.",
    trusted_base=TB_COMMON + ["lemma: the prereleases of one major.minor.patch form a convex segment of the order"],
    assumptions=["C04", "C02 (an alternative is the intersection of its comparators)", "C07 provenance of surviving bounds"])

reg("C14", level="proof", engine="E-TAB", technique=TECH_TAB + " (slices of bounded length, per-element satisfies bit)",
    design_ref="DESIGN.md §5 C14",
    explanation="max_satisfying / min_satisfying are interpreted from MIR (iterator adaptors modelled as documented) on slices "
                "of length 0..3 (thorough 0..4) x every weak ordering of the elements x every pattern of satisfies answers; "
                "the result must be None iff nothing satisfies, else a reference into the slice to a satisfying element that "
                "is extreme among the satisfying ones. Two further tiers decide implementations the opaque tier cannot read: "
                "structured element versions with a satisfies bit per element, and real ranges (1-2 alternatives over a small "
                "universe of bound versions, real satisfies) with the checker's model of satisfaction as reference.",
    level_text="Proof over a finite abstraction for slices up to the stated length (the functions treat elements uniformly); "
               "never selecting an unadmitted prerelease follows because the only filter is Range::satisfies (C03).",
    level_note="Trusted: rustc MIR, interpreter, models of slice::iter / Iterator::filter / max / min, C04. Bounded by slice length.",
    trusted_base=TB_COMMON + ["std: Iterator::filter/max/min semantics (max returns the last maximum, min the first minimum)"],
    assumptions=["C04", "slice length <= 3 (quick) / 4 (thorough)"])

reg("C18", level="proof", engine="E-TAB", technique="abstract interpretation of rustc MIR with opaque integer tokens: field "
    "wiring of every From<tuple> impl, sibling agreement across integer types, Display template order, parser closure wiring",
    design_ref="DESIGN.md §5 C18",
    explanation="All 20 From<(T,T,T)> / From<(T,T,T,T)> impls are found by type and interpreted with opaque non-negative "
                "integer tokens: each must build Version{major<-.0, minor<-.1, patch<-.2, build: [], pre_release: [] or "
                "[Numeric(.3)]} through value-preserving casts only; Display for Version is interpreted on token versions and "
                "must print {major}.{minor}.{patch}[-pre][+build]; the parser's closures must wire the same fields.",
    level_text="Proof over a finite abstraction: the conversions are straight-line code; the token analysis shows which slot "
               "reaches which field and that nothing but widening / same-width casts is applied.",
    level_note="Trusted: rustc MIR, interpreter/models; an int-to-u64 `as` cast preserves every non-negative value that fits.",
    trusted_base=TB_COMMON, assumptions=["inputs are non-negative and within MAX_SAFE_INTEGER (the property's domain)"])

reg("C01", level="other", engine="E-TAB+E-GRAM+E-SET", design_ref="DESIGN.md §5 C01",
    technique="decision-table extraction by abstract interpretation of the desugaring closures (MIR) compared cell by cell "
              "with node-semver's documented desugaring; grammar tree extracted from MIR for operator/delimiter rules",
    explanation="Partial claim. Decided: (1) the complete desugaring table — every comparator form (>=,>,<,<=,=,bare,~,~>,^,"
                "hyphen) x every partial shape (each component absent/zero/positive, prerelease present/absent) — extracted "
                "from the MIR of the grammar's closures and compared with node-semver's replaceXRange/replaceTilde/"
                "replaceCaret/hyphenReplace as (lower cut, upper cut, gate tuples); (2) the operator literal table and "
                "prefix shadowing; (3) delimiter discipline and alternative order of simple(), separators of range() and "
                "logical_or(); (4) the AND-fold of one alternative; (5) token level: the range grammar is compiled to PEG-exact "
                "automata and every comparator text of the npm grammar (primitive, bare partial, tilde, caret, hyphen, with "
                "the loose spellings: leading zeros, v prefix, blanks after an operator, prerelease without hyphen), followed "
                "by a delimiter, is consumed with exactly its own extent by a non-garbage alternative of simple(), and "
                "conversely every text those alternatives can consume is a comparator of node-semver's syntax ([v=\\s]* lead, "
                "loose prerelease, `~ >` trim, hyphen with blanks on both sides of the dash). NOT decided: how arbitrary "
                "non-grammar text is cut into tokens (whole-text equivalence with npm's regex pipeline).",
    level_text="Other (partial): exhaustive over the finite desugaring table and the structural grammar rules; the tokeniser's "
               "behaviour on arbitrary strings is not decided by this check.",
    level_note="Trusted: rustc MIR, interpreter/models, the transcription of node-semver's desugaring functions "
               "(engine/desugar.py), canonicalisations K1-K4 (DESIGN §5 C01). Interval emptiness/gate: C07/C03.",
    exhaustive=True, assumptions=["C03 (gate)", "C07 (interval construction)", "whole-text tokenisation is out of scope"])

reg("C02", level="other", engine="E-TAB+E-SET", design_ref="DESIGN.md §5 C02",
    technique="abstract interpretation of the fold / flatten closures of range() and bound_sets() over interval tokens of a "
              "free Boolean algebra (bounded list lengths); OR-loop of Range::satisfies; interval intersection table",
    explanation="The closure that folds the comparators of one alternative is interpreted on comparator lists of length 0..3 "
                "(with dropped tokens) in every world of the free Boolean algebra: its result must denote the intersection "
                "of all comparators and hold at most one interval. bound_sets' closure must concatenate alternatives; "
                "Range::satisfies must be the OR over alternatives; order independence follows from T-INT (commutative, "
                "exact).",
    level_text="Other: exhaustive for the stated list lengths (bounded unrolling of uniform loops); the prerelease clause "
               "follows from C03 + C07 provenance, text-level concatenation from the grammar rules of C01.",
    level_note="Trusted: rustc MIR, interpreter/models (Iterator::flatten/fold/try_fold/collect), level-1 tables (C07).",
    exhaustive=True, assumptions=["C07", "C03", "list lengths <= 3 (quick) / 4 (thorough)"])

reg("C17", level="other", engine="E-TAB+E-FLOW", design_ref="DESIGN.md §5 C17",
    technique="abstract interpretation of the parse entry points with the grammar call stubbed (token provenance of the "
              "error's input string and span offset, enumerated parser outcomes), guard tables of number() and range_set, "
              "wiring of the error accessors and Diagnostic impl",
    explanation="Partial claim. Decided: E1 — SemverError.input is the caller's string on every error path (the stub replaces "
                "the stream local, so a use of the advanced slice shows as a different token); E2 — the span offset is 0, "
                "len, or (error position - start of the caller's string); E3 — MaxLengthError exactly under "
                "len > MAX_LENGTH before any parsing, inner kind / Context / Other selection, number() raising "
                "MaxIntError(v) / ParseIntError at the position saved before the digits, NoValidRanges exactly for an "
                "empty alternative list, kind surviving append/add_context/from_external_error; E4 — location() is interpreted "
                "on a text-geometry abstraction (words over newline / CR / blank / 1-byte / 2-byte characters up to length 4, "
                "thorough 5, x every char-boundary offset) and must return (newlines before the offset, bytes since the last "
                "newline) without panicking; E5 — accessors and Diagnostic wiring. NOT decided: rendering by miette; "
                "location() on texts longer than the bound.",
    level_text="Other (partial): exhaustive over the enumerated parser outcomes and length classes; location() is bounded by "
               "the text length; miette's renderer is outside.",
    level_note="Trusted: rustc MIR, interpreter/models, winnow delivering error positions inside the stream it was given, "
               "and raising ErrMode::Incomplete only for Partial streams.",
    exhaustive=True, assumptions=["winnow error positions are suffixes of the input stream",
                                  "ErrMode::Incomplete only arises for winnow::stream::Partial"])

reg("C06", level="other", engine="E-FLOW+E-TAB+E-GRAM", design_ref="DESIGN.md §5 C06",
    technique="panic-site inventory over MIR (Assert terminators, calls of panicking std functions) with one named discharge "
              "rule per site, the rules backed by decision tables, provenance tables and CFG/call-graph analyses",
    explanation="Partial claim. Every panic-capable construct in a crate body (overflow assertions, unwrap/expect, "
                "panic_fmt of unreachable!/debug_assert!, str/slice indexing) is enumerated from MIR and must be discharged. "
                "Discharge is by call-graph coverage of table families: each interpretation table (desugaring cells D-NUM — "
                "BoundSet::new may answer None —, entry-point paths D-PTR/D-LEN, location() geometry D-LOC, the difference rows "
                "D-DIFF, satisfies/Display shapes D-INV, Range::any D-NEW) has roots, a three-valued verdict and the crate bodies "
                "its runs entered or stubbed; a site is discharged when its function is a root or a private function all of "
                "whose crate callers are covered by clean families that did not stub it (dead private functions: D-DEAD). "
                "D-PRE: debug_assert on negative tuple components (precondition). D-NUM-STORED / D-CONST: operand patterns. "
                "Repetition combinators make progress; the call graph is acyclic and every loop is driven by a std iterator "
                "whose instantiated type names no unbounded source. NOT decided: the running-time clause; panics inside "
                "winnow, miette or std.",
    level_text="Other (partial): the inventory is complete for the crate's own MIR; a new panic-capable construct is a "
               "violation until a rule discharges it.",
    level_note="Trusted: rustc MIR, interpreter/models, winnow raising ErrMode::Incomplete only for Partial streams. "
               "Dependencies' internals are out of scope.",
    exhaustive=True, assumptions=["INV-NUM: components stored in a Range are <= MAX_SAFE_INTEGER + 1",
                                  "panics inside dependencies are not analysed", "running time is not analysed"])

reg("C05", level="other", engine="E-GRAM+E-TAB+E-FLOW", design_ref="DESIGN.md §5 C05, §3.4",
    technique="winnow grammar extracted from MIR as combinator trees and compiled to exact PEG automata (M/F denotations); "
              "regular-language inclusion against reference automata with shortest counterexamples; character classes and "
              "guards by abstract interpretation",
    explanation="The grammar reachable from `version` is extracted from MIR and compiled to automata with exact PEG semantics "
                "(ordered choice, greedy repetition, no backtracking into a successful sub-parser). Decided: L_canon <= "
                "L(Version::parse) <= L_loose (hyphen-less prerelease, v prefix and surrounding blanks allowed); no accepted "
                "input leaves text unconsumed; the identifier class is exactly [0-9A-Za-z-] on an abstraction of char that is "
                "exact for `as u8` and ASCII comparisons; number() accepts exactly v <= MAX_SAFE_INTEGER and returns it "
                "unchanged; over-long inputs are rejected before parsing; the closures of version()/version_core() wire each "
                "component to the field of its name; serde delegates to parse/Display.",
    level_text="Other: the language inclusions are exact and unbounded for the extracted automaton; the transcription of "
               "winnow 0.6's combinator semantics into the M/F constructions is trusted.",
    level_note="Trusted: rustc MIR, interpreter/models, the M/F denotations of eleven winnow combinators (engine/peg.py), "
               "the reference languages. Numeric bounds are the guard rows, not part of the language check.",
    exhaustive=True, assumptions=["winnow 0.6 combinator semantics as transcribed in engine/peg.py"])

reg("C12", level="other", engine="E-GRAM+E-TAB+E-FLOW", design_ref="DESIGN.md §5 C12",
    technique="writer/reader agreement: Display templates extracted by abstract interpretation of MIR, the reader's PEG automaton "
              "extracted from the winnow grammar; regular inclusion of the writer's image and section-boundary checks on marked automata",
    explanation="Partial claim. Decided: Display for Version prints {major}.{minor}.{patch}[-pre(.pre)*][+build(.build)*] with the "
                "fields of that name, Display for Identifier prints the payload only; every string of the writer's regular image "
                "is accepted by the reader's automaton; on such strings version_core / pre_release / build stop exactly at the "
                "writer's section boundaries and the identifier class contains none of the inserted separators; digits re-parse "
                "as Numeric, other text as AlphaNumeric; the printed form is never longer than the accepted input (length rule); "
                "serde delegates to Display / parse. NOT decided: equality of arbitrary round trips as a runtime fact — it is "
                "argued from this agreement.",
    level_text="Other (partial): exact and unbounded for the automata; the step from writer/reader agreement to value equality is an "
               "argument, not a check.",
    level_note="Trusted: rustc MIR, interpreter/models, PEG denotations (engine/peg.py), std's u64 Display/FromStr round trip.",
    exhaustive=True, assumptions=["u64 to_string / str::parse round trip (std)", "C04 classification", "C05 language"])

reg("C13", level="other", engine="E-TAB+E-GRAM+E-FLOW", design_ref="DESIGN.md §5 C13",
    technique="composition of tables: Display templates of BoundSet/Range extracted by abstract interpretation, read back "
              "symbolically through the reader's operator table, desugaring table and intersection table; numeric-range rule "
              "over the desugaring table's arithmetic terms",
    explanation="Partial claim. Decided: the template Display prints for each of the interval shapes; each printed comparator is "
                "read by the operator table as the same operator (ordered-choice first match), by the desugaring closures (full "
                "version with prerelease) as a bound of the same kind on the same version, and two comparators fold by "
                "intersection to the printed pair (C07); alternatives are joined by `||` which logical_or reads; the numeric "
                "range the writer can print (arithmetic terms and stored literals) is within what number() accepts; every "
                "printed template, with any printed version in its placeholders, is tokenised by the reader's PEG automaton "
                "into exactly its own comparators (no garbage, same extents); serde delegates to Display/parse. NOT decided: "
                "that a printed Version inside a range is read by partial_version as the same *value* (argued from C12) and "
                "stability after one round as a runtime fact.",
    level_text="Other (partial): exhaustive over the finite shape tables.",
    level_note="Trusted: rustc MIR, interpreter/models; C07 for the fold; C12 for version text.",
    exhaustive=True, assumptions=["C07", "C12", "C01 operator table"])

reg("C15", level="other", engine="E-TAB+E-SET", design_ref="DESIGN.md §5 C15",
    technique="derived from the exact single-operation tables (abstract interpretation over cuts and over a free Boolean "
              "algebra) by induction on the expression tree; depth-2 identity rows evaluated directly as a cross-check",
    explanation="If every operation is exactly its set operation on the cut semantics and returns operands that satisfy the "
                "input invariants again (T-NEW, T-ORD, T-INT, T-DIF, E-SET tables, re-run here), then by induction every "
                "composition denotes the corresponding Boolean-algebra term and all listed identities hold. In addition the "
                "identities (commutativity, associativity, idempotence, A\\A, (A\\B)&B, partition, A\\(A\\B)) are evaluated "
                "directly on depth-2 compositions over up to 3 generators in every world. Printable/re-parsable: C13.",
    level_text="Other (derived): the induction is a hand argument over machine-checked base tables; the direct rows are "
               "bounded by the number of alternatives.",
    level_note="Trusted: as C07/C08; the induction on expression trees.",
    exhaustive=True, assumptions=["C07", "C08", "C13"])

reg("C11", level="other", engine="E-TAB", design_ref="DESIGN.md §5 C11 (T-MINV)",
    technique="abstract interpretation of min_version (MIR, with satisfies / Version::cmp / Bound::cmp interpreted as callees) over "
              "structured version tokens in difference-bound worlds; the property's own statement evaluated with a reference model "
              "of satisfaction over a bounded probe universe",
    explanation="Partial claim. Range::min_version is interpreted on every range of the enumerated family (one alternative with "
                "bounds from 18 small versions x all bound kinds; two alternatives over 6 versions) with numeric fields as integer "
                "tokens compared only field-wise (incremented tokens allowed: the small integers realise every ordering of x, x+1) "
                "and checked against the statement: the answer satisfies the range (reference: cuts + prerelease gate), no probe "
                "version below it satisfies it, None only when no probe satisfies. A reported violation is genuine; absence of one "
                "covers the enumerated ranges and probes only (no finite abstraction of 'least version' is claimed).",
    level_text="Other (partial, bounded): exhaustive over the stated family; not a proof for all ranges.",
    level_note="Trusted: rustc MIR, interpreter/models, the reference satisfaction model (same cut + gate semantics as C03/C07).",
    exhaustive=True, assumptions=["bounded family of ranges and probe versions"])

# ---- rules added in round 7 (DESIGN §11.7, seventh round)
from . import REGISTRY  # noqa: E402

_INV = (" The premise of these tables — every BoundSet in circulation is a non-empty (Lower, Upper) pair — is itself checked: "
        "INV-CONSTRUCT runs every function whose MIR builds a BoundSet aggregate (other than the validating constructor, tabled "
        "by T-NEW) over all abstract inputs of its parameter types; INV-PARSED requires every row of the desugaring and hyphen "
        "tables to return a set that went through the validating constructor or is ordered by construction (engine/invariant.py).")
for _pid in ("C07", "C08", "C09", "C10", "C15"):
    REGISTRY[_pid]["explanation"] += _INV
REGISTRY["C03"]["explanation"] += (" The second public entry point Version::satisfies is interpreted with Range::satisfies stubbed "
                                   "(one call with (range, self), answer returned unchanged) or else tabled like Range::satisfies "
                                   "(E-VERSION-SATISFIES / R-SAT-VERSION).")
REGISTRY["C05"]["explanation"] += (" `verify(pred)` nodes are compiled too when the predicate asks only starts_with / ends_with / "
                                   "contains / is_empty questions about the matched text (a Boolean combination of regular "
                                   "languages, engine/verifyre.py).")
for _pid in ("C04", "C12"):
    REGISTRY[_pid]["explanation"] += (" T-CLASSIFY covers every `map` node of the version grammar whose function returns an "
                                      "Identifier; with several such functions a misclassification counts only if a parseable "
                                      "version text brings a text of that class to the node (tracing PEG evaluation on words).")
for _pid in ("C12", "C18"):
    REGISTRY[_pid]["explanation"] += (" When Display computes on the numbers it prints, a witness search on concrete values "
                                      "(including values beyond 2^32 and 10^16) runs (T-DISPLAY-V-WITNESS).")
