"""C03 — prerelease gate (DESIGN §5 C03)."""
from .. import intervals, versions as V
from ..interp import Cell, Inconclusive, Panic, Ptr
from ..report import path_sig

SAT = "range::BoundSet::satisfies"


def ref_sat(shape, toks):
    lo, up = shape
    v = toks["V"]
    ok_lo = lo == "U" or (toks["L"].val <= v.val if lo == "I" else toks["L"].val < v.val)
    ok_up = up == "U" or (v.val <= toks["U"].val if up == "I" else v.val < toks["U"].val)
    if not (ok_lo and ok_up):
        return False
    if not v.extra["pre"]:
        return True
    for side, present in (("L", lo != "U"), ("U", up != "U")):
        if present:
            b = toks[side]
            if b.extra["pre"] and b.extra["classes"] == v.extra["classes"]:
                return True
    return False


def check(ctx, rep):
    prog = ctx.prog()
    env = intervals.Env(prog)
    rep.rule("T-SAT", 3000, "BoundSet::satisfies = within the bounds AND (release OR a prerelease bound on the same "
                            "major.minor.patch), on every realisable valuation of the gate atoms")
    total = 0
    for lo in intervals.SHAPES:
        for up in intervals.SHAPES:
            present = ["V"] + (["L"] if lo != "U" else []) + (["U"] if up != "U" else [])
            toks_order, worlds = V.gate_worlds(present)
            for sig, vers in worlds.items():
                ranks, pre, parts = sig
                tk = {}
                for i, t in enumerate(toks_order):
                    tk[t] = V.gate_token(t, ranks[i], pre[i], tuple(p[i] for p in parts), prog)
                lob = ("L", lo, tk.get("L"))
                upb = ("U", up, tk.get("U"))
                if not intervals.cut(lob) < intervals.cut(upb):
                    continue       # INV-NE: not a BoundSet the crate can build
                total += 1
                run = intervals.Run(prog, env)
                bs = intervals.build_set(env, (lob, upb))
                st, val = run.call(SAT, [Ptr(Cell(bs)), Ptr(Cell(tk["V"]))])
                it = run.interp
                rep.path(("T-SAT", path_sig(it)))
                key = "lower=%s upper=%s order:%s pre:%s same-tuple:%s" % (
                    intervals.bstr(lob), intervals.bstr(upb),
                    intervals.order_str({t: tk[t].val for t in toks_order}),
                    ",".join("%s=%s" % (t, "y" if tk[t].extra["pre"] else "n") for t in toks_order),
                    ",".join("%s%s" % (fn[:2], "".join(str(c) for c in p)) for fn, p in zip(V.FIELDS, parts)))
                ex = _example(lo, up, vers)
                if st == "inconclusive":
                    rep.inconc("T-SAT: " + val.reason, val.where)
                    continue
                if st == "panic":
                    rep.fail("T-SAT", "%s|T-SAT|%s panic" % (SAT, key), "panics: %s" % val, example=ex)
                    continue
                exp = ref_sat((lo, up), tk)
                if val == exp:
                    rep.ok("T-SAT")
                else:
                    sp = it.ret_span.get(SAT)
                    rep.fail("T-SAT", "%s|T-SAT|%s" % (SAT, key),
                             "satisfies answered %s, the gate rule says %s" % (val, exp),
                             where=prog.span_str(sp) if sp else None, expected=exp, actual=val, example=ex)
                if total % 997 == 1:
                    rep.sample({"rule": "T-SAT", "class": key, "extracted": val, "reference": exp, "example": ex})
    rep.analysed_item("range::BoundSet::satisfies interpreted on %d realisable gate valuations over 9 bound shapes" % total)
    range_satisfies(ctx, rep, prog, env)
    version_satisfies(ctx, rep, prog, env)
    range_any(rep, prog, env)
    if rep.inconclusive:
        witness(rep, prog, env)
    rep.notes.append("build metadata: the abstract versions of this table have no `build` field; any read of it would make "
                     "the analysis inconclusive. Version::eq/cmp/hash ignoring build is decided by C04.")


def _example(lo, up, vers):
    def vs(v):
        s = "%d.%d.%d" % (v[0]["major"], v[0]["minor"], v[0]["patch"])
        return s + ("-" + ".".join(map(str, v[1])) if v[1] else "")
    parts = []
    if lo != "U":
        parts.append((">=" if lo == "I" else ">") + vs(vers["L"]))
    if up != "U":
        parts.append(("<=" if up == "I" else "<") + vs(vers["U"]))
    return "%s satisfies? %s" % (" ".join(parts) or "*", vs(vers["V"]))


ALT_SHAPES = [("exact", "I", "I"), ("from", "I", "U"), ("below", "U", "E")]


def _alt_sets(kind, tok):
    """(lower bound, upper bound) of a one-token alternative"""
    name, lo, up = kind
    return (("L", lo, tok if lo != "U" else None), ("U", up, tok if up != "U" else None))


def _ref_alt(kind, t, v):
    name, lo, up = kind
    toks = {"V": v}
    if lo != "U":
        toks["L"] = t
    if up != "U":
        toks["U"] = t
    return ref_sat((lo, up), toks)


def _rsat_worker(args):
    prog, env = _RS["prog"], _RS["env"]
    out = []
    for (ka, kb, sig, toks_order) in args:
        ranks, pre, parts = sig
        tk = {}
        for i, t in enumerate(toks_order):
            tk[t] = V.gate_token(t, ranks[i], pre[i], tuple(p[i] for p in parts), prog)
        alts = [(ka, tk["L"])] + ([(kb, tk["U"])] if kb is not None else [])
        sets = [intervals.build_set(env, _alt_sets(k, t)) for k, t in alts]
        from ..interp import Adt, ListV
        R = Adt("range::Range", 0, (ListV(sets),))
        run = intervals.Run(prog, env)
        entry = _RS.get("entry", "range::Range::satisfies")
        if _RS.get("swap"):
            st, val = run.call(entry, [Ptr(Cell(tk["V"])), Ptr(Cell(R))])
        else:
            st, val = run.call(entry, [Ptr(Cell(R)), Ptr(Cell(tk["V"]))])
        exp = any(_ref_alt(k, t, tk["V"]) for k, t in alts)
        key = "alternatives=%s order:%s pre:%s same-tuple:%s" % (
            "+".join(k[0] for k, _ in alts), intervals.order_str({t: tk[t].val for t in toks_order}),
            ",".join("%s=%s" % (t, "y" if tk[t].extra["pre"] else "n") for t in toks_order),
            ",".join("".join(str(c) for c in p) for p in parts))
        out.append((key, st, val if st == "ok" else str(val), exp, path_sig(run.interp),
                    (val.reason, val.where) if st == "inconclusive" else None))
    return out


_RS = {}


def range_satisfies(ctx, rep, prog, env, entry="range::Range::satisfies", rule="R-SAT", swap=False):
    """R-SAT: Range::satisfies on one or two one-token alternatives (an exact version, `>=t`, `<t`) over every
    realisable valuation of the gate atoms of (V, t1, t2): the answer is the OR of the per-alternative answers —
    in particular a prerelease tag in one alternative never opens the gate for another alternative's bounds."""
    import multiprocessing as mp
    import os
    rep.rule(rule, 5000, "%s = OR over alternatives of (within that alternative's bounds AND its own gate)" % entry)
    jobs = []
    t1, w1 = V.gate_worlds(["V", "L"])
    for ka in ALT_SHAPES:
        for sig in w1:
            jobs.append((ka, None, sig, t1))
    t2, w2 = V.gate_worlds(["V", "L", "U"])
    sigs2 = list(w2)
    if not ctx.thorough:
        sigs2 = sigs2[::2]
    for ka in ALT_SHAPES:
        for kb in ALT_SHAPES:
            for sig in sigs2:
                jobs.append((ka, kb, sig, t2))
    _RS.update(prog=prog, env=env, entry=entry, swap=swap)
    procs = min(16, os.cpu_count() or 1)
    n = max(1, len(jobs) // (procs * 8))
    chunks = [jobs[i:i + n] for i in range(0, len(jobs), n)]
    with mp.get_context("fork").Pool(procs) as pool:
        res = pool.map(_rsat_worker, chunks)
    for part in res:
        for key, st, val, exp, sig, inc in part:
            rep.path((rule, sig))
            if st == "inconclusive":
                rep.inconc("%s: %s" % (rule, inc[0]), inc[1])
            elif st == "panic":
                rep.fail(rule, "%s|%s|panic" % (entry, rule), "panics: %s (%s)" % (val, key))
            elif val == exp:
                rep.ok(rule)
            else:
                coarse = key.split(" order:")[0]
                rep.fail(rule, "%s|%s|%s" % (entry, rule, coarse),
                         "answered %s, the OR of the alternatives' own answers is %s (%s)" % (val, exp, key),
                         example=">=1.0.0 <2.0.0 || 1.5.0-alpha  vs  1.5.0-beta")
    rep.analysed_item("%s interpreted on %d (alternative shapes, gate valuation) cases" % (entry, len(jobs)))


def version_satisfies(ctx, rep, prog, env):
    """E-VERSION-SATISFIES: the second public entry point, `Version::satisfies(&self, &Range)`. Either it hands its two
    arguments to Range::satisfies and returns the answer unchanged (decided by interpreting it with Range::satisfies
    replaced by a stub that returns a marked value), or it is tabled like Range::satisfies itself (R-SAT-VERSION)."""
    from ..interp import Interp, Policy, Adt, ListV
    rule = "E-VERSION-SATISFIES"
    key = "Version::satisfies"
    rep.rule(rule, 1, "Version::satisfies answers what Range::satisfies answers")
    if not prog.has_body(key):
        # the inherent method of Version with that name, wherever its impl block is written
        found = [k for k, b in prog.bodies.items() if b.get("name") == "satisfies" and b.get("impl_self") == "Version"
                 and b.get("arg_count") == 2]
        if len(found) == 1:
            key = found[0]
    if not prog.has_body(key):
        cands = [k for k in prog.bodies if k.endswith("::satisfies")]
        rep.inconc("%s: Version::satisfies not found (functions named satisfies: %s)" % (rule, cands))
        return
    calls = []
    marker = [True]

    class Marked(int):
        pass

    def stub(interp, args, info):
        calls.append((interp.strip(args[0]), interp.strip(args[1])))
        return marker[0]
    R = Adt("range::Range", 0, (ListV([]),))
    v = V.gate_token("V", 0, False, (0,) * len(V.FIELDS), prog) if hasattr(V, "FIELDS") else None
    delegated = True
    for answer in (True, False):
        marker[0] = answer
        del calls[:]
        it = Interp(prog, Policy(), overrides={"range::Range::satisfies": stub})
        try:
            r = it.call_body(key, [Ptr(Cell(v)), Ptr(Cell(R))])
        except Exception:
            delegated = False
            break
        if not (r is answer and len(calls) == 1 and calls[0][0] is R and calls[0][1] is v):
            delegated = False
            break
    if delegated:
        rep.ok(rule)
        rep.analysed_item("Version::satisfies interpreted with Range::satisfies stubbed: one call with (range, self), answer "
                          "returned unchanged")
        return
    rep.notes.append("%s: Version::satisfies does not simply delegate; tabled like Range::satisfies (R-SAT-VERSION)" % rule)
    rep.ok(rule)
    range_satisfies(ctx, rep, prog, env, entry=key, rule="R-SAT-VERSION", swap=True)


def witness(rep, prog, env):
    """the gate abstraction did not apply (e.g. components compared across fields): look for a concrete counterexample on
    real one-alternative ranges over a small universe of structured versions whose minor/patch/prerelease vary.
    A mismatch is genuine; none found leaves the check inconclusive."""
    from .. import minver
    from ..interp import Interp
    rule = "T-SAT-WITNESS"
    rep.rule(rule, 0, "witness search on structured versions when the gate abstraction does not apply")
    universe = [(0, a, b, pre) for a in (0, 1) for b in (0, 1) for pre in ((), (0,), (1,))]
    n = bad = 0
    for alt in minver.alternatives(universe):
        R = minver.build_range(prog, env, [alt])
        for v in universe:
            pol = minver.MinPolicy()
            pol.witness = True
            it = Interp(prog, pol, overrides={})
            try:
                r = it.call_body("range::Range::satisfies", [Ptr(Cell(R)), Ptr(Cell(minver.mk_version(prog, "v", v)))])
            except (Inconclusive, Panic):
                continue
            n += 1
            exp = minver.sat_alt(alt, v)
            if r == exp:
                rep.ok(rule)
            else:
                bad += 1
                if bad <= 3:
                    rep.fail(rule, "range::BoundSet::satisfies|%s|answered %s for a %s version" % (rule, r, "prerelease" if v[3] else "release"),
                             "`%s` satisfies(%s) = %s, expected %s" % (minver.alt_str(alt), minver.vstr(v), r, exp),
                             example="%s vs %s" % (minver.alt_str(alt), minver.vstr(v)))
    rep.analysed_item("witness search: %d (range, version) pairs over %d structured versions, %d mismatches" % (n, len(universe), bad))


def range_any(rep, prog, env):
    """Range::any() carries no comparator at all: its one alternative must be unbounded on both sides (a bound with a
    version — e.g. `>=0.0.0-0` — would be a comparator nobody wrote, and a tagged one opens the gate)"""
    from ..interp import Adt, Interp, ListV, Policy
    rule = "R-ANY"
    rep.rule(rule, 1, "Range::any() is the single alternative (unbounded, unbounded)")
    if not prog.has_body("range::Range::any"):
        rep.inconc("R-ANY: range::Range::any not found")
        return
    it = Interp(prog, Policy(), overrides=dict(intervals.LEVEL1))
    try:
        r = it.call_body("range::Range::any", [])
        r = it.strip(r)
        sets = it.strip(r.fields[0]) if isinstance(r, Adt) and r.name == "range::Range" else None
        if not isinstance(sets, ListV):
            raise Inconclusive("Range::any() returned %r" % (r,))
        shapes = []
        names = prog.field_names("range::BoundSet")
        for bs in sets.items:
            f = dict(zip(names, it.strip(bs).fields))
            one = []
            for side in ("lower", "upper"):
                b = it.strip(f[side])
                pred = it.strip(b.fields[0])
                one.append(env.Pinv[pred.variant])
            shapes.append(tuple(one))
    except Inconclusive as e:
        rep.inconc("R-ANY: " + e.reason, e.where)
        return
    except Panic as p:
        rep.fail(rule, "range::Range::any|%s|panic" % rule, "Range::any() panics: %s" % p)
        return
    if shapes == [("U", "U")]:
        rep.ok(rule)
    else:
        rep.fail(rule, "range::Range::any|%s|not unbounded" % rule,
                 "Range::any() is built from bounds %s instead of one (unbounded, unbounded) alternative" % shapes,
                 example="Range::any().satisfies(0.0.0-alpha)")
