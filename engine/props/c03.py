"""C03 — prerelease gate (DESIGN §5 C03)."""
from .. import intervals, versions as V
from ..interp import Cell, Inconclusive, Panic, Ptr
from ..report import path_sig

SAT = "range::BoundSet::satisfies"


def ref_sat(shape, toks):
    lo, up = shape
    v = toks["V"]
    ok_lo = lo == "U" or (toks["L"].val <= v.val if lo == "I" else toks["L"].val < v.val)
    ok_up = up == "U" or (v.val <= toks["U"].val if up == "I" else v.val < toks["U"].val)
    if not (ok_lo and ok_up):
        return False
    if not v.extra["pre"]:
        return True
    for side, present in (("L", lo != "U"), ("U", up != "U")):
        if present:
            b = toks[side]
            if b.extra["pre"] and b.extra["classes"] == v.extra["classes"]:
                return True
    return False


def check(ctx, rep):
    prog = ctx.prog()
    env = intervals.Env(prog)
    rep.rule("T-SAT", 3000, "BoundSet::satisfies = within the bounds AND (release OR a prerelease bound on the same "
                            "major.minor.patch), on every realisable valuation of the gate atoms")
    total = 0
    for lo in intervals.SHAPES:
        for up in intervals.SHAPES:
            present = ["V"] + (["L"] if lo != "U" else []) + (["U"] if up != "U" else [])
            toks_order, worlds = V.gate_worlds(present)
            for sig, vers in worlds.items():
                ranks, pre, parts = sig
                tk = {}
                for i, t in enumerate(toks_order):
                    tk[t] = V.gate_token(t, ranks[i], pre[i], tuple(p[i] for p in parts), prog)
                lob = ("L", lo, tk.get("L"))
                upb = ("U", up, tk.get("U"))
                if not intervals.cut(lob) < intervals.cut(upb):
                    continue       # INV-NE: not a BoundSet the crate can build
                total += 1
                run = intervals.Run(prog, env)
                bs = intervals.build_set(env, (lob, upb))
                st, val = run.call(SAT, [Ptr(Cell(bs)), Ptr(Cell(tk["V"]))])
                it = run.interp
                rep.path(("T-SAT", path_sig(it)))
                key = "lower=%s upper=%s order:%s pre:%s same-tuple:%s" % (
                    intervals.bstr(lob), intervals.bstr(upb),
                    intervals.order_str({t: tk[t].val for t in toks_order}),
                    ",".join("%s=%s" % (t, "y" if tk[t].extra["pre"] else "n") for t in toks_order),
                    ",".join("%s%s" % (fn[:2], "".join(str(c) for c in p)) for fn, p in zip(V.FIELDS, parts)))
                ex = _example(lo, up, vers)
                if st == "inconclusive":
                    rep.inconc("T-SAT: " + val.reason, val.where)
                    continue
                if st == "panic":
                    rep.fail("T-SAT", "%s|T-SAT|%s panic" % (SAT, key), "panics: %s" % val, example=ex)
                    continue
                exp = ref_sat((lo, up), tk)
                if val == exp:
                    rep.ok("T-SAT")
                else:
                    sp = it.ret_span.get(SAT)
                    rep.fail("T-SAT", "%s|T-SAT|%s" % (SAT, key),
                             "satisfies answered %s, the gate rule says %s" % (val, exp),
                             where=prog.span_str(sp) if sp else None, expected=exp, actual=val, example=ex)
                if total % 997 == 1:
                    rep.sample({"rule": "T-SAT", "class": key, "extracted": val, "reference": exp, "example": ex})
    rep.analysed_item("range::BoundSet::satisfies interpreted on %d realisable gate valuations over 9 bound shapes" % total)
    rep.notes.append("build metadata: the abstract versions of this table have no `build` field; any read of it would make "
                     "the analysis inconclusive. Version::eq/cmp/hash ignoring build is decided by C04.")


def _example(lo, up, vers):
    def vs(v):
        s = "%d.%d.%d" % (v[0]["major"], v[0]["minor"], v[0]["patch"])
        return s + ("-" + ".".join(map(str, v[1])) if v[1] else "")
    parts = []
    if lo != "U":
        parts.append((">=" if lo == "I" else ">") + vs(vers["L"]))
    if up != "U":
        parts.append(("<=" if up == "I" else "<") + vs(vers["U"]))
    return "%s satisfies? %s" % (" ".join(parts) or "*", vs(vers["V"]))
