"""C17 — parse errors report the original input, an in-range offset and the right kind (DESIGN §5 C17)."""
from .. import errors as E, gram
from ..interp import (Adt, BoxV, Cell, Clo, Ctx, Inconclusive, Interp, ListV, NONE, Panic, Policy, Ptr, Tok, is_some, some)
from ..report import path_sig

ENTRIES = ["Version::parse", "range::Range::parse"]


def check(ctx, rep):
    prog = ctx.prog()
    partial = E.stream_is_partial(prog)
    rep.notes.append("stream type is %s: ErrMode::Incomplete %s" % (
        "Partial<_>" if partial else "&str (not partial)",
        "is reachable" if partial else "is never produced by winnow (arms that handle it are dead)"))
    entry_rules(rep, prog, partial)
    number_rules(rep, prog)
    no_valid_ranges(rep, prog)
    kind_survives(rep, prog)
    accessors(rep, prog)
    location_table(ctx, rep, prog)


def entry_rules(rep, prog, partial):
    rep.rule("E1-input", 18, "SemverError.input is the string the caller passed (never the slice the grammar advanced)")
    rep.rule("E2-offset", 18, "the span offset is 0, the input's length, or the pointer difference between the error "
                              "position and the start of the caller's string")
    rep.rule("E3-kind", 24, "MaxLengthError exactly under len > MAX_LENGTH and before any parsing; the kind stored by the "
                            "grammar survives, else Context(ctx), else Other; Ok results are passed through")
    for key in ENTRIES:
        if not prog.has_body(key):
            rep.inconc("entry point %s not found" % key)
            continue
        rows = E.entry_table(prog, key, with_incomplete=partial)
        has_len_guard = key == "Version::parse"
        maxlen = prog.consts.get("MAX_LENGTH", 256)
        for r in rows:
            rep.path(("entry", r["sig"]))
            cls = "len%s outcome=%s" % (">MAX" if r["len"] > maxlen else "<=MAX", r["chosen"])
            if r["status"] == "inconclusive":
                rep.inconc("%s %s: %s" % (key, cls, r["error"].reason), r["error"].where)
                continue
            if r["status"] == "panic":
                rep.fail("E2-offset", "%s|E2|panic %s" % (key, cls), "panics while building the error: %s" % r["panic"])
                continue
            it = r["interp"]
            try:
                d = E.decode_error(prog, it, r["result"])
            except Inconclusive as e:
                rep.inconc("%s: %s" % (key, e.reason), e.where)
                continue
            too_long = has_len_guard and r["len"] > maxlen
            # E3: guard and pass-through
            if too_long:
                good = d is not None and d["kind"] == "MaxLengthError" and not r["parse_calls"]
                if good:
                    rep.ok("E3-kind")
                else:
                    rep.fail("E3-kind", "%s|E3|over-long input" % key,
                             "an input longer than MAX_LENGTH gives %s after %d parser calls" % (d, len(r["parse_calls"])))
            else:
                ch = r["chosen"]
                if d is not None and d["kind"] == "MaxLengthError":
                    rep.fail("E3-kind", "%s|E3|MaxLengthError for a short input" % key, "MaxLengthError raised for len <= MAX_LENGTH")
                elif ch == "ok":
                    if d is None and getattr(r["result"].fields[0], "name", None) == "parsed":
                        rep.ok("E3-kind")
                    else:
                        rep.fail("E3-kind", "%s|E3|ok not passed through" % key, "a successful parse is returned as %s" % (d,))
                elif ch is not None and ch[0] in ("backtrack", "cut"):
                    want = "inner-kind" if ch[1] else ("Context" if ch[2] else "Other")
                    if d is not None and d["kind"] == want and (want != "Context" or d.get("kind_payload") == ["ctx"]):
                        rep.ok("E3-kind")
                    else:
                        rep.fail("E3-kind", "%s|E3|%s kind=%s ctx=%s" % (key, ch[0], ch[1], ch[2]),
                                 "expected kind %s, got %s" % (want, d))
            if d is None:
                continue
            if r["chosen"] is not None and r["chosen"] != "ok" and r["chosen"][0] == "incomplete" and not partial:
                continue
            # E1
            if d["input"] == "caller":
                rep.ok("E1-input")
            else:
                rep.fail("E1-input", "%s|E1|input from %s (%s)" % (key, d["input"], "before parsing" if not r["parse_calls"] else "after parse_next"),
                         "SemverError.input is the %s string, not the caller's" % d["input"],
                         example="1.2.900719925474100 reports input 900719925474100")
            # E2
            ok_terms = {"const 0", "len(caller)", "ptr(errpos)-ptr(caller)"}
            if d["offset"] in ok_terms:
                rep.ok("E2-offset")
            else:
                rep.fail("E2-offset", "%s|E2|offset = %s" % (key, d["offset"]),
                         "span offset %s is not 0, len or (error position - start of the caller's string)" % d["offset"])
        rep.sample({"rule": "entry table", "entry": key, "rows": len(rows)})
        rep.analysed_item("%s interpreted with its grammar call stubbed: %d paths" % (key, len(rows)))


def number_rules(rep, prog):
    rep.rule("E3-number", 4, "number(): Ok(v) iff v <= MAX_SAFE_INTEGER; MaxIntError(v) above; ParseIntError when u64 parsing "
                             "fails; the error position is the one saved before the digits")
    try:
        rows = E.number_table(prog)
    except Inconclusive as e:
        rep.inconc("number(): " + e.reason, e.where)
        return
    mx = prog.consts.get("MAX_SAFE_INTEGER")
    for r in rows:
        cls = "parse=%s value%s" % (r["parse"], "" if r["parse"] == "err" else ("<=MAX" if r["value"] <= mx else ">MAX") + ("(=MAX)" if r["value"] == mx else ""))
        rep.path(("number", r["sig"]))
        if r["status"] != "ok":
            if r["status"] == "inconclusive":
                rep.inconc("number() %s: %s" % (cls, r["error"].reason), r["error"].where)
            else:
                rep.fail("E3-number", "number|E3|panic %s" % cls, "panics: %s" % r["panic"])
            continue
        try:
            d = E.decode_number(prog, r["interp"], r["result"])
        except Inconclusive as e:
            rep.inconc("number(): " + e.reason, e.where)
            continue
        if r["parse"] == "ok" and r["value"] <= mx:
            good = d[0] == "ok" and getattr(d[1], "name", None) == "value" and getattr(d[1], "off", 0) == 0
        elif r["parse"] == "ok":
            good = d[0] == "err" and d[3] == "MaxIntError" and d[4] == ["value"] and d[2] == "start"
        else:
            good = d[0] == "err" and d[3] == "ParseIntError" and d[4] == ["parse-int-error"] and d[2] == "start"
        if good and any("u64" in t for ts in r["parse_types"] for t in ts):
            rep.ok("E3-number")
        else:
            rep.fail("E3-number", "number|E3|%s" % cls, "number() gives %s (parse type %s)" % (d, r["parse_types"]))
    rep.analysed_item("number() interpreted with digit1 and str::parse stubbed: %d rows" % len(rows))


def no_valid_ranges(rep, prog):
    """range_set is interpreted as a whole with the result of its inner parser (the list of alternatives) supplied:
    an empty list must give an error whose kind is NoValidRanges, a non-empty one Ok(Range(list))"""
    rep.rule("E3-no-valid-ranges", 2, "range_set: NoValidRanges exactly when no alternative is left; otherwise Range(alternatives)")
    FN = "range::range_set"
    if not prog.has_body(FN):
        rep.inconc("range::range_set not found")
        return
    from ..interp import err as mk_err, ok as mk_ok

    class TryLeaf(gram.LeafPolicy):
        """as LeafPolicy, but a failing `try_map` function makes the parser fail with its error (winnow wraps it with
        FromExternalError, whose kind preservation is rule E3-kind-survives)"""

        def parse_next(pself, interp, p, inp, info):
            targs = info.get("targs", [])
            if len(targs) >= 3 and prog.ty_str(targs[2]).replace(" ", "").startswith("std::vec::Vec<std::vec::Vec<") \
                    and all(isinstance(x, Tok) for x in pself.leaf.items):
                # the parser run here yields the alternatives before they are flattened: one list per alternative
                pself.leaf = ListV([ListV([x]) for x in pself.leaf.items])
            q = p
            while q.kind in ("context", "cut_err"):
                q = q.args[0]
            if q.kind == "try_map":
                r = interp.call_value(q.extra, [pself.apply(interp, q.args[0])])
                if isinstance(r, Adt) and r.name == "std::result::Result" and r.variant == 1:
                    return gram.convert_external_error(interp, inp, r.fields[0])
                return r
            return mk_ok(pself.apply(interp, p))
    for items in ([], [Tok("S", "alt0", 1, dom="set")]):
        pol = TryLeaf(ListV(items))
        it = Interp(prog, pol)
        inp = Ptr(Cell(Ptr(Cell(Tok("T", "stream", "", dom="text")))))
        try:
            r = it.call_body(FN, [inp])
        except Inconclusive as e:
            rep.inconc("range_set: " + e.reason, e.where)
            continue
        rep.path(("nvr", path_sig(it)))
        if not items:
            good = False
            if isinstance(r, Adt) and r.name == "std::result::Result" and r.variant == 1:
                e = it.strip(r.fields[0])
                if isinstance(e, Adt) and e.name.startswith("winnow::error::ErrMode") and e.fields:
                    e = it.strip(e.fields[0])
                if isinstance(e, Adt) and e.name == E.SPE:
                    f = dict(zip(prog.field_names(E.SPE), e.fields))
                    k = f["kind"]
                    good = is_some(k) and prog.variant_name(E.KIND, it.strip(k.fields[0]).variant) == "NoValidRanges"
            if good:
                rep.ok("E3-no-valid-ranges")
            else:
                rep.fail("E3-no-valid-ranges", "range::range_set|E3|empty", "no alternatives gives %r" % (r,))
        else:
            good = isinstance(r, Adt) and r.name == "std::result::Result" and r.variant == 0
            if good:
                rng = it.strip(r.fields[0])
                lst = it.strip(rng.fields[0]) if isinstance(rng, Adt) and rng.name == "range::Range" else None
                good = isinstance(lst, ListV) and [getattr(x, "name", None) for x in lst.items] == ["alt0"]
            if good:
                rep.ok("E3-no-valid-ranges")
            else:
                rep.fail("E3-no-valid-ranges", "range::range_set|E3|non-empty", "one alternative gives %r" % (r,))


def kind_survives(rep, prog):
    rep.rule("E3-kind-survives", 3, "SemverParseError's ParserError::append / AddContext::add_context / "
                                    "FromExternalError::from_external_error keep the stored kind")
    names = prog.field_names(E.SPE)

    def mk():
        f = {"input": Tok("T", "pos", "", dom="text"), "context": NONE, "kind": some(Tok("O", "the-kind"))}
        return Adt(E.SPE, 0, [f[n] for n in names])

    def kind_of(it, v):
        v = it.strip(v)
        if isinstance(v, Adt) and v.name == E.SPE:
            k = dict(zip(names, v.fields))["kind"]
            if is_some(k):
                return getattr(k.fields[0], "name", None)
        return None
    cases = [
        ("<SemverParseError<I> as winnow::error::ParserError<I>>::append",
         lambda: [mk(), Ptr(Cell(Tok("T", "pos2", "", dom="text"))), Ptr(Cell(Tok("O", "checkpoint"))), Tok("O", "errkind")]),
        ("<SemverParseError<I> as winnow::error::AddContext<I>>::add_context",
         lambda: [mk(), Ptr(Cell(Tok("T", "pos2", "", dom="text"))), Ptr(Cell(Tok("O", "checkpoint"))), Tok("T", "ctx", "", dom="ctx")]),
    ]
    # every FromExternalError impl of the crate: the kind carried by the external error (the error itself when it is a
    # SemverErrorKind, its `kind` field when it is a SemverParseError) must be the kind of the result
    ext = gram.external_error_impls(prog)
    if not ext:
        rep.fail("E3-kind-survives", "SemverParseError|E3|missing from_external_error", "impl method not found")
    for key, ty in ext:
        if ty.startswith(E.SPE):
            cases.append((key, lambda: [Ptr(Cell(Tok("T", "pos2", "", dom="text"))), Tok("O", "errkind"), mk()]))
        elif ty == E.KIND or ty.startswith(E.KIND + "<"):
            cases.append((key, lambda: [Ptr(Cell(Tok("T", "pos2", "", dom="text"))), Tok("O", "errkind"), Tok("O", "the-kind")]))
        else:
            rep.inconc("kind-survives: FromExternalError impl for an external error type %s" % ty)
    for key, mkargs in cases:
        if not prog.has_body(key):
            cands = [k for k in prog.bodies if "SemverParseError" in k and key.rsplit("::", 1)[1] in k]
            if len(cands) == 1:
                key = cands[0]
            else:
                rep.fail("E3-kind-survives", "SemverParseError|E3|missing %s" % key.rsplit("::", 1)[1], "impl method not found")
                continue
        it = Interp(prog, Policy())
        try:
            r = it.call_body(key, mkargs())
        except Inconclusive as e:
            rep.inconc("kind-survives: " + e.reason, e.where)
            continue
        if kind_of(it, r) == "the-kind":
            rep.ok("E3-kind-survives")
        else:
            rep.fail("E3-kind-survives", "%s|E3|kind lost" % key, "the stored kind does not survive: %r" % (r,))


def accessors(rep, prog):
    rep.rule("E5-accessors", 7, "input()/span()/offset()/kind() return the fields; Diagnostic::source_code is the input, "
                                "labels() holds one label at the error's span, code/help/url delegate to the kind")
    names = prog.field_names(E.SE)
    f = {"input": Tok("T", "the-input", "", dom="text"),
         "span": Adt("miette::SourceSpan", 0, (Tok("I", "the-offset", 5, dom="off"), Tok("I", "the-length", 0, dom="len"))),
         "kind": Tok("O", "the-kind")}
    err = Adt(E.SE, 0, [f[n] for n in names])

    def run(key, ov=None):
        it = Interp(prog, Policy(), overrides=ov or {})
        return it, it.call_body(key, [Ptr(Cell(err))])

    def name(it, v):
        return getattr(it.strip(v), "name", None)
    checks = [
        ("SemverError::input", lambda it, r: name(it, r) == "the-input"),
        ("SemverError::offset", lambda it, r: name(it, r) == "the-offset"),
        ("SemverError::kind", lambda it, r: name(it, r) == "the-kind"),
        ("SemverError::span", lambda it, r: isinstance(it.strip(r), Adt) and name(it, it.strip(r).fields[0]) == "the-offset"),
        ("<SemverError as miette::Diagnostic>::source_code", lambda it, r: is_some(r) and name(it, r.fields[0]) == "the-input"),
    ]
    for key, pred in checks:
        if not prog.has_body(key):
            rep.fail("E5-accessors", "%s|E5|missing" % key, "accessor not found")
            continue
        try:
            it, r = run(key)
        except Inconclusive as e:
            rep.inconc("E5 %s: %s" % (key, e.reason), e.where)
            continue
        if pred(it, r):
            rep.ok("E5-accessors")
        else:
            rep.fail("E5-accessors", "%s|E5|wiring" % key, "returns %r" % (r,))
    # delegation of code/help/url to the kind
    for m in ("code", "help", "url"):
        key = "<SemverError as miette::Diagnostic>::%s" % m
        tgt = "<SemverErrorKind as miette::Diagnostic>::%s" % m
        if not prog.has_body(key):
            continue
        seen = []

        def stub(interp, args, info, seen=seen):
            seen.append(name(interp, args[0]))
            return Tok("O", "delegated")
        try:
            it, r = run(key, {tgt: stub})
        except Inconclusive as e:
            rep.inconc("E5 %s: %s" % (key, e.reason), e.where)
            continue
        rep.rule("E5-accessors")
        if seen == ["the-kind"] and getattr(r, "name", None) == "delegated":
            rep.ok("E5-accessors")
        else:
            rep.fail("E5-accessors", "%s|E5|delegation" % key, "does not delegate to the kind: %r (calls %s)" % (r, seen))
    # labels: one LabeledSpan at self.span
    key = "<SemverError as miette::Diagnostic>::labels"
    if prog.has_body(key):
        try:
            it, r = run(key)
            from ..models import IterV, drain
            good = False
            if is_some(r):
                itv = it.strip(r.fields[0])
                if isinstance(itv, IterV):
                    items = drain(it, itv)
                    if len(items) == 1 and isinstance(items[0], Adt) and items[0].name == "miette::LabeledSpan":
                        sp = it.strip(items[0].fields[1])
                        good = isinstance(sp, Adt) and name(it, sp.fields[0]) == "the-offset"
            if good:
                rep.ok("E5-accessors")
            else:
                rep.fail("E5-accessors", "%s|E5|label span" % key, "labels() returns %r" % (r,))
        except Inconclusive as e:
            rep.inconc("E5 labels: %s" % e.reason, e.where)


def location_table(ctx, rep, prog):
    """E4: location() = (newlines before the offset, bytes since the last newline) on every text of the geometry
    abstraction (five character classes, bounded length) and every character-boundary offset; never panics there"""
    from .. import location
    rule = "E4-location"
    maxlen = 5 if ctx.thorough else 4
    rep.rule(rule, 3000, "location() is the 0-based (line, column) of the offset: texts over {newline, CR, blank, 1-byte, 2-byte "
                         "character} up to length %d x every char-boundary offset" % maxlen)
    if not prog.has_body("SemverError::location"):
        rep.fail(rule, "SemverError::location|E4|missing", "location() not found")
        return
    rows = location.table(prog, maxlen)
    for r in rows:
        rep.path((rule, r["sig"]))
        cls = "text=%s offset=%d" % (r["word"] or "(empty)", r["offset"])
        if r["status"] == "inconclusive":
            rep.inconc("%s: %s" % (rule, r["error"][0]), r["error"][1])
            continue
        if r["status"] == "panic":
            rep.fail(rule, "SemverError::location|E4|panic %s" % _shape(r["word"], r["offset"]),
                     "location() panics for a valid offset (%s): %s" % (cls, r["error"]))
            continue
        got = r["result"]
        if isinstance(got, tuple) and tuple(got) == r["expected"]:
            rep.ok(rule)
        else:
            rep.fail(rule, "SemverError::location|E4|%s" % _shape(r["word"], r["offset"]),
                     "location() = %r, expected (line, column) = %r for %s" % (got, r["expected"], cls))
    rep.sample({"rule": rule, "cases": len(rows), "example": "text 'a\\n é' offset 3 -> (1, 1)"})
    rep.analysed_item("SemverError::location interpreted on %d (text, offset) classes" % len(rows))


def _shape(word, off):
    """stable, coarse class for violation keys: is there a newline before the offset, a CR, trailing blanks, multibyte"""
    return "newline-before=%s cr=%s multibyte=%s blank-tail=%s" % (
        "N" in word[:off] if True else "", "R" in word, "M" in word, word.endswith("S") or word.endswith("R"))
