"""C15 — set-algebra identities across compositions (DESIGN §5 C15). Derived from the exactness of the single
operations (C07/C08 tables re-run here) plus direct identity rows on the Boolean-algebra lifting for depth-2 trees."""
from .. import invariant
from .. import intervals, setalg
from ..interp import Adt, Cell, Ctx, Inconclusive, Interp, ListV, Panic, Policy, Ptr, is_some
from ..report import path_sig
from .c07 import t_ord
from .common import blame_rows, interval_table, set_table


def check(ctx, rep):
    prog = ctx.prog()
    invariant.check_invariant(ctx, rep, prog, with_new=False)
    env = intervals.Env(prog)
    rows = intervals.table_new(prog, env)
    blame_rows(rep, "T-NEW", "range::BoundSet::new", rows, prog, env, 17, "results of set operations are valid intervals again")
    t_ord(rep, prog, env)
    interval_table(ctx, rep, prog, "intersect", "T-INT", 1004, "intersect is exact on cuts and returns valid intervals")
    interval_table(ctx, rep, prog, "difference", "T-DIF", 1004, "difference is exact on cuts and returns valid intervals")
    set_table(ctx, rep, prog, "intersect", "E-SET-intersect", 223, "Range::intersect denotes the set intersection")
    set_table(ctx, rep, prog, "difference", "E-SET-difference", 223, "Range::difference denotes the set difference")
    identities(ctx, rep, prog)


class Ops(object):
    """Range-level operations on interval-token ranges in one world; None stands for the empty set"""

    def __init__(self, prog, world, prefix):
        self.prog = prog
        self.world = world
        self.ctx = Ctx(prefix)
        self.it = Interp(prog, Policy(), ctx=self.ctx, overrides=setalg.overrides(world, self.ctx))

    def call(self, op, a, b):
        if a is None:
            return None
        if b is None:
            return None if op == "intersect" else a
        r = self.it.call_body("range::Range::" + op, [Ptr(Cell(a)), Ptr(Cell(b))])
        return r.fields[0] if is_some(r) else None

    def den(self, r):
        if r is None:
            return 0
        d, items = setalg.den_of_range(self.it, self.world, r)
        return d


IDENTITIES = [
    ("A&B = B&A", lambda o, A, B, C: (o.den(o.call("intersect", A, B)), o.den(o.call("intersect", B, A)))),
    ("(A&B)&C = A&(B&C)", lambda o, A, B, C: (o.den(o.call("intersect", o.call("intersect", A, B), C)),
                                              o.den(o.call("intersect", A, o.call("intersect", B, C))))),
    ("A&A = A", lambda o, A, B, C: (o.den(o.call("intersect", A, A)), o.den(A))),
    ("A\\A = 0", lambda o, A, B, C: (o.den(o.call("difference", A, A)), 0)),
    ("(A\\B)&B = 0", lambda o, A, B, C: (o.den(o.call("intersect", o.call("difference", A, B), B)), 0)),
    ("A = (A&B) + (A\\B), disjoint", lambda o, A, B, C: (
        (o.den(o.call("intersect", A, B)) | o.den(o.call("difference", A, B)), o.den(o.call("intersect", A, B)) & o.den(o.call("difference", A, B))),
        (o.den(A), 0))),
    ("A\\(A\\B) = A&B", lambda o, A, B, C: (o.den(o.call("difference", A, o.call("difference", A, B))), o.den(o.call("intersect", A, B)))),
]


def identities(ctx, rep, prog):
    rule = "E-SET-IDENTITIES"
    rep.rule(rule, 500, "Boolean-algebra identities hold for depth-2 compositions of Range::intersect / Range::difference")
    shapes = [(1, 1, 1), (2, 1, 0)] if not ctx.thorough else [(1, 1, 1), (2, 1, 0), (1, 2, 0)]
    total = 0
    for (na, nb, nc) in shapes:
        n = na + nb + nc
        for inh in setalg.worlds(n):
            for name, fn in IDENTITIES:
                if nc == 0 and "C" in name:
                    continue
                stack = [[]]
                paths = 0
                while stack:
                    prefix = stack.pop()
                    w = setalg.SetWorld(n, inh)
                    o = Ops(prog, w, prefix)
                    A = setalg.mk_range([setalg.stok("a%d" % i, w.gen(i)) for i in range(na)])
                    B = setalg.mk_range([setalg.stok("b%d" % i, w.gen(na + i)) for i in range(nb)])
                    C = setalg.mk_range([setalg.stok("c%d" % i, w.gen(na + nb + i)) for i in range(nc)]) if nc else None
                    try:
                        lhs, rhs = fn(o, A, B, C)
                    except Inconclusive as e:
                        rep.inconc("%s: %s" % (rule, e.reason), e.where)
                        break
                    except Panic as p:
                        rep.fail(rule, "range::Range|%s|%s panic" % (rule, name), "panics: %s" % p)
                        break
                    total += 1
                    paths += 1
                    rep.path((rule, path_sig(o.it)))
                    if lhs == rhs:
                        rep.ok(rule)
                    else:
                        rep.fail(rule, "range::Range|%s|%s (|A|=%d,|B|=%d)" % (rule, name, na, nb),
                                 "identity %s fails in the world with inhabited element types %s: %s vs %s" % (name, bin(inh), lhs, rhs))
                    cx = o.ctx
                    for i in range(len(cx.decisions) - 1, len(prefix) - 1, -1):
                        for alt in range(cx.arity[i] - 1, 0, -1):
                            stack.append(cx.decisions[:i] + [alt])
                    if paths > 400:
                        break
    rep.sample({"rule": rule, "identities": [n for n, _ in IDENTITIES], "cases": total})
    rep.analysed_item("%d identity evaluations over compositions of Range::intersect/difference" % total)
