"""C11 — min_version returns the least version satisfying the range, or None if none (DESIGN §5 C11, T-MINV)."""
from .. import minver


def check(ctx, rep):
    prog = ctx.prog()
    rule = "T-MINV"
    rep.rule(rule, 1500, "min_version over enumerated ranges (1 alternative over 18 bound versions, 2 alternatives over 6): the "
                         "answer satisfies the range, no probe version below it does, and None only if no probe satisfies")
    if not prog.has_body("range::Range::min_version"):
        rep.inconc("range::Range::min_version not found")
        return
    rows, ns, npairs = minver.table(prog, thorough=ctx.thorough)
    for r in rows:
        if "sig" in r:
            rep.path((rule, r["sig"]))
        if "inconclusive" in r:
            rep.inconc("%s: %s (%s)" % (rule, r["inconclusive"][0], r["range"]), r["inconclusive"][1])
            continue
        if not r["problems"]:
            rep.ok(rule)
            continue
        kind, detail = r["problems"][0]
        rep.fail(rule, "range::Range::min_version|%s|%s: %s" % (rule, r["class"], kind),
                 "%s: %s" % (kind, detail), where=r.get("ret"), actual=r.get("result"), example=r["range"])
    for r in rows[::max(1, len(rows) // 8)]:
        rep.sample({"rule": rule, "range": r["range"], "min_version": r.get("result")})
    rep.analysed_item("range::Range::min_version interpreted (with BoundSet::satisfies, Version::cmp, Bound::cmp as callees) on %d "
                      "single-alternative and %d two-alternative ranges; probes: 144 small versions" % (ns, npairs))
