"""C07 — intersect is set intersection (DESIGN §5 C07)."""
from .. import invariant
from .. import intervals
from .common import blame_rows, interval_table, set_table


def check(ctx, rep):
    prog = ctx.prog()
    invariant.check_invariant(ctx, rep, prog, with_new=False)
    env = intervals.Env(prog)
    # T-NEW: BoundSet::new = validity of a cut pair
    rows = intervals.table_new(prog, env)
    if any("inconclusive" in r for r in rows):
        new_witness(rep, prog, env)
    blame_rows(rep, "T-NEW", "range::BoundSet::new", rows, prog, env, 17,
               "BoundSet::new returns Some exactly for lower cut < upper cut and stores its arguments")
    # T-ORD: same-kind cells of Bound::cmp are the cut order (what max/min/<= rely on)
    t_ord(rep, prog, env)
    # T-INT
    interval_table(ctx, rep, prog, "intersect", "T-INT", 1004,
                   "BoundSet::intersect = (max lower cut, min upper cut), None iff empty, bounds are operand bounds")
    # range level
    set_table(ctx, rep, prog, "intersect", "E-SET-intersect", 223,
              "Range::intersect denotes (union A) & (union B), None iff empty")
    prerelease_clause(ctx, rep, prog, env)


_PS = {}


def _pre_worker(chunk):
    from .. import minver
    from ..interp import Cell, Inconclusive, Interp, Panic, Ptr, is_some
    prog, env, probes = _PS["prog"], _PS["env"], _PS["probes"]
    out = []
    for A, B in chunk:
        ra, rb = minver.build_range(prog, env, A), minver.build_range(prog, env, B)
        it = Interp(prog, minver.MinPolicy(), overrides={})
        text = "(%s) & (%s)" % (" || ".join(minver.alt_str(a) for a in A), " || ".join(minver.alt_str(b) for b in B))
        try:
            r = it.call_body("range::Range::intersect", [Ptr(Cell(ra)), Ptr(Cell(rb))])
        except Inconclusive as e:
            out.append(("inconclusive", (e.reason, e.where), text))
            continue
        except Panic as p:
            out.append(("bad", "panics: %s" % p, text))
            continue
        both = [v for v in probes if minver.sat_range(A, v) and minver.sat_range(B, v)]
        problem = None
        if not is_some(r):
            if both:
                problem = "is None although %s satisfies both operands" % minver.vstr(both[0])
        else:
            for v in both:
                it2 = Interp(prog, minver.MinPolicy(), overrides={})
                try:
                    s_ = it2.call_body("range::Range::satisfies", [Ptr(Cell(r.fields[0])), Ptr(Cell(minver.mk_version(prog, "v", v)))])
                except (Inconclusive, Panic):
                    continue
                if s_ is not True:
                    problem = "does not admit %s%s, which satisfies both operands" % (minver.vstr(v), " (a prerelease)" if v[3] else "")
                    break
            if problem is None:
                # release versions: satisfied exactly when both operands are
                for v in probes:
                    if v[3] or v in both:
                        continue
                    it2 = Interp(prog, minver.MinPolicy(), overrides={})
                    try:
                        s_ = it2.call_body("range::Range::satisfies", [Ptr(Cell(r.fields[0])), Ptr(Cell(minver.mk_version(prog, "v", v)))])
                    except (Inconclusive, Panic):
                        continue
                    if s_ is True:
                        problem = "admits the release %s, which does not satisfy both operands" % minver.vstr(v)
                        break
        out.append(("ok", None, text) if problem is None else ("bad", problem, text))
    return out


def prerelease_clause(ctx, rep, prog, env):
    """`a version satisfying both operands also satisfies the result` — the clause of C07 that involves the prerelease
    gate, which neither the cut tables nor the Boolean-algebra lifting see: real ranges (1-2 alternatives with bounds
    from a small universe of release / prerelease versions), real `intersect` and `satisfies`, and the checker's model
    of satisfaction for the operands. Bounded universe."""
    import multiprocessing as mp
    import os
    from .. import minver
    rule = "T-INT-SATISFIES"
    alts = minver.alternatives(minver.bound_universe(True))
    tagged = [a for a in alts if (a[0][0] != "U" and a[0][1][3]) or (a[1][0] != "U" and a[1][1][3])]
    two = [[a, b] for a in alts[::5] for b in tagged[::3] if a != b]
    ones = [[a] for a in alts[::2]]
    cases = [(A, B) for A in two[::(1 if ctx.thorough else 4)] for B in ones[::(1 if ctx.thorough else 3)]]
    cases += [(B, A) for A, B in cases[::5]]
    cases += [(A, A) for A in two[::(1 if ctx.thorough else 2)]]          # idempotence, with overlapping alternatives
    # punctured ranges (`<v || >v`, `<=v || >v`, `<v || >=v`) against everything and against themselves
    star = (("U", None), ("U", None))
    for v in [x for x in minver.bound_universe(True) if not x[3]]:
        for uk, lk in (("E", "E"), ("I", "E"), ("E", "I")):
            P_ = [(("U", None), (uk, v)), ((lk, v), ("U", None))]
            cases += [(P_, [star]), ([star], P_), (P_, P_)]
    rep.rule(rule, 500, "every probe version satisfying both operands satisfies Range::intersect's result (real ranges over a "
                        "small universe, prerelease bounds included)")
    _PS.update(prog=prog, env=env, probes=minver.probe_universe())
    procs = min(16, os.cpu_count() or 1)
    n = max(1, len(cases) // (procs * 8))
    chunks = [cases[i:i + n] for i in range(0, len(cases), n)]
    with mp.get_context("fork").Pool(procs) as pool:
        res = pool.map(_pre_worker, chunks)
    bad = inc = 0
    for part in res:
        for st, detail, text in part:
            if st == "ok":
                rep.ok(rule)
            elif st == "inconclusive":
                inc += 1
                if inc <= 3:
                    rep.inconc("%s: %s" % (rule, detail[0]), detail[1])
            else:
                bad += 1
                if bad <= 3:
                    rep.fail(rule, "range::Range::intersect|%s|%s" % (rule, detail.split(" ")[0] + " " + detail.split(" ")[1]),
                             "%s %s" % (text, detail), example=text)
    rep.analysed_item("Range::intersect on %d pairs of concrete ranges, results probed with %d versions" % (len(cases), len(_PS["probes"])))


def new_witness(rep, prog, env):
    """BoundSet::new computes on the versions themselves (successors, fields): the order abstraction does not apply.
    Witness search on concrete bounds from a universe that contains a version together with its immediate successors
    (`v`, `v-0`, `v-0.0`, the next patch and its `-0`): Some exactly when the cut of the lower bound lies below the cut of
    the upper bound, with both bounds returned unchanged. A mismatch is genuine."""
    from .. import minver
    from ..interp import Cell, Inconclusive, Interp, Panic, Ptr, is_some
    rule = "T-NEW-WITNESS"
    rep.rule(rule, 0, "witness search for BoundSet::new on concrete bounds (versions next to each other in precedence)")
    U = minver.bound_universe(False)
    lows = [("U", None)] + [(k, v) for k in "IE" for v in U]
    n = bad = 0
    for lk, lv in lows:
        for uk, uv in lows:
            pol = minver.MinPolicy()
            pol.witness = True
            it = Interp(prog, pol, overrides={})
            lo = env.bound("L", lk, minver.mk_version(prog, "lo", lv) if lv else None)
            up = env.bound("U", uk, minver.mk_version(prog, "up", uv) if uv else None)
            try:
                r = it.call_body("range::BoundSet::new", [lo, up])
            except (Inconclusive, Panic):
                continue
            n += 1
            if lk == "U" or uk == "U":
                exp = True
            else:
                c = minver.vcmp(lv, uv)
                pl, pu = (0 if lk == "I" else 1), (1 if uk == "I" else 0)
                exp = c < 0 or (c == 0 and pl < pu)
            if is_some(r) == exp:
                rep.ok(rule)
                continue
            bad += 1
            if bad <= 3:
                text = "%s%s %s%s" % ({"I": ">=", "E": ">", "U": ""}[lk], minver.vstr(lv) if lv else "*",
                                      {"I": "<=", "E": "<", "U": ""}[uk], minver.vstr(uv) if uv else "")
                rep.fail(rule, "range::BoundSet::new|%s|%s" % (rule, "interval refused" if exp else "empty interval accepted"),
                         "BoundSet::new answers %s for `%s`, which %s" % ("Some" if is_some(r) else "None", text,
                                                                         "holds a version" if exp else "is empty"),
                         example=text)
    rep.analysed_item("witness search for BoundSet::new: %d pairs of concrete bounds, %d mismatches" % (n, bad))


def t_ord(rep, prog, env):
    rep.rule("T-ORD", 34, "Bound::cmp on same-kind bounds equals the order of their cuts (antisymmetric, transitive)")
    cells = intervals.table_cmp(prog, env)
    n_cross = 0
    for c in cells:
        same = c["cell"].count("Lower") == 2 or c["cell"].count("Upper") == 2
        if c["status"] != "ok":
            rep.inconc("T-ORD: %s" % c.get("error"), None)
            continue
        rep.path(("T-ORD", c["sig"]))
        if not same:
            n_cross += 1
            continue
        if c["ok"]:
            rep.ok("T-ORD")
        else:
            rep.fail("T-ORD", "range::Bound::cmp|T-ORD|cell=%s" % c["cell"],
                     "same-kind cell of Bound::cmp deviates from the order of cuts: returned %s, expected %s"
                     % (c["result"], c["accept"]), where=c.get("where"))
    rep.notes.append("Bound::cmp table: %d cells extracted, %d cross-kind cells are judged through their callers "
                     "(BoundSet::new, allows_any) only" % (len(cells), n_cross))
    if any(c["status"] != "ok" for c in cells):
        ord_witness(rep, prog, env)


def ord_witness(rep, prog, env):
    """Bound::cmp looks into the versions itself (packs the components, compares fields): the order abstraction does not
    apply. Witness search on concrete versions, including components beyond 32 bits: a same-kind pair ordered against the
    cuts is a genuine violation; none found leaves T-ORD inconclusive."""
    from .. import minver
    from ..interp import Cell, Inconclusive, Interp, Panic, Ptr, ordering_to_int
    rule = "T-ORD-WITNESS"
    rep.rule(rule, 0, "witness search for Bound::cmp on concrete versions (small, neighbouring, prerelease, beyond 2^32)")
    W = [(1, 0, 0, ()), (1, 0, 1, ()), (1, 1, 0, ()), (1, 0, 1 << 32, ()), (1, 1 << 32, 0, ()), (2, 0, 0, ()),
         (1, 0, 0, (0,)), (1, 0, 0, (1,)), (1 << 40, 0, 0, ()), (0, 1 << 40, 1 << 40, ()), (1, 0, (1 << 32) + 5, ())]
    bounds = []
    for kind in "LU":
        bounds.append((kind, "U", None))
        for pk in "IE":
            for v in W:
                bounds.append((kind, pk, v))

    def cutpos(b):
        kind, pk, v = b
        if pk == "U":
            return None
        return (v, (0 if pk == "I" else 1) if kind == "L" else (1 if pk == "I" else 0))
    n = bad = 0
    for a in bounds:
        for b in bounds:
            if a[0] != b[0]:
                continue
            pol = minver.MinPolicy()
            pol.witness = True
            it = Interp(prog, pol, overrides={})
            A = env.bound(a[0], a[1], minver.mk_version(prog, "a", a[2]) if a[2] else None)
            B = env.bound(b[0], b[1], minver.mk_version(prog, "b", b[2]) if b[2] else None)
            try:
                r = ordering_to_int(it.call_body(intervals.BOUND_CMP, [Ptr(Cell(A)), Ptr(Cell(B))]))
            except (Inconclusive, Panic):
                continue
            n += 1
            ca, cb = cutpos(a), cutpos(b)
            if ca is None or cb is None:
                if ca is None and cb is None:
                    exp = 0
                elif ca is None:
                    exp = -1 if a[0] == "L" else 1
                else:
                    exp = 1 if a[0] == "L" else -1
            else:
                c = minver.vcmp(ca[0], cb[0])
                exp = c if c else (ca[1] > cb[1]) - (ca[1] < cb[1])
            if r == exp:
                rep.ok(rule)
                continue
            bad += 1
            if bad <= 3:
                def bs(x):
                    return "%s(%s)" % ({"L": "Lower", "U": "Upper"}[x[0]] + "." + {"U": "Unbounded", "I": "Including", "E": "Excluding"}[x[1]],
                                       minver.vstr(x[2]) if x[2] else "")
                rep.fail(rule, "range::Bound::cmp|%s|%s vs %s" % (rule, a[0] + a[1], b[0] + b[1]),
                         "Bound::cmp(%s, %s) = %d, the cut order says %d" % (bs(a), bs(b), r, exp),
                         example="%s vs %s" % (bs(a), bs(b)))
    rep.analysed_item("witness search for Bound::cmp: %d same-kind pairs of concrete bounds, %d mismatches" % (n, bad))
