"""C07 — intersect is set intersection (DESIGN §5 C07)."""
from .. import intervals
from .common import blame_rows, interval_table, set_table


def check(ctx, rep):
    prog = ctx.prog()
    env = intervals.Env(prog)
    # T-NEW: BoundSet::new = validity of a cut pair
    rows = intervals.table_new(prog, env)
    blame_rows(rep, "T-NEW", "range::BoundSet::new", rows, prog, env, 17,
               "BoundSet::new returns Some exactly for lower cut < upper cut and stores its arguments")
    # T-ORD: same-kind cells of Bound::cmp are the cut order (what max/min/<= rely on)
    t_ord(rep, prog, env)
    # T-INT
    interval_table(ctx, rep, prog, "intersect", "T-INT", 1004,
                   "BoundSet::intersect = (max lower cut, min upper cut), None iff empty, bounds are operand bounds")
    # range level
    set_table(ctx, rep, prog, "intersect", "E-SET-intersect", 223,
              "Range::intersect denotes (union A) & (union B), None iff empty")


def t_ord(rep, prog, env):
    rep.rule("T-ORD", 34, "Bound::cmp on same-kind bounds equals the order of their cuts (antisymmetric, transitive)")
    cells = intervals.table_cmp(prog, env)
    n_cross = 0
    for c in cells:
        same = c["cell"].count("Lower") == 2 or c["cell"].count("Upper") == 2
        if c["status"] != "ok":
            rep.inconc("T-ORD: %s" % c.get("error"), None)
            continue
        rep.path(("T-ORD", c["sig"]))
        if not same:
            n_cross += 1
            continue
        if c["ok"]:
            rep.ok("T-ORD")
        else:
            rep.fail("T-ORD", "range::Bound::cmp|T-ORD|cell=%s" % c["cell"],
                     "same-kind cell of Bound::cmp deviates from the order of cuts: returned %s, expected %s"
                     % (c["result"], c["accept"]), where=c.get("where"))
    rep.notes.append("Bound::cmp table: %d cells extracted, %d cross-kind cells are judged through their callers "
                     "(BoundSet::new, allows_any) only" % (len(cells), n_cross))
