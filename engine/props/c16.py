"""C16 — Version::diff names the release-type difference, symmetrically (DESIGN §5 C16)."""
from .. import versions as V
from ..interp import Adt, Cell, Inconclusive, Interp, Policy, Ptr, is_some
from ..models import Formatter
from ..report import path_sig

DIFF = "Version::diff"
NPM_NAMES = {"Major": "major", "Minor": "minor", "Patch": "patch", "PreMajor": "premajor", "PreMinor": "preminor",
             "PrePatch": "prepatch", "PreRelease": "prerelease"}


def check(ctx, rep):
    prog = ctx.prog()
    rep.rule("T-DIFF", 5184, "Version::diff equals node-semver's diff() on every class of field orderings (with 0), "
                             "prerelease-list valuations and build same/different")
    rep.rule("T-DIFF-SYM", 5184, "diff(a,b) = diff(b,a)")
    names = [v["name"] for v in prog.adts["VersionDiff"]["variants"]]
    results = {}
    n = 0
    for a, b in V.two_version_worlds(with_zero=True):
        n += 1
        w = V.world_str(a, b)
        ex = "%s vs %s" % (V.example_version(a), V.example_version(b))
        st, r, it = V.run2(prog, DIFF, a, b)
        rep.path(("T-DIFF", path_sig(it)))
        if st == "inconclusive":
            rep.inconc("T-DIFF: " + r.reason, r.where)
            continue
        if st == "panic":
            rep.fail("T-DIFF", "%s|T-DIFF|%s panic" % (DIFF, w), "panics: %s" % r, example=ex)
            continue
        got = names[r.fields[0].variant] if is_some(r) else None
        results[_k(a, b)] = got
        exp = V.ref_diff(a, b)
        sp = it.ret_span.get(DIFF)
        if got == exp:
            rep.ok("T-DIFF")
        else:
            rep.fail("T-DIFF", "%s|T-DIFF|%s" % (DIFF, w), "diff = %s, node-semver reports %s" % (got, exp),
                     where=prog.span_str(sp) if sp else None, expected=exp, actual=got, example=ex)
        if n % 401 == 1:
            rep.sample({"rule": "T-DIFF", "world": w, "extracted": got, "reference": exp, "example": ex})
    for a, b in V.two_version_worlds(with_zero=True):
        g1 = results.get(_k(a, b), "?")
        if g1 == "?":
            continue
        st, r, it = V.run2(prog, DIFF, b, a)
        if st != "ok":
            continue
        g2 = names[r.fields[0].variant] if is_some(r) else None
        if g1 == g2:
            rep.ok("T-DIFF-SYM")
        else:
            rep.fail("T-DIFF-SYM", "%s|T-DIFF-SYM|%s" % (DIFF, V.world_str(a, b)), "diff(a,b) = %s but diff(b,a) = %s" % (g1, g2),
                     example="%s vs %s" % (V.example_version(a), V.example_version(b)))
    rep.analysed_item("Version::diff interpreted (with Version::cmp and is_prerelease as callees) on %d worlds" % n)
    if rep.inconclusive:
        witness(rep, prog, names)
    display(rep, prog, names)


def _k(a, b):
    return (tuple(sorted(a[0].items())), a[1], a[2], tuple(sorted(b[0].items())), b[1], b[2])


def display(rep, prog, names):
    key = "<VersionDiff as std::fmt::Display>::fmt"
    rep.rule("T-DIFF-DISPLAY", 7, "Display for VersionDiff prints node-semver's release type names")
    for i, nm in enumerate(names):
        it = Interp(prog, Policy())
        fm = Formatter()
        try:
            it.call_body(key, [Ptr(Cell(Adt("VersionDiff", i, ()))), Ptr(Cell(fm))])
        except Inconclusive as e:
            rep.inconc("T-DIFF-DISPLAY: " + e.reason, e.where)
            continue
        text = "".join(p[1] for p in fm.out if p[0] == "lit")
        if text == NPM_NAMES.get(nm):
            rep.ok("T-DIFF-DISPLAY")
        else:
            rep.fail("T-DIFF-DISPLAY", "%s|T-DIFF-DISPLAY|%s" % (key, nm), "prints %r, node-semver calls it %r" % (text, NPM_NAMES.get(nm)))


def witness(rep, prog, names):
    """the per-field abstraction did not apply (fields compared across each other or with other literals): look for a
    concrete counterexample among small joint valuations. A mismatch is genuine; none found leaves the check inconclusive."""
    rep.rule("T-DIFF-WITNESS", 0, "witness search over small joint valuations when the per-field abstraction does not apply")
    n = bad = 0
    for a, b in V.witness_worlds():
        st, r, it = V.run2(prog, DIFF, a, b, witness=True)
        if st != "ok":
            continue
        n += 1
        got = names[r.fields[0].variant] if is_some(r) else None
        exp = V.ref_diff(a, b)
        if got == exp:
            rep.ok("T-DIFF-WITNESS")
        else:
            bad += 1
            if bad <= 3:
                sp = it.ret_span.get(DIFF)
                rep.fail("T-DIFF-WITNESS", "%s|T-DIFF-WITNESS|expected %s got %s" % (DIFF, exp, got),
                         "diff = %s, node-semver reports %s" % (got, exp), where=prog.span_str(sp) if sp else None,
                         expected=exp, actual=got, example="%s vs %s" % (V.example_version(a), V.example_version(b)))
    rep.analysed_item("witness search: %d small joint valuations, %d mismatches" % (n, bad))
