"""Registry of property checks: claimed level and the texts that go into evidence and MANIFEST."""
from .common import TB_COMMON

REGISTRY = {}


def reg(pid, **kw):
    REGISTRY[pid] = kw


from . import registry  # noqa: E402,F401
