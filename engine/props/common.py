"""Shared obligation runners used by several property checks."""
from .. import intervals, setalg
from ..interp import Inconclusive

TB_COMMON = [
    "rustc's MIR for the working tree (nightly, -Zmir-opt-level=0), exported by /verif/sa",
    "the abstract interpreter /verif/engine/interp.py and its models of core/alloc functions (engine/models.py)",
    "the reference semantics written from the property statements (cut-point interval model, engine/intervals.py)",
    "lemma: code that touches elements of a total order only through comparisons behaves identically on "
    "order-isomorphic inputs (so shapes x weak orderings are exhaustive)",
]


def blame_rows(rep, rule, fn_key, rows, prog, env, floor=0, desc=""):
    """Judge rows of an interval-level table. A failing row is keyed on the Bound::cmp cell that
    caused it when re-running the row with the reference ordering makes it pass (counterfactual
    blame), otherwise on the row itself."""
    rep.rule(rule, floor, desc)
    for r in rows:
        if "sig" in r:
            rep.path((rule, r["sig"]))
        if "inconclusive" in r:
            rep.inconc("%s: %s" % (rule, r["inconclusive"][0]), r["inconclusive"][1])
            continue
        if not r["problems"]:
            rep.ok(rule)
            continue
        bad_cells = sorted(set((c[0], c[3]) for c in r.get("cells", []) if not c[2]))
        kind, detail = r["problems"][0]
        if bad_cells:
            for cell, where in bad_cells:
                rep.fail(rule, "range::Bound::cmp|%s|cell=%s" % (rule, cell),
                         "Bound::cmp answers this cell against the cut order; client row: %s %s -> %s (%s)" % (
                             r.get("op", ""), r["key"], kind, detail),
                         where=where, expected=r.get("expected"), actual=r.get("actual"), example=r.get("example"))
        else:
            rep.fail(rule, "%s|%s|%s %s" % (fn_key, rule, r["key"], kind),
                     "%s: %s" % (kind, detail), where=r.get("ret"), expected=r.get("expected"),
                     actual=r.get("actual"), example=r.get("example"))
        if r.get("inv_lu"):
            for w, a, b in r["inv_lu"]:
                rep.fail("INV-LU", "range::BoundSet::new|INV-LU|called with (%s, %s)" % (a, b),
                         "BoundSet::new called with a non-(Lower, Upper) pair", where=w)


def interval_table(ctx, rep, prog, op, rule, floor, desc):
    env = intervals.Env(prog)
    rows = intervals.table_op(prog, env, op, variants=("lt", "cmp"))
    blame_rows(rep, rule, "range::BoundSet::" + op, rows, prog, env, floor, desc)
    for r in rows[:400:57]:
        rep.sample({"rule": rule, "row": r["key"], "std_variant": r["variant"], "extracted": str(r.get("actual")),
                    "reference": str(r.get("expected")), "example": r.get("example")})
    rep.analysed_item("range::BoundSet::%s interpreted with callees (Bound::cmp, BoundSet::new, …) on %d abstract rows"
                      % (op, len(rows)))
    if any("inconclusive" in r for r in rows) and op in ("allows_all", "allows_any", "intersect"):
        interval_witness(ctx, rep, prog, op, rule)
    return rows


def _cut(kind, side, v):
    """position of a bound on the version line: (version or +-inf, 0 = just before it / 1 = just after it)"""
    if kind == "U":
        return None
    if side == "L":
        return (v, 0 if kind == "I" else 1)
    return (v, 1 if kind == "I" else 0)


def _cut_cmp(a, b, side):
    from .. import minver
    if a is None and b is None:
        return 0
    if a is None:
        return -1 if side == "L" else 1
    if b is None:
        return 1 if side == "L" else -1
    c = minver.vcmp(a[0], b[0])
    return c if c else (a[1] > b[1]) - (a[1] < b[1])


def interval_witness(ctx, rep, prog, op, rule):
    """the interval abstraction did not apply to BoundSet::<op> (e.g. it compares version fields itself): search for
    a concrete counterexample over all pairs of intervals with bounds from a small universe of structured versions
    (release / prerelease of two neighbouring patch levels). A mismatch is genuine; none found leaves the check
    inconclusive."""
    import multiprocessing as mp
    import os
    from .. import minver
    wrule = rule + "-WITNESS"
    rep.rule(wrule, 0, "witness search on structured versions when the interval abstraction does not apply")
    universe = minver.bound_universe(True)
    alts = minver.alternatives(universe)
    pairs = [(a, b) for a in alts for b in alts]
    if not ctx.thorough:
        pairs = pairs[::3]
    _WS.update(prog=prog, op=op)
    procs = min(16, os.cpu_count() or 1)
    n = max(1, len(pairs) // (procs * 8))
    chunks = [pairs[i:i + n] for i in range(0, len(pairs), n)]
    with mp.get_context("fork").Pool(procs) as pool:
        res = pool.map(_witness_worker, chunks)
    ran = bad = 0
    for part in res:
        for st, detail, cls in part:
            if st == "skip":
                continue
            ran += 1
            if st == "ok":
                rep.ok(wrule)
            else:
                bad += 1
                if bad <= 3:
                    rep.fail(wrule, "range::BoundSet::%s|%s|%s" % (op, wrule, cls), detail, example=detail)
    rep.analysed_item("witness search for BoundSet::%s: %d pairs of concrete intervals, %d mismatches" % (op, ran, bad))


_WS = {}


def _witness_worker(chunk):
    from .. import minver
    from ..interp import Cell, Inconclusive, Interp, Panic, Ptr, is_some
    prog, op = _WS["prog"], _WS["op"]
    env = intervals.Env(prog)
    out = []
    for a, b in chunk:
        ra = minver.build_range(prog, env, [a])
        rb = minver.build_range(prog, env, [b])
        A, B = ra.fields[0].items[0], rb.fields[0].items[0]
        pol = minver.MinPolicy()
        pol.witness = True
        it = Interp(prog, pol, overrides={})
        try:
            r = it.call_body("range::BoundSet::" + op, [Ptr(Cell(A)), Ptr(Cell(B))])
        except (Inconclusive, Panic):
            out.append(("skip", None, None))
            continue
        (alk, alv), (auk, auv) = a
        (blk, blv), (buk, buv) = b
        la, ua, lb, ub = _cut(alk, "L", alv), _cut(auk, "U", auv), _cut(blk, "L", blv), _cut(buk, "U", buv)
        lo = la if _cut_cmp(la, lb, "L") >= 0 else lb
        up = ua if _cut_cmp(ua, ub, "U") <= 0 else ub
        nonempty = True
        if lo is not None and up is not None:
            c = minver.vcmp(lo[0], up[0])
            nonempty = c < 0 or (c == 0 and lo[1] < up[1])
        text = "`%s` vs `%s`" % (minver.alt_str(a), minver.alt_str(b))
        if op == "allows_all":
            exp = _cut_cmp(la, lb, "L") <= 0 and _cut_cmp(ub, ua, "U") <= 0
            got = r
        elif op == "allows_any":
            exp, got = nonempty, r
        else:
            exp, got = nonempty, is_some(r)
        cls = "answered %s" % got
        if got == exp:
            out.append(("ok", None, None))
        else:
            out.append(("bad", "%s: %s = %s, the intervals say %s" % (text, op, got, exp), cls))
    return out


def set_sizes(ctx, op):
    if ctx.thorough:
        return [(1, 1), (1, 2), (2, 1), (2, 2), (1, 3), (3, 1)]
    return [(1, 1), (1, 2), (2, 1)]


def set_table(ctx, rep, prog, op, rule, floor, desc, sizes=None):
    sizes = sizes or set_sizes(ctx, op)
    rows = setalg.table(prog, op, sizes)
    ncases = len(set((r["na"], r["nb"], r["inh"]) for r in rows))
    rep.rule(rule, min(floor, ncases) if floor else 0, desc)
    fn = "range::Range::" + op
    pending = []
    for r in rows:
        if "sig" in r:
            rep.path((rule, r["sig"]))
        if "inconclusive" in r:
            pending.append(r["inconclusive"])
            continue
        if not r["problems"]:
            rep.ok(rule)
            continue
        kind, detail = r["problems"][0]
        rep.fail(rule, "%s|%s|A=%d,B=%d %s" % (fn, rule, r["na"], r["nb"], kind),
                 "Range::%s with %d and %d alternatives does not denote the set expression: %s (world: inhabited "
                 "element types %s)" % (op, r["na"], r["nb"], detail, bin(r["inh"])),
                 where=r.get("ret"), expected=r.get("expected"), actual=r.get("actual"))
    for r in rows[:len(rows):max(1, len(rows) // 4)]:
        rep.sample({"rule": rule, "A": r["na"], "B": r["nb"], "inhabited_element_types": bin(r["inh"]),
                    "extracted": str(r.get("actual")), "reference": str(r.get("expected"))})
    rep.analysed_item("range::Range::%s interpreted over interval tokens of a free Boolean algebra, sizes %s, %d cases"
                      % (op, sizes, len(rows)))
    l1_ok = range_level1(ctx, rep, prog, op)
    if pending:
        if l1_ok:
            # the implementation looks inside the alternatives (their bounds), which opaque interval tokens do not have:
            # the concrete-interval table (all endpoint orderings, same list sizes) decided every case instead
            rep.notes.append("%s: %d cases are outside the Boolean-algebra abstraction (%s); decided by R-L1-%s on concrete "
                             "intervals" % (rule, len(pending), pending[0][0], op))
            rep.rules[rule]["floor"] = 0
        else:
            for reason, where in pending[:20]:
                rep.inconc("%s: %s" % (rule, reason), where)
    return rows


def range_level1(ctx, rep, prog, op):
    """Range-level operation on concrete interval shapes (two-sided intervals over version tokens, every weak ordering
    of the endpoints): decides code that looks *inside* the alternatives (ordering assumptions, early exits), which the
    Boolean-algebra lifting cannot see. Reference: membership of every elementary segment of the version line."""
    rule = "R-L1-" + op
    env = intervals.Env(prog)
    shapes = intervals.RANGE_SHAPES_THOROUGH if ctx.thorough else intervals.RANGE_SHAPES_QUICK
    sizes = [(1, 2), (2, 1)] if op != "allows_all" else [(2, 1), (1, 1)]
    rows = intervals.range_table(prog, env, op, sizes, shapes)
    rep.rule(rule, 1000, "Range::%s on alternatives given as concrete two-sided intervals, all endpoint orderings" % op)
    fn = "range::Range::" + op
    all_ok = True
    for r in rows:
        rep.path((rule, r["sig"]))
        if "inconclusive" in r:
            rep.inconc("%s: %s" % (rule, r["inconclusive"][0]), r["inconclusive"][1])
            all_ok = False
            continue
        if not r["problems"]:
            rep.ok(rule)
            continue
        all_ok = False
        kind, detail = r["problems"][0]
        rep.fail(rule, "%s|%s|A=%d,B=%d %s" % (fn, rule, r["na"], r["nb"], kind),
                 "%s: %s (%s)" % (kind, detail, r["key"]), where=r.get("ret"), actual=r.get("actual"), example=r.get("example"))
    rep.analysed_item("%s on %d concrete-interval cases (shapes %s)" % (fn, len(rows), shapes))
    return all_ok and bool(rows)
