"""Shared obligation runners used by several property checks."""
from .. import intervals, setalg
from ..interp import Inconclusive

TB_COMMON = [
    "rustc's MIR for the working tree (nightly, -Zmir-opt-level=0), exported by /verif/sa",
    "the abstract interpreter /verif/engine/interp.py and its models of core/alloc functions (engine/models.py)",
    "the reference semantics written from the property statements (cut-point interval model, engine/intervals.py)",
    "lemma: code that touches elements of a total order only through comparisons behaves identically on "
    "order-isomorphic inputs (so shapes x weak orderings are exhaustive)",
]


def blame_rows(rep, rule, fn_key, rows, prog, env, floor=0, desc=""):
    """Judge rows of an interval-level table. A failing row is keyed on the Bound::cmp cell that
    caused it when re-running the row with the reference ordering makes it pass (counterfactual
    blame), otherwise on the row itself."""
    rep.rule(rule, floor, desc)
    for r in rows:
        if "sig" in r:
            rep.path((rule, r["sig"]))
        if "inconclusive" in r:
            rep.inconc("%s: %s" % (rule, r["inconclusive"][0]), r["inconclusive"][1])
            continue
        if not r["problems"]:
            rep.ok(rule)
            continue
        bad_cells = sorted(set((c[0], c[3]) for c in r.get("cells", []) if not c[2]))
        kind, detail = r["problems"][0]
        if bad_cells:
            for cell, where in bad_cells:
                rep.fail(rule, "range::Bound::cmp|%s|cell=%s" % (rule, cell),
                         "Bound::cmp answers this cell against the cut order; client row: %s %s -> %s (%s)" % (
                             r.get("op", ""), r["key"], kind, detail),
                         where=where, expected=r.get("expected"), actual=r.get("actual"), example=r.get("example"))
        else:
            rep.fail(rule, "%s|%s|%s %s" % (fn_key, rule, r["key"], kind),
                     "%s: %s" % (kind, detail), where=r.get("ret"), expected=r.get("expected"),
                     actual=r.get("actual"), example=r.get("example"))
        if r.get("inv_lu"):
            for w, a, b in r["inv_lu"]:
                rep.fail("INV-LU", "range::BoundSet::new|INV-LU|called with (%s, %s)" % (a, b),
                         "BoundSet::new called with a non-(Lower, Upper) pair", where=w)


def interval_table(ctx, rep, prog, op, rule, floor, desc):
    env = intervals.Env(prog)
    rows = intervals.table_op(prog, env, op, variants=("lt", "cmp"))
    blame_rows(rep, rule, "range::BoundSet::" + op, rows, prog, env, floor, desc)
    for r in rows[:400:57]:
        rep.sample({"rule": rule, "row": r["key"], "std_variant": r["variant"], "extracted": str(r.get("actual")),
                    "reference": str(r.get("expected")), "example": r.get("example")})
    rep.analysed_item("range::BoundSet::%s interpreted with callees (Bound::cmp, BoundSet::new, …) on %d abstract rows"
                      % (op, len(rows)))
    return rows


def set_sizes(ctx, op):
    if ctx.thorough:
        return [(1, 1), (1, 2), (2, 1), (2, 2), (1, 3), (3, 1)]
    return [(1, 1), (1, 2), (2, 1)]


def set_table(ctx, rep, prog, op, rule, floor, desc, sizes=None):
    sizes = sizes or set_sizes(ctx, op)
    rows = setalg.table(prog, op, sizes)
    ncases = len(set((r["na"], r["nb"], r["inh"]) for r in rows))
    rep.rule(rule, min(floor, ncases) if floor else 0, desc)
    fn = "range::Range::" + op
    for r in rows:
        if "sig" in r:
            rep.path((rule, r["sig"]))
        if "inconclusive" in r:
            rep.inconc("%s: %s" % (rule, r["inconclusive"][0]), r["inconclusive"][1])
            continue
        if not r["problems"]:
            rep.ok(rule)
            continue
        kind, detail = r["problems"][0]
        rep.fail(rule, "%s|%s|A=%d,B=%d %s" % (fn, rule, r["na"], r["nb"], kind),
                 "Range::%s with %d and %d alternatives does not denote the set expression: %s (world: inhabited "
                 "element types %s)" % (op, r["na"], r["nb"], detail, bin(r["inh"])),
                 where=r.get("ret"), expected=r.get("expected"), actual=r.get("actual"))
    for r in rows[:len(rows):max(1, len(rows) // 4)]:
        rep.sample({"rule": rule, "A": r["na"], "B": r["nb"], "inhabited_element_types": bin(r["inh"]),
                    "extracted": str(r.get("actual")), "reference": str(r.get("expected"))})
    rep.analysed_item("range::Range::%s interpreted over interval tokens of a free Boolean algebra, sizes %s, %d cases"
                      % (op, sizes, len(rows)))
    range_level1(ctx, rep, prog, op)
    return rows


def range_level1(ctx, rep, prog, op):
    """Range-level operation on concrete interval shapes (two-sided intervals over version tokens, every weak ordering
    of the endpoints): decides code that looks *inside* the alternatives (ordering assumptions, early exits), which the
    Boolean-algebra lifting cannot see. Reference: membership of every elementary segment of the version line."""
    rule = "R-L1-" + op
    env = intervals.Env(prog)
    shapes = intervals.RANGE_SHAPES_THOROUGH if ctx.thorough else intervals.RANGE_SHAPES_QUICK
    sizes = [(1, 2), (2, 1)] if op != "allows_all" else [(2, 1), (1, 1)]
    rows = intervals.range_table(prog, env, op, sizes, shapes)
    rep.rule(rule, 1000, "Range::%s on alternatives given as concrete two-sided intervals, all endpoint orderings" % op)
    fn = "range::Range::" + op
    for r in rows:
        rep.path((rule, r["sig"]))
        if "inconclusive" in r:
            rep.inconc("%s: %s" % (rule, r["inconclusive"][0]), r["inconclusive"][1])
            continue
        if not r["problems"]:
            rep.ok(rule)
            continue
        kind, detail = r["problems"][0]
        rep.fail(rule, "%s|%s|A=%d,B=%d %s" % (fn, rule, r["na"], r["nb"], kind),
                 "%s: %s (%s)" % (kind, detail, r["key"]), where=r.get("ret"), actual=r.get("actual"), example=r.get("example"))
    rep.analysed_item("%s on %d concrete-interval cases (shapes %s)" % (fn, len(rows), shapes))
