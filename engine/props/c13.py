"""C13 — printing a range and parsing it back returns an equivalent range (DESIGN §5 C13): composition of the
Display table of BoundSet with the reader's operator / desugaring / intersection tables; numeric range rule."""
from .. import desugar as D, gram, intervals
from ..interp import Adt, Cell, Clo, Inconclusive, Interp, ListV, Panic, Policy, Ptr, Tok
from ..models import Formatter
from ..report import path_sig
from .c01 import OPS
from .c05 import serde_delegation


def check(ctx, rep):
    prog = ctx.prog()
    g, problems = gram.extract(prog)
    for kx, v in problems.items():
        rep.inconc("grammar extraction of %s: %s" % (kx, v))
    table = display_table(rep, prog)
    readback(rep, prog, g, table)
    join(rep, prog, g)
    numeric_range(rep, prog, g)
    printed_tokens(ctx, rep, prog, g, table)
    serde_range(ctx, rep)


def display_table(rep, prog):
    """shape -> list of pieces printed by Display for BoundSet"""
    rule = "T-DISPLAY-BS"
    rep.rule(rule, 10, "Display for BoundSet: template per interval shape")
    env = intervals.Env(prog)
    key = "<range::BoundSet as std::fmt::Display>::fmt"
    out = {}
    for lo in intervals.SHAPES:
        for up in intervals.SHAPES:
            cases = [None]
            if lo == "I" and up == "I":
                cases = ["lt", "eq"]
            for c in cases:
                lt = intervals.vtok("lo", 0) if lo != "U" else None
                ut = intervals.vtok("up", 0 if c == "eq" else 1) if up != "U" else None
                run = intervals.Run(prog, env)
                fm = Formatter()
                bs = intervals.build_set(env, (("L", lo, lt), ("U", up, ut)))
                st, val = run.call(key, [Ptr(Cell(bs)), Ptr(Cell(fm))])
                shape = "%s,%s%s" % (lo, up, "(equal versions)" if c == "eq" else "")
                rep.path((rule, path_sig(run.interp)))
                if st != "ok":
                    if st == "inconclusive":
                        rep.inconc("%s %s: %s" % (rule, shape, val.reason), val.where)
                    else:
                        rep.fail(rule, "%s|%s|%s panic" % (key, rule, shape), "panics: %s" % val)
                    continue
                pieces = [(k, v if k == "lit" else v.name) for k, v in fm.out]
                out[(lo, up, c)] = pieces
                rep.ok(rule)
                rep.sample({"rule": rule, "shape": shape, "template": "".join(v if k == "lit" else "{%s}" % v for k, v in pieces)})
    if rep.inconclusive:
        display_witness(rep, prog, env, key)
    return out


def display_witness(rep, prog, env, key):
    """Display for BoundSet looks into the versions (the shape abstraction does not apply): search for a concrete
    counterexample on intervals over a small universe of structured versions (including 0.0.0 and 0.0.0-0). The printed
    text must be the interval's own comparators. A mismatch is genuine; none found leaves the check inconclusive."""
    from .. import minver
    from ..interp import Interp
    rule = "T-DISPLAY-BS-WITNESS"
    rep.rule(rule, 0, "witness search on structured versions when the shape abstraction of Display does not apply")
    n = bad = 0
    for alt in minver.alternatives(minver.bound_universe(True)):
        (lk, lv), (uk, uv) = alt
        if lk == "I" and uk == "I" and minver.vcmp(lv, uv) == 0:
            exp = minver.vstr(lv)
        else:
            exp = minver.alt_str(alt)
        R = minver.build_range(prog, env, [alt])
        bs = R.fields[0].items[0]
        pol = minver.MinPolicy()
        pol.witness = True
        it = Interp(prog, pol, overrides={})
        fm = Formatter()
        try:
            it.call_body(key, [Ptr(Cell(bs)), Ptr(Cell(fm))])
        except (Inconclusive, Panic):
            continue
        n += 1
        got = "".join(v if k == "lit" else str(v.val + v.off) if hasattr(v, "val") and isinstance(v.val, int) else "?" for k, v in fm.out)
        if got == exp:
            rep.ok(rule)
        else:
            bad += 1
            if bad <= 3:
                rep.fail(rule, "%s|%s|%s" % (key, rule, "lower bound lost" if got.count(" ") < exp.count(" ") and not got.startswith(">") else "text differs"),
                         "the interval `%s` prints as `%s`" % (exp, got), example=exp)
    rep.analysed_item("witness search: Display of %d concrete intervals, %d mismatches" % (n, bad))


def tokenise(pieces):
    """split a printed template at blanks into comparators (operator text, version token name)"""
    comps = []
    cur_op = ""
    for k, v in pieces:
        if k == "lit":
            parts = v.split(" ")
            for i, p in enumerate(parts):
                if i > 0:
                    cur_op = ""
                cur_op += p
        else:
            comps.append((cur_op, v))
            cur_op = ""
    if cur_op:
        comps.append((cur_op, None))
    return comps


def readback(rep, prog, g, table):
    rule = "T-READBACK"
    rep.rule(rule, 9, "every printed interval, pushed through the reader's operator table, the desugaring table for full "
                      "versions and the intersection table, gives back its own bounds")
    optab = gram.literal_table(g, "range::operation") if "range::operation" in g else None
    if optab is None:
        rep.inconc("range::operation is not an alt of mapped literals")
        return
    texts = [t for t, _ in optab]
    want = dict(OPS)
    ex = D.Extract(prog)
    prim = D.top_map_closure(g, "range::primitive")
    bare = D.top_map_closure(g, "range::partial")
    if prim is None or bare is None:
        rep.inconc("primitive/partial closures not found")
        return
    full = {"M": "P", "m": "P", "p": "P", "pre": True}

    def first_match(op):
        # PEG ordered choice over the literal table
        for t in texts:
            if op.startswith(t):
                return t
        return None

    def read_one(op):
        """the bound(s) a printed comparator `<op><version>` is read back as: (lower cut kind, upper cut kind)"""
        if op == "":
            cell, _, _ = ex.run_closure(bare, {"shape": full})
        else:
            t = first_match(op)
            if t != op:
                return "operator %r is read as %r" % (op, t)
            cell, _, _ = ex.run_closure(prim, {"op": want[t], "shape": full})
        if cell == "DROPPED":
            return "dropped"
        lo, up, _ = cell
        ver = (("t", "M", 0), ("t", "m", 0), ("t", "p", 0), "own")
        for c in (lo, up):
            if c[0] in ("before", "after") and c[1] != ver:
                return "version changed to %s" % D.v_str(c[1])
        return (lo[0], up[0])
    for (lo, up, c), pieces in sorted(table.items(), key=str):
        shape = "%s,%s%s" % (lo, up, "(equal versions)" if c == "eq" else "")
        if lo == "U" and up == "U":
            txt = "".join(v for k, v in pieces if k == "lit")
            rep.notes.append("the unbounded interval prints as %r, which reads back as >=0.0.0 (only Range::any() produces it; "
                             "informational, C13 quantifies over parsed ranges and set-operation results)" % txt)
            continue
        comps = tokenise(pieces)
        got_lo, got_up = "-inf", "+inf"
        tok_lo = tok_up = None
        problem = None
        try:
            for op, tokname in comps:
                r = read_one(op)
                if isinstance(r, str):
                    problem = "comparator %r: %s" % (op, r)
                    break
                # intersect (T-INT: max of lowers, min of uppers) — each printed comparator is one-sided or exact
                if r[0] != "-inf":
                    got_lo, tok_lo = r[0], tokname
                if r[1] != "+inf":
                    got_up, tok_up = r[1], tokname
        except (Inconclusive, Panic) as e:
            rep.inconc("%s %s: %s" % (rule, shape, e))
            continue
        exp_lo = {"U": "-inf", "I": "before", "E": "after"}[lo]
        exp_up = {"U": "+inf", "I": "after", "E": "before"}[up]
        exp_tl = "lo" if lo != "U" else None
        exp_tu = "up" if up != "U" else None
        if c == "eq":
            exp_tu = tok_up    # equal versions: the single printed token stands for both
            exp_tl = tok_lo
        if problem is None and (got_lo, got_up, tok_lo, tok_up) != (exp_lo, exp_up, exp_tl, exp_tu):
            problem = "reads back as lower=%s(%s) upper=%s(%s), printed from lower=%s upper=%s" % (got_lo, tok_lo, got_up, tok_up, exp_lo, exp_up)
        if problem is None:
            rep.ok(rule)
        else:
            rep.fail(rule, "<range::BoundSet as std::fmt::Display>::fmt|%s|%s" % (rule, shape),
                     "printed form %r does not read back as the same interval: %s" % (
                         "".join(v if k == "lit" else "{%s}" % v for k, v in pieces), problem))


def join(rep, prog, g):
    rule = "T-JOIN"
    rep.rule(rule, 2, "Display for Range joins alternatives with `||`, which logical_or reads back")
    key = "<range::Range as std::fmt::Display>::fmt"
    for n in (1, 3):
        items = [Tok("S", "alt%d" % i, 0, dom="set") for i in range(n)]
        fm = Formatter()

        def disp(interp, args, info):
            interp.load(args[1]).out.append(("tok", interp.strip(args[0])))
            from ..interp import ok, UNIT
            return ok(UNIT)
        it = Interp(prog, Policy(), overrides={"<range::BoundSet as std::fmt::Display>::fmt": disp})
        try:
            it.call_body(key, [Ptr(Cell(Adt("range::Range", 0, (ListV(items),)))), Ptr(Cell(fm))])
        except Inconclusive as e:
            # Display for Range looks into its alternatives (the opaque abstraction does not apply): witness search on
            # concrete alternatives; a mismatch is genuine, none found leaves the rule undecided
            rep.inconc("%s: %s" % (rule, e.reason), e.where)
            if n == 3:
                join_witness(rep, prog, key)
            continue
        txt = "".join(v if k == "lit" else "{%s}" % v.name for k, v in fm.out)
        want = "||".join("{alt%d}" % i for i in range(n))
        # the reader side: logical_or accepts exactly `||` (with optional blanks), decided on its automaton
        if g.get("range::logical_or") is None:
            rep.inconc("%s: logical_or was not extracted" % rule)
            continue
        try:
            from .. import peg
            from .c05 import build
            L, Pg, classes, reps_, _, _ = build(prog, g, root="range::range_set", extra_chars="vV.-+xX*<>=~^|")
            Mo, Fo = Pg.den(g["range::logical_or"])
            bar = L.sym(classes[("lit", "|")])
            reads = peg.inter(Mo, L.seq(bar, bar, L.mark())).witness() is not None
        except (Inconclusive, KeyError) as e:
            rep.inconc("%s: logical_or: %s" % (rule, e))
            continue
        if txt == want and reads:
            rep.ok(rule)
        else:
            rep.fail(rule, "%s|%s|n=%d" % (key, rule, n), "prints %r (expected %r); logical_or reads `||`: %s" % (txt, want, reads))


def join_witness(rep, prog, key):
    """Range's Display inspects the alternatives it prints. Search concrete ranges of two and three alternatives (nested,
    overlapping, touching, disjoint; prerelease-tagged bounds included) for one whose printed form is not its alternatives in
    order joined by `||`. An alternative left out or reordered changes what the text reads back as (a nested alternative with
    a prerelease bound is the only one admitting the prereleases of its tuple; equality with the parsed range is lost)."""
    from .. import minver
    from ..interp import ok, UNIT
    rule = "T-JOIN-WITNESS"
    rep.rule(rule, 0, "witness search on concrete alternatives when Display for Range inspects what it prints")
    env = intervals.Env(prog)
    alts = minver.alternatives(minver.bound_universe(True))
    tagged = [a for a in alts if (a[0][0] != "U" and a[0][1][3]) or (a[1][0] != "U" and a[1][1][3])]
    cases = [[a, b] for a in alts[::3] for b in tagged[::2] if a != b]
    cases += [[b, a] for a, b in cases[::4]]
    cases += [[a, b, c] for a in alts[::11] for b in tagged[::7] for c in alts[5::13] if len({a, b, c}) == 3]
    n = bad = 0
    for case in cases:
        R = minver.build_range(prog, env, case)
        items = R.fields[0].items
        fm = Formatter()

        def disp(interp, args, info, items=items):
            x = interp.strip(args[0])
            idx = [i for i, y in enumerate(items) if y is x or y == x]
            interp.load(args[1]).out.append(("tok", idx[0] if idx else "?"))
            return ok(UNIT)
        pol = minver.MinPolicy()
        pol.witness = True
        it = Interp(prog, pol, overrides={"<range::BoundSet as std::fmt::Display>::fmt": disp})
        try:
            it.call_body(key, [Ptr(Cell(R)), Ptr(Cell(fm))])
        except (Inconclusive, Panic):
            continue
        n += 1
        got = "".join(v if k == "lit" else "{%s}" % v for k, v in fm.out)
        want = "||".join("{%d}" % i for i in range(len(case)))
        if got == want:
            rep.ok(rule)
        else:
            bad += 1
            if bad <= 3:
                text = "||".join(minver.alt_str(a) for a in case)
                what = "an alternative is left out" if got.count("{") < want.count("{") else "text differs"
                rep.fail(rule, "%s|%s|%s" % (key, rule, what),
                         "the range `%s` prints its alternatives as %s (expected %s)" % (text, got, want), example=text)
    rep.analysed_item("witness search: Display of %d concrete ranges with 2-3 alternatives, %d mismatches" % (n, bad))


def numeric_range(rep, prog, g):
    """The writer prints any stored component; the reader accepts [0, MAX_SAFE_INTEGER]. A stored component can exceed
    that range only through an arithmetic term of the desugaring table."""
    rule = "NUMERIC-RANGE"
    rep.rule(rule, 1, "every numeric component a Range can hold is one the reader accepts (<= MAX_SAFE_INTEGER)")
    ex = D.Extract(prog)
    sites = {}
    forms = []
    for fn, envs in (("range::primitive", [{"op": o} for _, o in OPS]), ("range::partial", [{}]),
                     ("range::tilde", [{"gt": False}, {"gt": True}]), ("range::caret", [{}])):
        clo = D.top_map_closure(g, fn)
        if clo is None:
            continue
        for env in envs:
            for shape in D.shapes():
                try:
                    cell, where, it = ex.run_closure(clo, dict(env, shape=shape))
                except (Inconclusive, Panic):
                    continue
                _collect(cell, where, clo.key, sites)
    if prog.has_body("range::hyphen::parser"):
        for lo in [None] + list(D.shapes()):
            for up in D.shapes():
                try:
                    cell, where, it = ex.run_hyphen("range::hyphen::parser", lo, up)
                except (Inconclusive, Panic):
                    continue
                _collect(cell, where, "range::hyphen::parser", sites)
    # literal components the desugaring stores (e.g. MAX_SAFE_INTEGER for `<=1`) must be readable too
    try:
        from .. import errors as E
        mx = prog.consts.get("MAX_SAFE_INTEGER")
        accepted_max = None
        rows_n = E.number_table(prog)
        for r in rows_n:
            if r["status"] == "inconclusive":
                raise r["error"]          # the reader's limit is unknown: nothing to compare the literals with
        for r in rows_n:
            if r["status"] == "ok" and r["parse"] == "ok":
                d = E.decode_number(prog, r["interp"], r["result"])
                if d[0] == "ok" and (accepted_max is None or r["value"] > accepted_max):
                    accepted_max = r["value"]
        lits = sorted(set(x for (k, c) in [(k, c) for k, c in literal_components(g, prog, ex)] for x in [c]))
        rep.rule("NUMERIC-LITERALS", 1, "every literal component the desugaring stores is accepted by number()")
        too_big = [x for x in lits if accepted_max is None or x > accepted_max]
        if too_big:
            rep.fail("NUMERIC-LITERALS", "desugar literals|NUMERIC-LITERALS|literal %s above reader max" % ("MAX_SAFE_INTEGER" if too_big[0] == mx else too_big[0]),
                     "the desugaring stores the literal %d (printed by Display) but number() accepts at most %s" % (too_big[0], accepted_max),
                     example="<=2 prints <=2.%d.%d, which does not re-parse" % (too_big[0], too_big[0]))
        else:
            rep.ok("NUMERIC-LITERALS")
    except Inconclusive as e:
        rep.inconc("NUMERIC-LITERALS: " + e.reason, e.where)
    if not sites:
        rep.ok(rule)
    else:
        fns = sorted(set(k for k, _ in sites))
        rep.fail(rule, "desugar +1 terms|%s|writer max MAX_SAFE_INTEGER+1 > reader max" % rule,
                 "%d desugaring results store `component + 1` (in %s): for a component equal to MAX_SAFE_INTEGER the stored value "
                 "prints as MAX_SAFE_INTEGER+1, which number() rejects when the printed range is parsed again" % (len(sites), ", ".join(fns)),
                 where=sorted(sites.values())[0], example=">1.900719925474099 prints >=1.900719925474100.0, which does not re-parse")
    rep.analysed_item("desugaring table scanned for stored arithmetic terms: %d cells store component+1" % len(sites))


def literal_components(g, prog, ex):
    """(closure, literal) for every integer literal stored as a version component by a desugaring cell"""
    out = set()
    for fn, envs in (("range::primitive", [{"op": o} for _, o in OPS]), ("range::partial", [{}]),
                     ("range::tilde", [{"gt": False}, {"gt": True}]), ("range::caret", [{}])):
        clo = D.top_map_closure(g, fn)
        if clo is None:
            continue
        for env in envs:
            for shape in D.shapes():
                try:
                    cell, where, it = ex.run_closure(clo, dict(env, shape=shape))
                except (Inconclusive, Panic):
                    continue
                if cell in ("DROPPED", "NULL"):
                    continue
                for c in cell[:2]:
                    if c[0] in ("before", "after"):
                        for x in c[1][:3]:
                            if x[0] == "n":
                                out.add((clo.key, x[1]))
    return out


def printed_tokens(ctx, rep, prog, g, table):
    """Text level: every template Display prints for an interval, with the version placeholders replaced by any printed
    version (C12's writer image), is cut by the reader into the same comparators: each simple() takes a non-garbage
    alternative with exactly the extent of the printed comparator, and the blank between two comparators is the
    separator of range()."""
    from .. import peg
    from ..peg import diff, inter, union
    from ..wmodels import P as Node
    from .c05 import build
    rule = "W-RANGE-TOKENS"
    rep.rule(rule, 9, "each printed interval is tokenised by the reader into its own comparators (exact extents, no garbage)")
    try:
        L, Pg, classes, reps, _, _ = build(prog, g, root="range::range_set", extra_chars="vV.-+xX*<>=~^|")
        simple = gram.strip(g["range::simple"])
        real = [a for a in simple.args if not (gram.strip(a).kind == "ref" and gram.strip(a).extra == "range::garbage")]
        alt5 = Node("alt", real)
        one = alt5
        two = Node("seq", [alt5, Node("prim", extra="space1"), alt5])
    except (Inconclusive, KeyError) as e:
        rep.inconc("%s: %s" % (rule, e))
        return

    def lit(ch):
        return L.sym(classes[("lit", ch)])
    digit, ident = L.sym(classes["digit"]), L.sym(classes["ref_ident"])
    dot, dash, plus_ = lit("."), lit("-"), lit("+")
    num = L.plus(digit)
    idt = L.plus(ident)
    ids = L.concat(idt, L.star(L.concat(dot, idt)))
    W = L.seq(num, dot, num, dot, num, L.opt(L.concat(dash, ids)), L.opt(L.concat(plus_, ids)))
    bar = L.concat(lit("|"), lit("|"))
    D = union(L.eps(), L.concat(bar, L.sigma_star()))
    for (lo, up, c), pieces in sorted(table.items(), key=str):
        if lo == "U" and up == "U":
            continue
        shape = "%s,%s%s" % (lo, up, "(equal versions)" if c == "eq" else "")
        # language of the printed text: literal pieces + W for every placeholder; comparators split at the blank
        comps = [[]]
        for k, v in pieces:
            if k == "lit":
                parts = v.split(" ")
                for i, part in enumerate(parts):
                    if i > 0:
                        comps.append([])
                    comps[-1].append(("lit", part))
            else:
                comps[-1].append(("ver", v))
        langs = []
        try:
            for cp in comps:
                lang = L.eps()
                for k, v in cp:
                    if k == "lit":
                        for ch in v:
                            lang = L.concat(lang, lit(ch))
                    else:
                        lang = L.concat(lang, W)
                langs.append(lang)
        except KeyError as e:
            rep.fail(rule, "<range::BoundSet as std::fmt::Display>::fmt|%s|%s" % (rule, shape), "prints a character the reader's alphabet does not know: %s" % e)
            continue
        if len(langs) == 1:
            T, node = langs[0], one
        elif len(langs) == 2:
            T, node = L.seq(langs[0], L.sym(classes["space"]), langs[1]), two
        else:
            rep.inconc("%s: template with %d comparators" % (rule, len(langs)))
            continue
        try:
            Mn, Fn = Pg.den(node)
        except Inconclusive as e:
            rep.inconc("%s: %s" % (rule, e.reason), e.where)
            continue
        full = L.concat(T, D)
        w1 = inter(full, Fn).witness()
        w2 = diff(inter(Mn, L.with_marker_anywhere(full)), L.seq(T, L.mark(), D)).witness()
        if w1 is None and w2 is None:
            rep.ok(rule)
        else:
            w = w1 if w1 is not None else w2
            rep.fail(rule, "<range::BoundSet as std::fmt::Display>::fmt|%s|%s" % (rule, shape),
                     "a printed interval is %s by the reader (shortest: %r)" % (
                         "not recognised comparator by comparator" if w1 is not None else "cut at a different place", L.word_str(w, reps)),
                     example=L.word_str(w, reps))
    rep.analysed_item("printed interval templates pushed through the reader's PEG automata")


def _collect(cell, where, key, sites):
    if cell in ("DROPPED", "NULL"):
        return
    for c in cell[:2]:
        if c[0] in ("before", "after"):
            for x in c[1][:3]:
                if x[0] == "t" and x[2] > 0:
                    sites[(key, D.cut_str(c))] = where or ""


def serde_range(ctx, rep):
    rep.rule("SERDE-RANGE", 2, "serde: Deserialize for Range = String then str::parse (FromStr -> Range::parse); Serialize = collect_str(Display)")
    try:
        prog = ctx.prog(features=("serde",))
    except Exception as e:
        rep.inconc("serde configuration cannot be analysed: %s" % str(e)[:300])
        return
    from .. import flow
    de = [k for k in prog.bodies if k.endswith("::deserialize") and "Range" in k]
    se = [k for k in prog.bodies if k.endswith("::serialize") and "Range" in k]
    okd = bool(de) and all(flow.delegates_to_parse(prog, k, "<range::Range as std::str::FromStr>::from_str", "range::Range::parse") for k in de)
    for k in de:
        if flow.deserializes_borrowed_str(prog, k):
            okd = None
            rep.fail("SERDE-RANGE", "Deserialize for Range|SERDE|borrowed str", "Deserialize takes the text as a borrowed `&str`: it fails "
                     "whenever the deserializer cannot lend the string (readers, serde_json::Value, escaped text), so a serialized "
                     "range does not always come back")
    if okd is None:
        pass
    elif okd:
        rep.ok("SERDE-RANGE")
    else:
        rep.fail("SERDE-RANGE", "Deserialize for Range|SERDE|delegation", "Deserialize does not go through str::parse / Range::parse (found %s)" % de)
    oks = bool(se) and all(any("collect_str" in c for c in flow.reach_callees(prog, k)[0]) for k in se)
    if oks:
        rep.ok("SERDE-RANGE")
    else:
        rep.fail("SERDE-RANGE", "Serialize for Range|SERDE|delegation", "Serialize does not use collect_str(self) (found %s)" % se)
