"""C08 — difference is set difference (DESIGN §5 C08)."""
from .. import invariant
from .. import intervals
from ..interp import Adt, Cell, Inconclusive, Interp, Policy, Ptr
from .common import interval_table, set_table


def check(ctx, rep):
    prog = ctx.prog()
    invariant.check_invariant(ctx, rep, prog)
    env = intervals.Env(prog)
    t_flip(rep, prog, env)
    interval_table(ctx, rep, prog, "difference", "T-DIF", 1004,
                   "BoundSet::difference = the one or two remainders of a minus b on cuts; None iff a is inside b")
    set_table(ctx, rep, prog, "difference", "E-SET-difference", 374,
              "Range::difference denotes (union A) minus (union B), for every alternative of B; None iff empty")


def flip_key(prog):
    """Predicate::flip by signature: the method of Predicate with one argument (Predicate or &Predicate) that returns
    a Predicate (the name may change: `flip`, `flipped`, …)"""
    if prog.has_body("range::Predicate::flip"):
        return "range::Predicate::flip"
    cands = []
    for k, b in prog.bodies.items():
        if b.get("impl_self") == "range::Predicate" and b["def_kind"] == "AssocFn" and b["arg_count"] == 1 and not k.startswith("<"):
            if prog.ty_str(b["locals"][0]) == "range::Predicate" and prog.ty_str(b["locals"][1]).lstrip("&") == "range::Predicate":
                cands.append(k)
    return cands[0] if len(cands) == 1 else None


def t_flip(rep, prog, env):
    rep.rule("T-FLIP", 3, "Predicate::flip swaps Including/Excluding and keeps the version")
    from ..intervals import PRED, vtok
    for pk, exp in (("I", "E"), ("E", "I"), ("U", "U")):
        from ..intervals import LEVEL1
        it = Interp(prog, Policy(), overrides=dict(LEVEL1))
        t = vtok("v", 0)
        p = Adt(PRED, env.P[pk], () if pk == "U" else (t,))
        key = flip_key(prog)
        if key is None:
            rep.inconc("T-FLIP: no method of Predicate taking a Predicate and returning a Predicate was found")
            return
        by_ref = prog.ty_str(prog.body(key)["locals"][1]).startswith("&")
        try:
            r = it.call_body(key, [Ptr(Cell(p)) if by_ref else p])
        except Inconclusive as e:
            rep.inconc("T-FLIP: " + e.reason, e.where)
            continue
        r = it.strip(r)
        good = isinstance(r, Adt) and r.name == PRED and env.Pinv[r.variant] == exp and \
            (exp == "U" or getattr(it.strip(r.fields[0]), "name", None) == t.name)
        if good:
            rep.ok("T-FLIP")
        else:
            rep.fail("T-FLIP", "range::Predicate::flip|T-FLIP|%s" % pk, "flip(%s) returned %r" % (pk, r))
    if any(x.get("what", "").startswith("T-FLIP") for x in rep.inconclusive):
        flip_witness(rep, prog, env)


def flip_witness(rep, prog, env):
    """flip looks into the version (the opaque token does not apply): concrete structured versions, including `X.Y.Z-0`.
    A mismatch is genuine; none found leaves the rule inconclusive."""
    from .. import minver
    from ..intervals import PRED
    rule = "T-FLIP-WITNESS"
    rep.rule(rule, 0, "witness search for Predicate::flip on structured versions")
    key = flip_key(prog)
    if key is None:
        return
    by_ref = prog.ty_str(prog.body(key)["locals"][1]).startswith("&")
    for v in minver.bound_universe(False):
        for pk, exp in (("I", "E"), ("E", "I")):
            pol = minver.MinPolicy()
            pol.witness = True
            it = Interp(prog, pol, overrides={})
            p = Adt(PRED, env.P[pk], (minver.mk_version(prog, "v", v),))
            try:
                r = it.strip(it.call_body(key, [Ptr(Cell(p)) if by_ref else p]))
                got = minver.concretise(prog, it, r.fields[0]) if isinstance(r, Adt) and r.fields else None
            except Inconclusive:
                continue
            if isinstance(r, Adt) and r.name == PRED and env.Pinv[r.variant] == exp and got == v:
                rep.ok(rule)
            else:
                rep.fail(rule, "range::Predicate::flip|%s|%s" % (rule, "version changed" if got != v else "kind"),
                         "flip(%s %s) gives %s %s" % ({"I": "Including", "E": "Excluding"}[pk], minver.vstr(v),
                                                      env.Pinv.get(getattr(r, "variant", -1)), minver.vstr(got) if got else r),
                         example="(>=1.0.0) minus (1.x) must start at >=2.0.0-0")
                return
