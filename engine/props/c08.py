"""C08 — difference is set difference (DESIGN §5 C08)."""
from .. import intervals
from ..interp import Adt, Inconclusive, Interp, Policy
from .common import interval_table, set_table


def check(ctx, rep):
    prog = ctx.prog()
    env = intervals.Env(prog)
    t_flip(rep, prog, env)
    interval_table(ctx, rep, prog, "difference", "T-DIF", 1004,
                   "BoundSet::difference = the one or two remainders of a minus b on cuts; None iff a is inside b")
    set_table(ctx, rep, prog, "difference", "E-SET-difference", 374,
              "Range::difference denotes (union A) minus (union B), for every alternative of B; None iff empty")


def t_flip(rep, prog, env):
    rep.rule("T-FLIP", 3, "Predicate::flip swaps Including/Excluding and keeps the version")
    from ..intervals import PRED, vtok
    for pk, exp in (("I", "E"), ("E", "I"), ("U", "U")):
        it = Interp(prog, Policy())
        t = vtok("v", 0)
        p = Adt(PRED, env.P[pk], () if pk == "U" else (t,))
        try:
            r = it.call_body("range::Predicate::flip", [p])
        except Inconclusive as e:
            rep.inconc("T-FLIP: " + e.reason, e.where)
            continue
        good = isinstance(r, Adt) and r.name == PRED and env.Pinv[r.variant] == exp and (exp == "U" or r.fields[0] is t)
        if good:
            rep.ok("T-FLIP")
        else:
            rep.fail("T-FLIP", "range::Predicate::flip|T-FLIP|%s" % pk, "flip(%s) returned %r" % (pk, r))
