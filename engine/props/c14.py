"""C14 — max_satisfying / min_satisfying (DESIGN §5 C14)."""
import itertools

from ..interp import Adt, Cell, Inconclusive, Interp, ListV, Panic, Policy, Ptr, Tok, is_some
from ..intervals import LEVEL1, order_str, weak_orders
from ..report import path_sig


def check(ctx, rep):
    prog = ctx.prog()
    maxn = 4 if ctx.thorough else 3
    for fn, pick in (("max_satisfying", max), ("min_satisfying", min)):
        key = "range::Range::" + fn
        rule = "T-" + fn.upper()
        rep.rule(rule, 119, "%s returns None iff no element satisfies, else a reference into the slice to a satisfying "
                            "element that is %s among the satisfying ones (slices of length 0..%d)" % (
                                fn, "maximal" if pick is max else "minimal", maxn))
        pipeline(rep, prog, key)
        for n in range(maxn + 1):
            names = ["v%d" % i for i in range(n)]
            for w in weak_orders(names):
                for sat in itertools.product((False, True), repeat=n):
                    toks = [Tok("V", names[i], w[names[i]], dom="version", extra={"sat": sat[i]}) for i in range(n)]
                    slice_cell = Cell(ListV(toks))
                    rng = Ptr(Cell(Tok("O", "range")))

                    def o_sat(interp, args, info):
                        v = interp.strip(args[1])
                        if not (isinstance(v, Tok) and v.kind == "V"):
                            raise Inconclusive("satisfies called on %r" % (v,), interp.where())
                        interp.events.append(("sat", v.name))
                        return v.extra["sat"]
                    ov = dict(LEVEL1)
                    ov["range::Range::satisfies"] = o_sat
                    it = Interp(prog, Policy(), overrides=ov)
                    cls = "len=%d order:%s satisfies:%s" % (n, order_str(w), "".join("y" if s else "n" for s in sat))
                    try:
                        r = it.call_body(key, [rng, Ptr(slice_cell)])
                    except Inconclusive as e:
                        rep.inconc("%s: %s" % (rule, e.reason), e.where)
                        continue
                    except Panic as p:
                        rep.fail(rule, "%s|%s|%s panic" % (key, rule, cls), "panics: %s" % p)
                        continue
                    rep.path((rule, path_sig(it)))
                    sats = [i for i in range(n) if sat[i]]
                    problem = None
                    if not sats:
                        if is_some(r):
                            problem = "returned Some although no element satisfies"
                    else:
                        if not is_some(r):
                            problem = "returned None although elements %s satisfy" % sats
                        else:
                            p = r.fields[0]
                            if not (isinstance(p, Ptr) and p.cell is slice_cell and len(p.path) == 1 and p.path[0][0] == "i"):
                                problem = "result is not a reference into the slice: %r" % (p,)
                            else:
                                k = p.path[0][1]
                                best = pick(toks[i].val for i in sats)
                                if not sat[k]:
                                    problem = "selected element %d which does not satisfy" % k
                                elif toks[k].val != best:
                                    problem = "selected element %d which is not %s among the satisfying ones" % (
                                        k, "highest" if pick is max else "lowest")
                    if problem is None:
                        rep.ok(rule)
                    else:
                        sp = it.ret_span.get(key)
                        rep.fail(rule, "%s|%s|%s" % (key, rule, cls), problem, where=prog.span_str(sp) if sp else None)
                    if n == 3 and sat == (True, False, True):
                        rep.sample({"rule": rule, "class": cls, "result": "element %s" % (r.fields[0].path[0][1] if is_some(r) else None)})
        rep.analysed_item("%s interpreted with Range::satisfies stubbed by a per-element bit, slices up to length %d" % (key, maxn))


def pipeline(rep, prog, key):
    """evidence only: the resolved callees of the function"""
    body = prog.body(key)
    callees = []
    for bb in body["blocks"]:
        t = bb["term"]
        if t["k"] == "call" and "const" in t["func"] and not bb["cleanup"]:
            c = t["func"]["const"]
            callees.append((c.get("resolved") or c)["def"])
    rep.notes.append("%s calls: %s" % (key, " -> ".join(callees)))
