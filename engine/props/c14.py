"""C14 — max_satisfying / min_satisfying (DESIGN §5 C14)."""
import itertools

from .. import minver
from ..interp import Adt, Cell, Inconclusive, Interp, ListV, Panic, Policy, Ptr, Tok, is_some
from ..intervals import LEVEL1, order_str, weak_orders
from ..report import path_sig


def check(ctx, rep):
    prog = ctx.prog()
    maxn = 4 if ctx.thorough else 3
    for fn, pick in (("max_satisfying", max), ("min_satisfying", min)):
        key = "range::Range::" + fn
        pipeline(rep, prog, key)
        abstract_ok = level1(ctx, rep, prog, key, fn, pick, maxn)
        struct_ok = structured(ctx, rep, prog, key, fn, pick, required=not abstract_ok)
        concrete(ctx, rep, prog, key, fn, pick, required=not (abstract_ok or struct_ok))


def mk_range(nalts):
    return Adt("range::Range", 0, (ListV([Tok("S", "alt%d" % j, j, dom="set") for j in range(nalts)]),))


def sat_override(bits):
    """BoundSet::satisfies(alternative, version) answered by a per-(alternative, element) bit"""
    def o_sat(interp, args, info):
        a = interp.strip(args[0])
        v = interp.strip(args[1])
        if not (isinstance(a, Tok) and a.kind == "S"):
            raise Inconclusive("BoundSet::satisfies on %r" % (a,), interp.where())
        name = getattr(v, "name", None) if isinstance(v, Tok) else v.__dict__.get("_name") if hasattr(v, "__dict__") else None
        if name is None and isinstance(v, Adt):
            name = interp.version_names.get(id(v))
        if name is None:
            raise Inconclusive("BoundSet::satisfies on version %r" % (v,), interp.where())
        interp.events.append(("sat", a.name, name))
        return bits[(a.name, name)]
    return o_sat


def judge(rep, rule, key, cls, r, slice_cell, ranks, sat_any, pick, it, prog):
    n = len(ranks)
    sats = [i for i in range(n) if sat_any[i]]
    problem = None
    if not sats:
        if is_some(r):
            problem = "returned Some although no element satisfies"
    else:
        if not is_some(r):
            problem = "returned None although elements %s satisfy" % sats
        else:
            p = r.fields[0]
            if not (isinstance(p, Ptr) and p.cell is slice_cell and len(p.path) == 1 and p.path[0][0] == "i"):
                problem = "result is not a reference into the slice: %r" % (p,)
            else:
                k = p.path[0][1]
                best = pick(ranks[i] for i in sats)
                if not sat_any[k]:
                    problem = "selected element %d which does not satisfy" % k
                elif ranks[k] != best:
                    problem = "selected element %d which is not %s among the satisfying ones" % (
                        k, "highest" if pick is max else "lowest")
    if problem is None:
        rep.ok(rule)
    else:
        sp = it.ret_span.get(key)
        rep.fail(rule, "%s|%s|%s" % (key, rule, cls), problem, where=prog.span_str(sp) if sp else None)


def level1(ctx, rep, prog, key, fn, pick, maxn):
    """opaque version tokens (ordered by the world), ranges of 1-2 opaque alternatives with a satisfies bit per
    (alternative, element); Range::satisfies itself is interpreted"""
    rule = "T-" + fn.upper()
    rep.rule(rule, 119, "%s returns None iff no element satisfies, else a reference into the slice to a satisfying element "
                        "that is %s among the satisfying ones (slices of length 0..%d, ranges of 1-2 alternatives)" % (
                            fn, "maximal" if pick is max else "minimal", maxn))
    inconc = []
    count = 0
    for nalts in (1, 2):
        for n in range(maxn + 1):
            if nalts == 2 and n > 3:
                continue
            names = ["v%d" % i for i in range(n)]
            for w in weak_orders(names):
                for flat in itertools.product((False, True), repeat=n * nalts):
                    if nalts == 2 and n == 3 and sum(flat) > 3 and not ctx.thorough:
                        continue
                    bits = {}
                    for j in range(nalts):
                        for i in range(n):
                            bits[("alt%d" % j, names[i])] = flat[j * n + i]
                    sat_any = [any(bits[("alt%d" % j, names[i])] for j in range(nalts)) for i in range(n)]
                    toks = [Tok("V", names[i], w[names[i]], dom="version") for i in range(n)]
                    slice_cell = Cell(ListV(toks))
                    ov = dict(LEVEL1)
                    ov["range::BoundSet::satisfies"] = sat_override(bits)
                    it = Interp(prog, Policy(), overrides=ov)
                    it.version_names = {}
                    cls = "alternatives=%d len=%d order:%s satisfies:%s" % (
                        nalts, n, order_str(w), "/".join("".join("y" if bits[("alt%d" % j, names[i])] else "n" for i in range(n)) for j in range(nalts)))
                    count += 1
                    try:
                        r = it.call_body(key, [Ptr(Cell(mk_range(nalts))), Ptr(slice_cell)])
                    except Inconclusive as e:
                        inconc.append((e.reason, e.where))
                        continue
                    except Panic as p:
                        rep.fail(rule, "%s|%s|%s panic" % (key, rule, cls), "panics: %s" % p)
                        continue
                    rep.path((rule, path_sig(it)))
                    judge(rep, rule, key, cls, r, slice_cell, [w[x] for x in names], sat_any, pick, it, prog)
                    if n == 3 and nalts == 1 and flat == (True, False, True):
                        rep.sample({"rule": rule, "class": cls, "result": "element %s" % (r.fields[0].path[0][1] if is_some(r) else None)})
    rep.analysed_item("%s interpreted on %d abstract cases (opaque versions, per-(alternative, element) satisfies bits)" % (key, count))
    if inconc:
        rep.notes.append("%s: the opaque-version abstraction does not apply to this implementation (%s at %s); decided by the "
                         "structured table instead" % (rule, inconc[0][0], inconc[0][1]))
        # fail closed unless the structured table decides (see structured(): required=True)
        rep.rules[rule]["floor"] = 0
        return False
    return True


def structured(ctx, rep, prog, key, fn, pick, required):
    """elements are structured versions (integer-token fields, numeric prerelease identifiers) from a small universe;
    decides implementations that look inside the elements (bounded)"""
    rule = "T-" + fn.upper() + "-STRUCT"
    universe = [(0, 0, p, pre) for p in (0, 1) for pre in ((), (0,), (1,))]
    maxn = 3
    rep.rule(rule, 200, "%s on slices (length <= %d) of structured versions from a universe of %d, one alternative, every "
                        "satisfies pattern" % (fn, maxn, len(universe)))
    count = 0
    stride = 1 if (ctx.thorough or required) else 5
    for n in range(maxn + 1):
        for elems in itertools.product(range(len(universe)), repeat=n):
            for flat in itertools.product((False, True), repeat=n):
                count += 1
                if count % stride:
                    continue
                names = ["v%d" % i for i in range(n)]
                vals = [minver.mk_version(prog, names[i], universe[elems[i]]) for i in range(n)]
                bits = {("alt0", names[i]): flat[i] for i in range(n)}
                slice_cell = Cell(ListV(vals))
                pol = minver.MinPolicy()
                it = Interp(prog, pol, overrides={"range::BoundSet::satisfies": sat_override(bits)})
                it.version_names = {id(v): names[i] for i, v in enumerate(vals)}
                cls = "len=%d elements=%s satisfies:%s" % (n, ",".join(minver.vstr(universe[e]) for e in elems), "".join("y" if b else "n" for b in flat))
                try:
                    r = it.call_body(key, [Ptr(Cell(mk_range(1))), Ptr(slice_cell)])
                except Inconclusive as e:
                    if not required:
                        rep.inconc("%s: %s" % (rule, e.reason), e.where)
                    else:
                        rep.notes.append("%s: opaque alternatives do not apply to this implementation (%s at %s); decided by "
                                         "the concrete-range table instead" % (rule, e.reason, e.where))
                        rep.rules[rule]["floor"] = 0
                    return False
                except Panic as p:
                    rep.fail(rule, "%s|%s|%s panic" % (key, rule, cls), "panics: %s" % p)
                    continue
                rep.path((rule, path_sig(it)))
                # ranks by the reference order
                import functools
                order = sorted(range(n), key=functools.cmp_to_key(lambda a, b: minver.vcmp(universe[elems[a]], universe[elems[b]])))
                ranks = [0] * n
                rk = 0
                for idx, i in enumerate(order):
                    if idx > 0 and minver.vcmp(universe[elems[order[idx - 1]]], universe[elems[i]]) != 0:
                        rk += 1
                    ranks[i] = rk
                judge(rep, rule, key, cls, r, slice_cell, ranks, list(flat), pick, it, prog)
    rep.analysed_item("%s interpreted on structured slices (%d cases, stride %d)" % (key, count, stride))
    return True


_CS = {}


def _ranks(vs):
    import functools
    n = len(vs)
    order = sorted(range(n), key=functools.cmp_to_key(lambda a, b: minver.vcmp(vs[a], vs[b])))
    ranks = [0] * n
    rk = 0
    for idx, i in enumerate(order):
        if idx > 0 and minver.vcmp(vs[order[idx - 1]], vs[i]) != 0:
            rk += 1
        ranks[i] = rk
    return ranks


def _concrete_worker(chunk):
    prog, env, key, pick_name = _CS["prog"], _CS["env"], _CS["key"], _CS["pick"]
    pick = max if pick_name == "max" else min
    out = []
    for alts, elems in chunk:
        names = ["v%d" % i for i in range(len(elems))]
        vals = [minver.mk_version(prog, names[i], e) for i, e in enumerate(elems)]
        slice_cell = Cell(ListV(vals))
        it = Interp(prog, minver.MinPolicy(), overrides={})
        R = minver.build_range(prog, env, alts)
        cls = "range %s" % " || ".join(_alt_class(a) for a in alts)
        detail = "range `%s`, versions [%s]" % (" || ".join(minver.alt_str(a) for a in alts), ", ".join(minver.vstr(e) for e in elems))
        try:
            r = it.call_body(key, [Ptr(Cell(R)), Ptr(slice_cell)])
        except Inconclusive as e:
            out.append(("inconclusive", (e.reason, e.where), cls, detail, None))
            continue
        except Panic as p:
            out.append(("panic", str(p), cls, detail, path_sig(it)))
            continue
        sat = [minver.sat_range(alts, e) for e in elems]
        ranks = _ranks(list(elems))
        sats = [i for i in range(len(elems)) if sat[i]]
        problem = None
        if not sats:
            if is_some(r):
                problem = "returned Some although no element satisfies"
        elif not is_some(r):
            problem = "returned None although an element satisfies"
        else:
            p = r.fields[0]
            if not (isinstance(p, Ptr) and p.cell is slice_cell and len(p.path) == 1 and p.path[0][0] == "i"):
                problem = "result is not a reference into the slice"
            else:
                k = p.path[0][1]
                if not sat[k]:
                    problem = "selected an element that does not satisfy"
                elif ranks[k] != pick(ranks[i] for i in sats):
                    problem = "selected an element that is not the %s satisfying one" % ("highest" if pick is max else "lowest")
        sp = it.ret_span.get(key)
        out.append(("ok" if problem is None else "fail", problem, cls, detail, path_sig(it), prog.span_str(sp) if sp else None))
    return out


def _alt_class(alt):
    (lk, lv), (uk, uv) = alt
    def b(k, v):
        if k == "U":
            return "unbounded"
        return {"I": "Including", "E": "Excluding"}[k] + ("(prerelease)" if v[3] else "(release)")
    return "[%s, %s]" % (b(lk, lv), b(uk, uv))


def concrete(ctx, rep, prog, key, fn, pick, required):
    """real ranges (1-2 alternatives with structured bounds) and real `satisfies`, slices of structured versions;
    reference = the checker's model of satisfaction (cuts + prerelease gate). Decides implementations that look into
    the alternatives themselves (fast paths, pre-filters). Bounded universe."""
    import multiprocessing as mp
    import os
    from .. import intervals
    rule = "T-" + fn.upper() + "-RANGES"
    env = intervals.Env(prog)
    universe = [(0, 0, p, pre) for p in (0, 1) for pre in ((), (0,), (1,))]
    alts1 = minver.alternatives(minver.bound_universe(True))
    slices = [()] + [(a,) for a in universe] + [(a, b) for a in universe for b in universe]
    full = ctx.thorough or required
    cases = []
    for i, a in enumerate(alts1):
        for j, sl in enumerate(slices):
            if full or (i + j) % 4 == 0:
                cases.append(([a], sl))
    one_sided = [a for a in alts1 if a[0][0] == "U" or a[1][0] == "U"]
    pairs = [(a, b) for a in one_sided for b in alts1 if a != b]
    for i, (a, b) in enumerate(pairs):
        if full or i % 7 == 0:
            for j, sl in enumerate(slices[:7] + slices[7::5]):
                if full or (i + j) % 3 == 0:
                    cases.append(([a, b], sl))
    rep.rule(rule, 1000, "%s on real ranges (1-2 alternatives, bounds from a universe of %d versions) and slices of up to 2 "
                         "structured versions: None iff nothing satisfies, else the %s satisfying element" % (
                             fn, len(universe), "highest" if pick is max else "lowest"))
    _CS.update(prog=prog, env=env, key=key, pick="max" if pick is max else "min")
    procs = min(16, os.cpu_count() or 1)
    n = max(1, len(cases) // (procs * 8))
    chunks = [cases[i:i + n] for i in range(0, len(cases), n)]
    with mp.get_context("fork").Pool(procs) as pool:
        res = pool.map(_concrete_worker, chunks)
    kinds, more = {}, 0
    for part in res:
        for row in part:
            st = row[0]
            if st == "inconclusive":
                rep.inconc("%s: %s" % (rule, row[1][0]), row[1][1])
                continue
            rep.path((rule, row[4]))
            if st not in ("ok",):
                kinds[(st, row[1] if st != "panic" else "")] = kinds.get((st, row[1] if st != "panic" else ""), 0) + 1
                if kinds[(st, row[1] if st != "panic" else "")] > 6:
                    more += 1
                    continue
            if st == "panic":
                rep.fail(rule, "%s|%s|%s panic" % (key, rule, row[2]), "panics: %s (%s)" % (row[1], row[3]))
            elif st == "ok":
                rep.ok(rule)
            else:
                rep.fail(rule, "%s|%s|%s|%s" % (key, rule, row[2], row[1]), "%s: %s" % (row[1], row[3]), where=row[5])
    if more:
        rep.notes.append("%s: %d further failing rows of the kinds already reported are not listed one by one" % (rule, more))
    rep.analysed_item("%s interpreted on %d (real range, structured slice) cases" % (key, len(cases)))


def pipeline(rep, prog, key):
    """evidence only: the resolved callees of the function"""
    body = prog.body(key)
    callees = []
    for bb in body["blocks"]:
        t = bb["term"]
        if t["k"] == "call" and "const" in t["func"] and not bb["cleanup"]:
            c = t["func"]["const"]
            callees.append((c.get("resolved") or c)["def"])
    rep.notes.append("%s calls: %s" % (key, " -> ".join(callees)))
