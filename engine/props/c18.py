"""C18 — tuple conversions build the same version as parsing the dotted string (DESIGN §5 C18)."""
import re

from ..interp import Adt, Cell, Clo, Inconclusive, Interp, ListV, Panic, Policy, Ptr, Tok
from ..models import Formatter
from ..report import path_sig

INTS = ["u8", "u16", "u32", "u64", "usize", "i8", "i16", "i32", "i64", "isize"]
PAT = re.compile(r"^<Version as std::convert::From<\((\w+), (\w+), (\w+)(?:, (\w+))?\)>>::from$")


def tok(i):
    return Tok("I", "arg%d" % i, 3 + i, dom="slot%d" % i)


def check(ctx, rep):
    progs = [("dev", ctx.prog())]
    if ctx.thorough:
        progs.append(("no-debug-assertions", ctx.prog(nochecks=True)))
    for label, prog in progs:
        conversions(rep, prog, label)
    display_order(rep, progs[0][1])
    parser_wiring(rep, progs[0][1], "T-PARSE-WIRING")


def conversions(rep, prog, label):
    rule = "T-FROM"
    rep.rule(rule, 20, "every From<(T,T,T)> / From<(T,T,T,T)> impl wires major<-.0 minor<-.1 patch<-.2 (value preserving "
                       "cast), build empty, pre_release empty resp. [Numeric(.3)]; all integer types present")
    names = prog.field_names("Version")
    found = set()
    for key in sorted(prog.bodies):
        m = PAT.match(key)
        if not m:
            continue
        tys = [g for g in m.groups() if g]
        if len(set(tys)) != 1:
            continue
        n = len(tys)
        found.add((tys[0], n))
        cls = "%s x%d [%s]" % (tys[0], n, label)
        # integer tokens may be compared with literals: the literals met are logged and the conversion is re-run with
        # every slot at a representative on either side of each literal (within the type and MAX_SAFE_INTEGER)
        bits = {"u8": 8, "i8": 7, "u16": 16, "i16": 15, "u32": 32, "i32": 31, "u64": 64, "i64": 63, "usize": 64, "isize": 63}[tys[0]]
        limit = min((1 << bits) - 1, prog.consts.get("MAX_SAFE_INTEGER", 900719925474099))
        rounds = [None]
        tried = set()
        r = None
        it = None
        failed = False
        while rounds and not failed:
            repv = rounds.pop(0)
            pol = Policy()
            pol.log_literals = set()
            pol.free_literal_doms = tuple("slot%d" % i for i in range(n))
            args = tuple(Tok("I", "arg%d" % i, (3 + i) if repv is None else repv, dom="slot%d" % i) for i in range(n))
            it = Interp(prog, pol)
            try:
                r = it.call_body(key, [args])
            except Inconclusive as e:
                if "narrowing" in e.reason or "token" in e.reason:
                    rep.fail(rule, "%s|%s|%s" % (key, rule, "value-changing operation"),
                             "the conversion does something other than a value preserving cast: %s" % e.reason, where=e.where)
                else:
                    rep.inconc("%s: %s" % (rule, e.reason), e.where)
                failed = True
                break
            except Panic as p:
                rep.fail(rule, "%s|%s|panic" % (key, rule), "panics on non-negative input%s: %s" % (
                    "" if repv is None else " %d" % repv, p))
                failed = True
                break
            bad = check_result(prog, it, r, names, n)
            if bad:
                sp = it.ret_span.get(key)
                rep.fail(rule, "%s|%s|%s" % (key, rule, "; ".join(x.split(" (")[0] for x in bad)),
                         "; ".join(bad) + ("" if repv is None else " (every component = %d)" % repv),
                         where=prog.span_str(sp) if sp else None)
                failed = True
                break
            for lit in pol.log_literals:
                for x in (lit - 1, lit, lit + 1):
                    if 0 <= x <= limit and x not in tried:
                        tried.add(x)
                        rounds.append(x)
            if len(tried) > 40:
                rep.inconc("%s: literals compared by %s do not stabilise" % (rule, key))
                failed = True
        if failed:
            continue
        rep.ok(rule)
        rep.path((rule, path_sig(it)))
        if tys[0] in ("i16",) and n == 4:
            rep.sample({"rule": rule, "impl": key, "config": label, "result": "Version{major:arg0,minor:arg1,patch:arg2,build:[],pre_release:[Numeric(arg3)]}"})
        continue
    for t in INTS:
        for n in (3, 4):
            if (t, n) not in found:
                rep.fail(rule, "Version|%s|missing From<(%s x%d)>" % (rule, t, n),
                         "no From impl for a %d-tuple of %s" % (n, t))
    rep.analysed_item("%d From<tuple> impls for Version interpreted [%s]" % (len(found), label))


def check_result(prog, it, r, names, n):
    problems = []
    if not (isinstance(r, Adt) and r.name == "Version"):
        return ["returned %r" % (r,)]
    f = dict(zip(names, r.fields))
    for i, fn in enumerate(("major", "minor", "patch")):
        v = f[fn]
        if not (isinstance(v, Tok) and v.name == "arg%d" % i and v.off == 0):
            problems.append("%s <- %r (expected tuple slot %d)" % (fn, v, i))
    b = it.strip(f["build"])
    if not (isinstance(b, ListV) and not b.items):
        problems.append("build = %r (expected empty)" % (b,))
    p = it.strip(f["pre_release"])
    if n == 3:
        if not (isinstance(p, ListV) and not p.items):
            problems.append("pre_release = %r (expected empty)" % (p,))
    else:
        okp = isinstance(p, ListV) and len(p.items) == 1
        if okp:
            ident = p.items[0]
            okp = (isinstance(ident, Adt) and ident.name == "Identifier"
                   and prog.variant_name("Identifier", ident.variant) == "Numeric"
                   and isinstance(ident.fields[0], Tok) and ident.fields[0].name == "arg3" and ident.fields[0].off == 0)
        if not okp:
            problems.append("pre_release = %r (expected [Numeric(slot 3)])" % (p,))
    return problems


def display_order(rep, prog):
    """Display for Version prints {major}.{minor}.{patch}[-pre(.pre)*][+build(.build)*]"""
    rule = "T-DISPLAY-V"
    rep.rule(rule, 4, "Display for Version prints major.minor.patch, then '-' and dot-joined prerelease, then '+' and build")
    key = "<Version as std::fmt::Display>::fmt"
    names = prog.field_names("Version")
    NUM = prog.variant_index("Identifier", "Numeric")
    ALPHA = prog.variant_index("Identifier", "AlphaNumeric")
    from ..interp import explore

    def ident(kind, nm, i):
        if kind == "n":
            # identifiers of one list may well be equal: same value, same comparison domain, different names
            return Adt("Identifier", NUM, (Tok("I", "%s%d" % (nm, i), 0, dom="ident-num"),))
        return Adt("Identifier", ALPHA, (Tok("T", "%s%d" % (nm, i), "x", dom="ident-str"),))
    for pre_kinds, build_kinds in (("", ""), ("n", ""), ("a", ""), ("na", "n"), ("an", "a"), ("", "na"),
                                   ("aa", ""), ("nn", "nn"), ("", "aa"), ("ana", "")):
        npre, nbuild = len(pre_kinds), len(build_kinds)

        def run(cx, pre_kinds=pre_kinds, build_kinds=build_kinds):
            f = {}
            for i, fn in enumerate(("major", "minor", "patch")):
                f[fn] = tok(i)
            f["pre_release"] = ListV([ident(k, "pre", i) for i, k in enumerate(pre_kinds)])
            f["build"] = ListV([ident(k, "build", i) for i, k in enumerate(build_kinds)])
            v = Adt("Version", 0, [f[n] for n in names])
            fm = Formatter()
            it = Interp(prog, Policy(), ctx=cx)
            try:
                it.call_body(key, [Ptr(Cell(v)), Ptr(Cell(fm))])
            except Inconclusive as e:
                return ("inconclusive", e, it)
            return ("ok", fm, it)
        for cx, (st, fm, it) in explore(run, limit=64):
            if st == "inconclusive":
                rep.inconc("%s: %s" % (rule, fm.reason), fm.where)
                continue
            rep.path((rule, path_sig(it)))
            got = "".join(p[1] if p[0] == "lit" else "{%s}" % p[1].name for p in fm.out)
            exp = "{arg0}.{arg1}.{arg2}"
            for i in range(npre):
                exp += ("-" if i == 0 else ".") + "{pre%d}" % i
            for i in range(nbuild):
                exp += ("+" if i == 0 else ".") + "{build%d}" % i
            if got == exp:
                rep.ok(rule)
            else:
                rep.fail(rule, "%s|%s|pre=%s,build=%s" % (key, rule, pre_kinds or "-", build_kinds or "-"),
                         "prints %s, expected %s%s" % (got, exp, " (for some identifier text)" if cx.decisions else ""))
    rep.analysed_item("<Version as Display>::fmt interpreted on 10 identifier-list shapes (numeric and alphanumeric identifiers, "
                      "including lists whose identifiers are equal)")
    if any(x["what"].startswith(rule + ":") for x in rep.inconclusive):
        display_witness(rep, prog)


def display_witness(rep, prog):
    """Display does arithmetic on the numbers it prints (casts, digit extraction): the template abstraction does not apply.
    Witness search on concrete values, including values beyond 32 bits and multi-digit ones; a printed text that differs
    from the canonical one is a genuine violation, none found leaves T-DISPLAY-V inconclusive."""
    from ..interp import StrV
    rule = "T-DISPLAY-V-WITNESS"
    rep.rule(rule, 0, "witness search for Display for Version on concrete component and identifier values")
    key = "<Version as std::fmt::Display>::fmt"
    names = prog.field_names("Version")
    NUM = prog.variant_index("Identifier", "Numeric")
    ALPHA = prog.variant_index("Identifier", "AlphaNumeric")
    vals = [0, 7, 10, 123, (1 << 32), (1 << 32) + 5, (1 << 40) + 9, 900719925474099]
    big = [0, 9, 10, (1 << 32) + 5, 10 ** 16, (1 << 64) - 1]
    cases = []
    for v in vals:
        cases.append(((v, 1, 2), (), ()))
        cases.append(((1, v, 2), (), ()))
        cases.append(((1, 2, v), (), ()))
    for v in big:
        cases.append(((1, 2, 3), (v,), ()))
        cases.append(((1, 2, 3), ("x", v), (v, "y")))
    n = bad = 0
    for nums, pre, build in cases:
        def idt(x):
            return Adt("Identifier", NUM, (x,)) if isinstance(x, int) else Adt("Identifier", ALPHA, (StrV(x),))
        f = dict(zip(("major", "minor", "patch"), nums))
        f["pre_release"] = ListV([idt(x) for x in pre])
        f["build"] = ListV([idt(x) for x in build])
        v = Adt("Version", 0, [f[nm] for nm in names])
        fm = Formatter()
        pol = Policy()
        pol.witness = True
        it = Interp(prog, pol)
        try:
            it.call_body(key, [Ptr(Cell(v)), Ptr(Cell(fm))])
        except (Inconclusive, Panic):
            continue
        if not all(p[0] == "lit" for p in fm.out):
            continue
        n += 1
        got = "".join(p[1] for p in fm.out)
        exp = "%d.%d.%d" % nums + ("-" + ".".join(str(x) for x in pre) if pre else "") + ("+" + ".".join(str(x) for x in build) if build else "")
        if got == exp:
            rep.ok(rule)
        else:
            bad += 1
            if bad <= 3:
                where = "component" if not pre and not build else "identifier"
                rep.fail(rule, "%s|%s|%s" % (key, rule, where), "prints %r for the version %s" % (got, exp), example=exp)
    rep.analysed_item("witness search for Display for Version: %d concrete versions, %d printed wrongly" % (n, bad))


def parser_wiring(rep, prog, rule):
    """the grammar function `version` is interpreted as a whole with its leaf parsers answered by type: a parser
    function returning u64 yields the next numbered token, one returning (Vec<Identifier>, Vec<Identifier>) the
    (pre, build) pair (a lone Vec<Identifier>: pre first, then build), text-level combinators opaque tokens; helper parser
    functions, `map` closures and imperative tails are interpreted. The result must be
    Version { major: 1st, minor: 2nd, patch: 3rd, pre_release: pre, build: build }."""
    from .. import gram
    from ..interp import NONE, ok, some
    from ..wmodels import parser_functions
    rep.rule(rule, 1, "version() puts each parsed component into the field named for it (numbers in order of appearance, "
                      "prerelease and build lists in theirs)")
    names = prog.field_names("Version")
    if not prog.has_body("version"):
        rep.inconc("%s: grammar function `version` not found" % rule)
        return
    state = {"n": 0, "lists": 0}
    pre, build = Tok("L", "pre", (), dom="pre"), Tok("L", "build", (), dom="build")

    def ok_type(key):
        t = prog.types[prog.body(key)["locals"][0]]
        if t.get("k") == "adt" and t.get("adt") == "std::result::Result" and t.get("args"):
            return prog.ty_str(t["args"][0])
        return None

    def leaf(key):
        ty = ok_type(key)
        if ty == "u64":
            def f(interp, args, info):
                state["n"] += 1
                return ok(tok(state["n"] - 1))
            return f
        if ty == "(std::vec::Vec<Identifier>, std::vec::Vec<Identifier>)":
            return lambda interp, args, info: ok((pre, build))
        if ty == "std::vec::Vec<Identifier>":
            def g(interp, args, info):
                state["lists"] += 1
                return ok(pre if state["lists"] == 1 else build)
            return g
        return None
    overrides = {}
    for k in parser_functions(prog):
        if k != "version":
            f = leaf(k)
            if f is not None:
                overrides[k] = f

    class Wiring(Policy):
        def parse_next(pself, interp, p, inp, info):
            return ok(pself.value(interp, p, inp))

        def value(pself, interp, p, inp):
            k = p.kind
            if k in ("context", "cut_err"):
                return pself.value(interp, p.args[0], inp)
            if k == "map":
                return interp.call_value(p.extra, [pself.value(interp, p.args[0], inp)])
            if k == "ref":
                r = interp.call_key(p.extra, [inp])
                if not (isinstance(r, Adt) and r.name == "std::result::Result" and r.variant == 0):
                    raise Inconclusive("%s did not succeed" % p.extra)
                return r.fields[0]
            if k == "seq":
                return tuple(pself.value(interp, a, inp) for a in p.args)
            if k == "preceded":
                pself.value(interp, p.args[0], inp)
                return pself.value(interp, p.args[1], inp)
            if k == "terminated":
                v = pself.value(interp, p.args[0], inp)
                pself.value(interp, p.args[1], inp)
                return v
            if k == "delimited":
                pself.value(interp, p.args[0], inp)
                v = pself.value(interp, p.args[1], inp)
                pself.value(interp, p.args[2], inp)
                return v
            if k == "opt":
                return some(pself.value(interp, p.args[0], inp))          # the path on which every part is present
            if k == "alt":
                return pself.value(interp, p.args[0], inp)                # … written as the first alternative spells it
            if k in ("value",):
                pself.value(interp, p.args[0], inp)
                return p.extra
            if k == "void":
                pself.value(interp, p.args[0], inp)
                return ()
            return Tok("T", "text", "", dom="text")

        def stream_strip_prefix(pself, interp, tok_, pat, info):
            return NONE
    it = Interp(prog, Wiring(), overrides=overrides)
    inp = Ptr(Cell(Ptr(Cell(Tok("T", "input", "", dom="input")))))
    try:
        r = it.call_body("version", [inp])
    except Inconclusive as e:
        rep.inconc("%s: %s" % (rule, e.reason), e.where)
        return
    good = isinstance(r, Adt) and r.name == "std::result::Result" and r.variant == 0 and isinstance(r.fields[0], Adt) \
        and r.fields[0].name == "Version"
    got = None
    if good:
        f = dict(zip(names, r.fields[0].fields))
        got = [getattr(it.strip(f[n]), "name", None) for n in ("major", "minor", "patch", "pre_release", "build")]
        good = got == ["arg0", "arg1", "arg2", "pre", "build"]
    if good:
        rep.ok(rule)
    else:
        rep.fail(rule, "version|%s|fields" % rule, "version() built %r (fields major, minor, patch, pre_release, build carry %r)" % (r, got))
    rep.analysed_item("version() interpreted as a whole with leaf parsers answered by type (%d leaf parser functions)" % len(overrides))
