"""C02 — space-joined comparators intersect, `||` unites (DESIGN §5 C02)."""
import itertools

from .. import gram, setalg
from ..interp import (Adt, Cell, Clo, Ctx, Inconclusive, Interp, ListV, NONE, Panic, Policy, Ptr, Tok, is_some, some)
from ..report import path_sig
from .common import interval_table, set_table


def check(ctx, rep):
    prog = ctx.prog()
    g, problems = gram.extract(prog)
    for k, v in problems.items():
        rep.inconc("grammar extraction of %s: %s" % (k, v))
    fold_obligations(ctx, rep, prog, g)
    or_obligations(ctx, rep, prog, g)
    interval_table(ctx, rep, prog, "intersect", "T-INT", 1004,
                   "BoundSet::intersect is interval intersection (order independence of the fold)")


def _closure_of(g, fn):
    from ..desugar import top_map_closure
    return top_map_closure(g, fn)


def fold_obligations(ctx, rep, prog, g):
    """range(): the closure that folds the comparators of one alternative. Interpreted with comparator lists of
    length 0..3 (None = dropped token) over interval tokens of a free Boolean algebra: the result must denote the
    intersection of all comparators and never hold more than one interval."""
    rule = "T-FOLD"
    rep.rule(rule, 100, "the comparators of one alternative are folded to their intersection; when it is empty the "
                        "alternative holds nothing (never both operands)")
    FN = "range::range"
    if FN not in g:
        rep.inconc("range::range not found in the extracted grammar")
        return
    clo = _closure_of(g, FN)
    site = clo.key if clo is not None else FN      # violation keys name the closure when there is one (as before)
    maxn = 4 if ctx.thorough else 3
    total = 0
    pending = []
    for n in range(0, maxn + 1):
        for present in itertools.product((True, False), repeat=n):
            k = sum(present)
            for inh in (setalg.worlds(k) if k else [0]):
                total += 1
                world = setalg.SetWorld(k, inh)
                cx = Ctx()
                it = Interp(prog, Policy(), ctx=cx, overrides=setalg.overrides(world, cx))
                items = []
                gi = 0
                allden = (1 << (1 << k)) - 1 if k else 0
                for pr in present:
                    if pr:
                        items.append(some(setalg.stok("c%d" % gi, world.gen(gi))))
                        allden &= world.gen(gi)
                        gi += 1
                    else:
                        items.append(NONE)
                exp = allden & inh if k else 0
                cls = "comparators=%s world=%s" % ("".join("c" if p else "-" for p in present) or "none", bin(inh))
                try:
                    r, it = gram.run_with_leaf(prog, FN, ListV(items), ctx=cx, overrides=setalg.overrides(world, cx))
                except Inconclusive as e:
                    pending.append(("%s: %s" % (rule, e.reason), e.where))
                    continue
                except Panic as p:
                    rep.fail(rule, "%s|%s|panic %s" % (site, rule, cls), "panics: %s" % p)
                    continue
                rep.path((rule, path_sig(it)))
                lst = it.strip(r)
                if isinstance(lst, Adt) and lst.name == "std::option::Option":
                    lst = ListV(list(lst.fields))          # `Option<BoundSet>`: no interval or one
                if not isinstance(lst, ListV):
                    rep.inconc("%s: fold closure returned %r" % (rule, lst))
                    continue
                den = 0
                for x in lst.items:
                    den |= it.strip(x).val
                den &= inh
                sp = it.ret_span.get(site)
                where = prog.span_str(sp) if sp else None
                kind = None
                if den != exp:
                    kind = "widens" if den & ~exp else "narrows"
                    what = "the alternative admits element types %s, the intersection of its comparators is %s" % (bin(den), bin(exp))
                elif len(lst.items) > 1:
                    kind = "several-intervals"
                    what = "the alternative holds %d intervals" % len(lst.items)
                if kind is None:
                    rep.ok(rule)
                else:
                    rep.fail(rule, "%s|%s|n=%d %s" % (site, rule, k, kind), what + " (%s)" % cls, where=where,
                             expected=bin(exp), actual=bin(den),
                             example=">=1.2.3 <1.0.0 parses to a union" if kind == "widens" else None)
                if total % 37 == 1:
                    rep.sample({"rule": rule, "class": cls, "extracted": bin(den), "reference": bin(exp)})
    rep.analysed_item("%s interpreted on %d (comparator list, world) cases" % (site, total))
    if pending:
        # the fold looks inside the comparators (their bounds), which opaque interval tokens do not have: decided on
        # concrete intervals over version tokens in every weak ordering instead
        if fold_level1(ctx, rep, prog, FN, site):
            rep.notes.append("%s: %d cases are outside the Boolean-algebra abstraction (%s); decided by T-FOLD-L1 on concrete "
                             "intervals" % (rule, len(pending), pending[0][0]))
            rep.rules[rule]["floor"] = 0
        else:
            for reason, where in pending[:20]:
                rep.inconc(reason, where)
            fold_witness(ctx, rep, prog, FN, site)


def fold_level1(ctx, rep, prog, FN, site):
    """T-FOLD-L1: the fold on lists of 1-2 comparators of every shape and 3 one-sided comparators, bounds = version tokens
    in every weak ordering (Bound::cmp and BoundSet::new interpreted): the alternative holds exactly
    [max lower cut, min upper cut] or nothing when that is empty. Returns True when every row was decided and held."""
    from .. import intervals
    from ..intervals import SHAPES, bstr, cut, sstr, vtok, weak_orders, order_str
    rule = "T-FOLD-L1"
    rep.rule(rule, 0, "the comparator fold on concrete intervals (version tokens, every weak ordering)")
    env = intervals.Env(prog)
    two = [(lo, up) for lo in SHAPES for up in SHAPES]
    one_sided = [("I", "U"), ("E", "U"), ("U", "I"), ("U", "E")]
    lists = [[s] for s in two] + [[a, b] for a in two for b in two] + [[a, b, c] for a in one_sided for b in one_sided for c in one_sided]
    clean = True
    n = 0
    for shapes in lists:
        names = []
        for i, (lo, up) in enumerate(shapes):
            if lo != "U":
                names.append("l%d" % i)
            if up != "U":
                names.append("u%d" % i)
        if len(names) > 4:
            continue
        for w in weak_orders(names):
            sets, valid = [], True
            for i, (lo, up) in enumerate(shapes):
                a = ("L", lo, vtok("l%d" % i, w["l%d" % i]) if lo != "U" else None)
                b = ("U", up, vtok("u%d" % i, w["u%d" % i]) if up != "U" else None)
                if not cut(a) < cut(b):
                    valid = False
                    break
                sets.append((a, b))
            if not valid:
                continue
            n += 1
            items = [some(intervals.build_set(env, s)) for s in sets]
            cls = "%s order:%s" % (" ".join(sstr(s) for s in sets), order_str(w))
            cx = Ctx()
            try:
                r, it = gram.run_with_leaf(prog, FN, ListV(items), ctx=cx, overrides=dict(intervals.LEVEL1))
                if cx.decisions:
                    # the fold asked something the order abstraction leaves open (a field of a version, whether it is a
                    # prerelease): version tokens do not decide it
                    raise Inconclusive("the fold reads the versions themselves (%s)" % ", ".join(sorted(set(cx.labels))))
                lst = it.strip(r)
                if isinstance(lst, Adt) and lst.name == "std::option::Option":
                    lst = ListV(list(lst.fields))
                got = [env.dec_set(it, x) for x in lst.items]
            except Inconclusive as e:
                rep.inconc("%s: %s" % (rule, e.reason), e.where)
                clean = False
                continue
            except Panic as p:
                rep.fail(rule, "%s|%s|panic" % (site, rule), "panics: %s (%s)" % (p, cls))
                clean = False
                continue
            rep.path((rule, path_sig(it)))
            lo = max((s[0] for s in sets), key=cut)
            up = min((s[1] for s in sets), key=cut)
            exp = [(cut(lo), cut(up))] if cut(lo) < cut(up) else []
            gotc = [(cut(a), cut(b)) for a, b in got]
            if gotc == exp:
                rep.ok(rule)
            else:
                clean = False
                kind = "alternative lost" if len(gotc) < len(exp) else ("alternative kept" if len(gotc) > len(exp) else "wrong bounds")
                rep.fail(rule, "%s|%s|n=%d %s" % (site, rule, len(sets), kind),
                         "the alternative holds %s, the intersection of its comparators is %s (%s)" % (
                             [sstr(g) for g in got] or "nothing", "[%s,%s]" % (bstr(lo), bstr(up)) if exp else "empty", cls))
    rep.analysed_item("%s interpreted on %d lists of concrete comparators (1-2 of every shape, 3 one-sided)" % (site, n))
    return clean and n > 0


def fold_witness(ctx, rep, prog, FN, site):
    """the fold looks inside the comparators (the interval tokens do not apply): search for a concrete counterexample on
    pairs of comparators with bounds from a small universe of structured versions (release / prerelease). The alternative
    must hold exactly the interval max(lowers) .. min(uppers), or nothing when that is empty. A mismatch is genuine; none
    found leaves the rule inconclusive."""
    from .. import minver, intervals
    from .common import _cut, _cut_cmp
    rule = "T-FOLD-WITNESS"
    rep.rule(rule, 0, "witness search for the comparator fold on concrete intervals")
    env = intervals.Env(prog)
    alts = minver.alternatives(minver.bound_universe(True))
    names = prog.field_names("range::BoundSet")
    PN = {v: k for k, v in (("I", prog.variant_index("range::Predicate", "Including")),
                             ("E", prog.variant_index("range::Predicate", "Excluding")),
                             ("U", prog.variant_index("range::Predicate", "Unbounded")))}

    def setup(pol):
        pol.witness = True
        pol.allow_offset_cmp = True

    def dec(it, bs):
        f = dict(zip(names, it.strip(bs).fields))
        out = []
        for side in ("lower", "upper"):
            pred = it.strip(it.strip(f[side]).fields[0])
            k = PN[pred.variant]
            out.append((k, minver.concretise(prog, it, pred.fields[0]) if k != "U" else None))
        return tuple(out)
    pairs = [(a, b) for a in alts for b in alts]
    pairs = pairs[::(2 if ctx.thorough else 7)]
    n = bad = 0
    for a, b in pairs:
        A = minver.build_range(prog, env, [a]).fields[0].items[0]
        B = minver.build_range(prog, env, [b]).fields[0].items[0]
        try:
            r, it = gram.run_with_leaf(prog, FN, ListV([some(A), some(B)]), setup=setup)
            lst = it.strip(r)
            if isinstance(lst, Adt) and lst.name == "std::option::Option":
                lst = ListV(list(lst.fields))
            got = [dec(it, x) for x in lst.items]
        except (Inconclusive, Panic):
            continue
        n += 1
        (alk, alv), (auk, auv) = a
        (blk, blv), (buk, buv) = b
        la, ua, lb, ub = _cut(alk, "L", alv), _cut(auk, "U", auv), _cut(blk, "L", blv), _cut(buk, "U", buv)
        lo = (alk, alv) if _cut_cmp(la, lb, "L") >= 0 else (blk, blv)
        up = (auk, auv) if _cut_cmp(ua, ub, "U") <= 0 else (buk, buv)
        lc, uc = _cut(lo[0], "L", lo[1]), _cut(up[0], "U", up[1])
        nonempty = True
        if lc is not None and uc is not None:
            c = minver.vcmp(lc[0], uc[0])
            nonempty = c < 0 or (c == 0 and lc[1] < uc[1])
        exp = [(lo, up)] if nonempty else []
        same = len(got) == len(exp) and all(_cut(g[0][0], "L", g[0][1]) == _cut(e[0][0], "L", e[0][1]) and
                                            _cut(g[1][0], "U", g[1][1]) == _cut(e[1][0], "U", e[1][1]) for g, e in zip(got, exp))
        if same:
            rep.ok(rule)
        else:
            bad += 1
            if bad <= 3:
                rep.fail(rule, "%s|%s|%s" % (site, rule, "alternative lost" if len(got) < len(exp) else ("alternative kept" if len(got) > len(exp) else "wrong bounds")),
                         "`%s %s` holds %s, the intersection of the two comparators is %s" % (
                             minver.alt_str(a), minver.alt_str(b), [minver.alt_str(g) for g in got] or "nothing",
                             [minver.alt_str(e) for e in exp] or "empty"),
                         example="%s %s" % (minver.alt_str(a), minver.alt_str(b)))
    rep.analysed_item("witness search for the fold: %d pairs of concrete comparators, %d mismatches" % (n, bad))


def or_obligations(ctx, rep, prog, g):
    rule = "T-OR"
    rep.rule(rule, 30, "`||`: the alternatives collected by bound_sets admit exactly what the listed alternatives admit "
                       "(bounds and prerelease gate of every alternative); Range::satisfies is the OR of the alternatives")
    FN = "range::bound_sets"
    clo = _closure_of(g, FN) if FN in g else None
    site = clo.key if clo is not None else FN
    if FN not in g:
        rep.inconc("range::bound_sets not found in the extracted grammar")
    else:
        gate_sets = [frozenset(), frozenset([0]), frozenset([1])]
        shapes = [()] + [l for n in (1, 2, 3) for l in itertools.product(range(0, 3), repeat=n) if sum(l) <= 3]
        # what one alternative looks like when range() hands it over: a Vec<BoundSet> (0..n intervals) or an Option<BoundSet>
        elem_opt = False
        if prog.has_body("range::range"):
            rt = prog.types[prog.body("range::range")["locals"][0]]
            if rt.get("k") == "adt" and rt.get("args"):
                elem_opt = prog.ty_str(rt["args"][0]).startswith("std::option::Option")
        if elem_opt:
            shapes = [l for l in shapes if all(x <= 1 for x in l)]
        ncase = 0
        for lens in shapes:
            total = sum(lens)
            for inh in (setalg.worlds(total) if total else [0]):
                for gates in itertools.product(gate_sets, repeat=total):
                    if total == 3 and not ctx.thorough and len(set(gates)) == 3:
                        continue
                    stack = [[]]
                    while stack:
                        prefix = stack.pop()
                        world = setalg.SetWorld(total, inh)
                        cx = Ctx(prefix)
                        it = Interp(prog, Policy(), ctx=cx, overrides=setalg.overrides(world, cx))
                        toks = []
                        lists = []
                        c = 0
                        for ln in lens:
                            one = []
                            for _ in range(ln):
                                t = Tok("S", "s%d" % c, world.gen(c), dom="set", extra={"gates": gates[c]})
                                one.append(t)
                                toks.append(t)
                                c += 1
                            lists.append((some(one[0]) if one else NONE) if elem_opt else ListV(one))
                        ncase += 1
                        try:
                            r, it = gram.run_with_leaf(prog, FN, ListV(lists), ctx=cx, overrides=setalg.overrides(world, cx))
                        except Inconclusive as e:
                            rep.inconc("%s: %s" % (rule, e.reason), e.where)
                            break
                        except Panic as p:
                            rep.fail(rule, "%s|%s|panic" % (site, rule), "panics: %s" % p)
                            break
                        rep.path((rule, path_sig(it)))
                        out = [it.strip(x) for x in it.strip(r).items]
                        problem = None
                        for x in out:
                            if not (isinstance(x, Tok) and x.kind == "S" and x.extra and "gates" in x.extra):
                                problem = "the collected alternatives contain a rebuilt interval %r" % (x,)
                        if problem is None:
                            # probes: every inhabited element type x {release, prerelease tagged 0, prerelease tagged 1}
                            for et in range(1, 1 << total):
                                if not (inh >> et & 1):
                                    continue
                                for probe in ("release", 0, 1):
                                    def sat(ts):
                                        return any((t.val >> et & 1) and (probe == "release" or probe in t.extra["gates"]) for t in ts)
                                    if sat(toks) != sat(out):
                                        problem = ("a %s version lying in alternatives %s is %s by the parsed range but %s by the listed "
                                                   "alternatives" % ("release" if probe == "release" else "prerelease (gate tag %s)" % probe,
                                                                     bin(et), "admitted" if sat(out) else "rejected", "admitted" if sat(toks) else "rejected"))
                                        break
                                if problem:
                                    break
                        if problem is None:
                            rep.ok(rule)
                        else:
                            sp = it.ret_span.get(site)
                            rep.fail(rule, "%s|%s|alternatives=%s" % (site, rule, "+".join(map(str, lens))), problem,
                                     where=prog.span_str(sp) if sp else None,
                                     example="1.x || 1.5.0-beta loses the prerelease alternative" if "prerelease" in problem else None)
                        for i in range(len(cx.decisions) - 1, len(prefix) - 1, -1):
                            for alt in range(cx.arity[i] - 1, 0, -1):
                                stack.append(cx.decisions[:i] + [alt])
        rep.analysed_item("%s interpreted on %d (alternative lists, world, gate tags) cases" % (site, ncase))
    n = 3 if not ctx.thorough else 4
    cnt = 0
    pending = []
    for k in range(1, n + 1):
        for inh in setalg.worlds(k):
            for r in setalg.run_satisfies(prog, k, inh):
                cnt += 1
                if "inconclusive" in r:
                    pending.append(r["inconclusive"])
                elif r["problems"]:
                    rep.fail(rule, "range::Range::satisfies|%s|n=%d %s" % (rule, k, r["problems"][0][0]), r["problems"][0][1])
                else:
                    rep.ok(rule)
                    rep.path((rule, r.get("sig")))
    rep.analysed_item("range::Range::satisfies interpreted on %d (alternatives, world, probe) cases" % cnt)
    if pending:
        # Range::satisfies does not hand each alternative to BoundSet::satisfies as a whole (it looks inside, or calls a
        # differently shaped helper): opaque alternatives do not apply. Decided on real alternatives instead (the table of
        # C03: one or two one-token alternatives x every valuation of the gate atoms, answer = OR of the alternatives' own)
        from .. import intervals
        from .c03 import range_satisfies
        before = len(rep.inconclusive)
        range_satisfies(ctx, rep, prog, intervals.Env(prog))
        if rep.rules["R-SAT"]["failed"] == 0 and len(rep.inconclusive) == before:
            rep.notes.append("%s: Range::satisfies is outside the opaque-alternative abstraction (%s); decided by R-SAT on real "
                             "alternatives" % (rule, pending[0][0]))
        else:
            for reason, where in pending[:20]:
                rep.inconc("%s: %s" % (rule, reason), where)
