"""C02 — space-joined comparators intersect, `||` unites (DESIGN §5 C02)."""
import itertools

from .. import gram, setalg
from ..interp import (Adt, Cell, Clo, Ctx, Inconclusive, Interp, ListV, NONE, Panic, Policy, Ptr, Tok, is_some, some)
from ..report import path_sig
from .common import interval_table, set_table


def check(ctx, rep):
    prog = ctx.prog()
    g, problems = gram.extract(prog)
    for k, v in problems.items():
        rep.inconc("grammar extraction of %s: %s" % (k, v))
    fold_obligations(ctx, rep, prog, g)
    or_obligations(ctx, rep, prog, g)
    interval_table(ctx, rep, prog, "intersect", "T-INT", 1004,
                   "BoundSet::intersect is interval intersection (order independence of the fold)")


def _closure_of(g, fn):
    from ..desugar import top_map_closure
    return top_map_closure(g, fn)


def fold_obligations(ctx, rep, prog, g):
    """range(): the closure that folds the comparators of one alternative. Interpreted with comparator lists of
    length 0..3 (None = dropped token) over interval tokens of a free Boolean algebra: the result must denote the
    intersection of all comparators and never hold more than one interval."""
    rule = "T-FOLD"
    rep.rule(rule, 100, "the comparators of one alternative are folded to their intersection; when it is empty the "
                        "alternative holds nothing (never both operands)")
    clo = _closure_of(g, "range::range")
    if clo is None:
        rep.inconc("range::range has no folding closure")
        return
    maxn = 4 if ctx.thorough else 3
    total = 0
    for n in range(0, maxn + 1):
        for present in itertools.product((True, False), repeat=n):
            k = sum(present)
            for inh in (setalg.worlds(k) if k else [0]):
                total += 1
                world = setalg.SetWorld(k, inh)
                cx = Ctx()
                it = Interp(prog, Policy(), ctx=cx, overrides=setalg.overrides(world, cx))
                items = []
                gi = 0
                allden = (1 << (1 << k)) - 1 if k else 0
                for pr in present:
                    if pr:
                        items.append(some(setalg.stok("c%d" % gi, world.gen(gi))))
                        allden &= world.gen(gi)
                        gi += 1
                    else:
                        items.append(NONE)
                exp = allden & inh if k else 0
                cls = "comparators=%s world=%s" % ("".join("c" if p else "-" for p in present) or "none", bin(inh))
                try:
                    r = it.call_closure(clo, [ListV(items)])
                except Inconclusive as e:
                    rep.inconc("%s: %s" % (rule, e.reason), e.where)
                    continue
                except Panic as p:
                    rep.fail(rule, "%s|%s|panic %s" % (clo.key, rule, cls), "panics: %s" % p)
                    continue
                rep.path((rule, path_sig(it)))
                lst = it.strip(r)
                if not isinstance(lst, ListV):
                    rep.inconc("%s: fold closure returned %r" % (rule, lst))
                    continue
                den = 0
                for x in lst.items:
                    den |= it.strip(x).val
                den &= inh
                sp = it.ret_span.get(clo.key)
                where = prog.span_str(sp) if sp else None
                kind = None
                if den != exp:
                    kind = "widens" if den & ~exp else "narrows"
                    what = "the alternative admits element types %s, the intersection of its comparators is %s" % (bin(den), bin(exp))
                elif len(lst.items) > 1:
                    kind = "several-intervals"
                    what = "the alternative holds %d intervals" % len(lst.items)
                if kind is None:
                    rep.ok(rule)
                else:
                    rep.fail(rule, "%s|%s|n=%d %s" % (clo.key, rule, k, kind), what + " (%s)" % cls, where=where,
                             expected=bin(exp), actual=bin(den),
                             example=">=1.2.3 <1.0.0 parses to a union" if kind == "widens" else None)
                if total % 37 == 1:
                    rep.sample({"rule": rule, "class": cls, "extracted": bin(den), "reference": bin(exp)})
    rep.analysed_item("%s interpreted on %d (comparator list, world) cases" % (clo.key, total))


def or_obligations(ctx, rep, prog, g):
    rule = "T-OR"
    rep.rule(rule, 30, "`||`: bound_sets concatenates the alternatives; Range::satisfies is the OR of the alternatives")
    clo = _closure_of(g, "range::bound_sets")
    if clo is None:
        rep.inconc("range::bound_sets has no flattening closure")
    else:
        for lens in [()] + [l for n in (1, 2, 3) for l in itertools.product(range(0, 3), repeat=n)]:
            lists = []
            names = []
            c = 0
            for ln in lens:
                one = []
                for _ in range(ln):
                    one.append(Tok("S", "s%d" % c, 1 << c, dom="set"))
                    names.append("s%d" % c)
                    c += 1
                lists.append(ListV(one))
            it = Interp(prog, Policy())
            try:
                r = it.call_closure(clo, [ListV(lists)])
            except Inconclusive as e:
                rep.inconc("%s: %s" % (rule, e.reason), e.where)
                continue
            rep.path((rule, path_sig(it)))
            got = [getattr(it.strip(x), "name", "?") for x in it.strip(r).items]
            if got == names:
                rep.ok(rule)
            else:
                rep.fail(rule, "%s|%s|lengths=%s" % (clo.key, rule, lens), "alternatives %s became %s" % (names, got))
    n = 3 if not ctx.thorough else 4
    cnt = 0
    for k in range(1, n + 1):
        for inh in setalg.worlds(k):
            for r in setalg.run_satisfies(prog, k, inh):
                cnt += 1
                if "inconclusive" in r:
                    rep.inconc("%s: %s" % (rule, r["inconclusive"][0]), r["inconclusive"][1])
                elif r["problems"]:
                    rep.fail(rule, "range::Range::satisfies|%s|n=%d %s" % (rule, k, r["problems"][0][0]), r["problems"][0][1])
                else:
                    rep.ok(rule)
                    rep.path((rule, r.get("sig")))
    rep.analysed_item("range::Range::satisfies interpreted on %d (alternatives, world, probe) cases" % cnt)
