"""C05 — Version::parse accepts only whole well-formed version strings, faithfully (DESIGN §5 C05)."""
from collections import OrderedDict

from .. import errors as E, gram, peg
from ..interp import Clo, Inconclusive, Interp, Policy, Tok
from ..peg import diff, inter, union
from ..wmodels import FnClass
from .c18 import parser_wiring

REPS = list(range(0, 256)) + list(range(0x100, 0x200))


def char_class(prog, clo, rep):
    """evaluate a `|x: char| -> bool` closure on every abstract character"""
    out = set()
    unicode_pred = False
    for cp in REPS:
        it = Interp(prog, Policy())
        if isinstance(clo, FnClass):
            r = it.call_key(clo.key, [Tok("C", "x", cp, dom="char")])
        else:
            r = it.call_closure(clo, [Tok("C", "x", cp, dom="char")])
        if not isinstance(r, bool):
            raise Inconclusive("character class closure returned %r" % (r,))
        if any(e[0] == "unicode-pred" for e in it.events):
            unicode_pred = True
        if r:
            out.add(cp)
    if unicode_pred and not any(cp >= 0x80 for cp in out):
        # a Unicode-aware predicate that happens to reject every representative proves nothing about the classes
        raise Inconclusive("character class uses a Unicode-aware predicate; the abstraction cannot bound it")
    return out


def closures_in(g, root, seen=None, out=None):
    out = out if out is not None else []
    seen = seen if seen is not None else set()

    def visit(p, path):
        if p.kind in ("take_while", "take_till") and p.args and not isinstance(p.args[0], gram.P):
            out.append(p.args[0])
        if p.kind == "ref" and p.extra in g and p.extra not in seen:
            seen.add(p.extra)
            gram.walk(g[p.extra], visit)
    gram.walk(g[root], visit)
    return out


def literals_in(g, root):
    chars = set()
    seen = set()

    def visit(p, path):
        if p.kind == "lit":
            chars.update(p.extra)
        if p.kind == "ref" and p.extra in g and p.extra not in seen:
            seen.add(p.extra)
            gram.walk(g[p.extra], visit)
    gram.walk(g[root], visit)
    return chars


def alnum(cp):
    return 0x30 <= cp <= 0x39 or 0x41 <= cp <= 0x5A or 0x61 <= cp <= 0x7A


def build(prog, g, root="version", extra_chars="vV.-+"):
    """alphabet, PEG denotation of `root`, reference languages"""
    from .. import verifyre
    preds = OrderedDict()
    vnodes = []

    def vvisit(p, path, seen=set()):
        if p.kind == "verify":
            vnodes.append(p)
        if p.kind == "ref" and p.extra in g and p.extra not in seen:
            seen.add(p.extra)
            gram.walk(g[p.extra], vvisit)
    if root in g:
        gram.walk(g[root], vvisit)
    vpaths = []
    for node in vnodes:
        try:
            vpaths.append((node, verifyre.analyse(prog, node.extra)))
        except Inconclusive:
            pass                        # the denotation of this node stays inconclusive
    vchars = set()
    for _, paths in vpaths:
        vchars |= verifyre.pattern_chars(paths)
    for ch in sorted(literals_in(g, root) | set(extra_chars) | vchars):
        preds[("lit", ch)] = (lambda cp, ch=ch: cp == ord(ch))
    preds["digit"] = lambda cp: 0x30 <= cp <= 0x39
    preds["space"] = lambda cp: cp in (0x20, 0x09)
    preds["ref_ident"] = lambda cp: alnum(cp) or cp == 0x2D
    preds["ref_alnum"] = alnum
    classes_cp = {}
    for clo in closures_in(g, root):
        if isinstance(clo, (Clo, FnClass)):
            cps = char_class(prog, clo, REPS)
        else:                           # literal character set
            cps = set(clo.chars)
            if any(c >= 0x100 for c in cps):
                raise Inconclusive("character set with code points above U+00FF")
        classes_cp[clo.key] = cps
        preds[("closure", clo.key)] = (lambda cp, cps=cps: cp in cps)
    class_of, k, classes, reps = peg.build_alphabet(preds, REPS)
    L = peg.Lang(k)
    P = peg.Peg(L, g, classes)
    for node, paths in vpaths:
        try:
            P.verify_langs[id(node)] = verifyre.accepted_language(L, classes, class_of, paths)
        except Inconclusive:
            pass

    def vhook(node, i, j, w):
        if node.kind == "verify_map":
            raise Inconclusive("direct evaluator: verify_map() needs the concrete text")
        R = P.verify_langs.get(id(node))
        if R is None:
            raise Inconclusive("direct evaluator: verify() predicate without a regular language")
        return peg.dfa_accepts(R, w[i:j])
    peg.VERIFY_HOOK[0] = vhook
    return L, P, classes, reps, classes_cp, class_of


def references(L, classes):
    digit, ident, aln, sp = (L.sym(classes["digit"]), L.sym(classes["ref_ident"]), L.sym(classes["ref_alnum"]),
                             L.sym(classes["space"]))
    dot, dash, plus_ = L.sym(classes[("lit", ".")]), L.sym(classes[("lit", "-")]), L.sym(classes[("lit", "+")])
    vv = L.sym(classes[("lit", "v")] | classes[("lit", "V")])
    num = L.plus(digit)
    idt = L.plus(ident)
    ids = L.concat(idt, L.star(L.concat(dot, idt)))
    core = L.seq(num, dot, num, dot, num)
    canon = L.seq(core, L.opt(L.concat(dash, ids)), L.opt(L.concat(plus_, ids)))
    id0 = L.concat(aln, L.star(ident))
    pre_loose = union(L.concat(dash, ids), L.concat(id0, L.star(L.concat(dot, idt))))
    ws = L.star(sp)
    loose = L.seq(ws, L.opt(vv), ws, core, L.opt(pre_loose), L.opt(L.concat(plus_, ids)), ws)
    return canon, loose


def check(ctx, rep):
    prog = ctx.prog()
    g, problems = gram.extract(prog)
    for kx, v in problems.items():
        rep.inconc("grammar extraction of %s: %s" % (kx, v))
    if "version" not in g:
        rep.inconc("grammar function `version` not found")
        return
    language(ctx, rep, prog, g)
    ident_class(rep, prog, g)
    guards(rep, prog)
    parser_wiring(rep, prog, "T-PARSE-WIRING")
    if ctx.thorough or True:
        serde_delegation(ctx, rep)
    if ctx.thorough or rep.inconclusive:
        entry_text(ctx, rep, prog, g)


def entry_text(ctx, rep, prog, g):
    """Version::parse as a whole on representative texts (engine/entrytext.py): decides entry points that process the
    text themselves besides calling the grammar. Runs in the thorough tier, and in the quick tier when some rule of
    this check could not be decided."""
    from .. import entrytext
    rule = "T-ENTRY-TEXT"
    maxlen = 7        # `0.0.0+0`, the shortest text with build metadata, has seven characters
    rep.rule(rule, 0, "Version::parse on every word over 8 character classes up to length %d (two dots required beyond 5): Ok "
                      "implies the loose reference language, the canonical language implies Ok" % maxlen)
    try:
        L, P, classes, reps, classes_cp, class_of = build(prog, g)
        canon, loose = references(L, classes)
        rows = entrytext.table(prog, g, classes, class_of, maxlen)
    except (Inconclusive, KeyError) as e:
        rep.inconc("%s: %s" % (rule, e))
        return
    bad = inc = 0
    for word, st, detail, sig in rows:
        rep.path((rule, sig))
        if st == "inconclusive":
            inc += 1
            if inc <= 2:
                rep.inconc("%s: %s" % (rule, detail[0]), detail[1])
            continue
        if st == "panic":
            rep.fail(rule, "Version::parse|%s|panic" % rule, "Version::parse(%r) panics: %s" % (word, detail), example=word)
            continue
        w = [class_of[ord(ch)] for ch in word]
        in_loose, in_canon = peg.dfa_accepts(loose, w), peg.dfa_accepts(canon, w)
        if st == "ok" and not in_loose:
            bad += 1
            if bad <= 3:
                rep.fail(rule, "Version::parse|%s|accepts a string outside the loose language" % rule,
                         "Version::parse(%r) is Ok although the text is outside `ws* v? ws* core pre? build? ws*`" % word, example=word)
        elif st == "err" and in_canon:
            bad += 1
            if bad <= 3:
                rep.fail(rule, "Version::parse|%s|rejects a canonical string" % rule,
                         "Version::parse(%r) fails although the text is a canonical version" % word, example=word)
        elif st == "ok" and detail is not None and _strict.match(word) and detail != _reference_fields(word):
            # the entry point built this Version itself (a fast path): its fields must be what the grammar yields for the text
            bad += 1
            if bad <= 3:
                rep.fail(rule, "Version::parse|%s|fields differ from the grammar's" % rule,
                         "Version::parse(%r) builds %r itself; the grammar yields %r" % (word, detail, _reference_fields(word)),
                         example=word)
        else:
            rep.ok(rule)
    rep.analysed_item("Version::parse interpreted on %d representative texts (length <= %d), grammar answered by the extracted PEG" % (len(rows), maxlen))


import re as _re

_strict = _re.compile(r"^(0|[1-9][0-9]*)\.(0|[1-9][0-9]*)\.(0|[1-9][0-9]*)(-[0-9A-Za-z-]+(\.[0-9A-Za-z-]+)*)?(\+[0-9A-Za-z-]+(\.[0-9A-Za-z-]+)*)?$")


def _reference_fields(word):
    """the fields the grammar yields for a strictly canonical version text: identifiers made of digits only (that fit a
    u64) are Numeric, all others AlphaNumeric"""
    core, build = (word.split("+", 1) + [""])[:2] if "+" in word else (word, "")
    nums, pre = (core.split("-", 1) + [""])[:2] if "-" in core else (core, "")

    def ids(text):
        out = []
        for t in (text.split(".") if text else []):
            out.append(("n", int(t)) if t.isdigit() and int(t) < (1 << 64) else ("s", t))
        return tuple(out)
    a, b, c = nums.split(".")
    return (int(a), int(b), int(c), ids(pre), ids(build))


def entry_consumes_all(prog):
    """does Version::parse itself insist on an empty remainder (beyond what the grammar does)?"""
    key = "Version::parse"
    body = prog.bodies.get(key)
    if body is None:
        return False
    from .. import flow
    for bb in body["blocks"]:
        c = flow.callee_of(bb["term"])
        if c is not None:
            k = flow.callee_key(c)
            if k.endswith("winnow::Parser::parse") or k.endswith("::parse") and "winnow::Parser" in k:
                return True
    return False


def language(ctx, rep, prog, g):
    rep.rule("L-INCLUSION", 2, "L_canon <= L(Version::parse) <= L_loose on the automaton compiled from the extracted winnow grammar")
    try:
        L, P, classes, reps, classes_cp, class_of = build(prog, g)
        M, F = P.den(g["version"])
    except Inconclusive as e:
        rep.inconc("language: " + e.reason, e.where)
        return
    whole = entry_consumes_all(prog)
    if whole:
        lang = L.consumed_whole(M)
        rep.notes.append("Version::parse applies the grammar with Parser::parse (whole input)")
    else:
        lang = diff(L.sigma_star(), F)
        rep.notes.append("Version::parse applies the grammar with parse_next: it accepts every input on which `version` succeeds")
    canon, loose = references(L, classes)
    for c in range(L.k):
        rep.path(("class", c))
    for q in range(lang.n):
        rep.path(("state", q))
    crosscheck(ctx, rep, g, L, classes, reps, lang, M, whole)
    rep.analysed_item("grammar reachable from `version` compiled to automata: alphabet of %d character classes, M(version) %d states, "
                      "F(version) %d states, accepted language %d states" % (L.k, M.n, F.n, lang.n))
    rep.sample({"rule": "grammar", "version": gram.show_p(g["version"]), "extras": gram.show_p(g.get("extras")) if g.get("extras") else None})
    w = diff(canon, lang).witness()
    if w is None:
        rep.ok("L-INCLUSION")
    else:
        rep.fail("L-INCLUSION", "Version::parse|L-INCLUSION|canonical string rejected",
                 "a string of the canonical shape is not accepted (shortest: %r)" % L.word_str(w, reps), example=L.word_str(w, reps))
    w = diff(lang, loose).witness()
    if w is None:
        rep.ok("L-INCLUSION")
    else:
        s = L.word_str(w, reps)
        # classify the shortest counterexample for a stable key
        kind = "trailing or embedded junk accepted"
        if any(ord(ch) > 0x7F for ch in s if len(ch) == 1):
            kind = "non-ASCII character accepted"
        rep.fail("L-INCLUSION", "Version::parse|L-INCLUSION|%s" % kind,
                 "an input outside `ws* v? ws* core pre? build? ws*` is accepted (shortest: %r)" % s, example=s)
    # end of input: every accepted string must be consumed to its end (apart from trailing blanks)
    rep.rule("L-EOF", 1, "no accepted input has unconsumed text: whenever `version` succeeds on uv consuming u, v is empty")
    leftover = inter(M, L.seq(L.sigma_star(), L.mark(), L.sym(range(L.k)), L.sigma_star()))
    if whole:
        rep.ok("L-EOF")
    else:
        w = leftover.witness()
        if w is None:
            rep.ok("L-EOF")
        else:
            rep.fail("L-EOF", "Version::parse|L-EOF|Ok without end-of-input check",
                     "the grammar succeeds leaving input unconsumed and the entry point accepts that (shortest, # marks the end of "
                     "the match: %r)" % L.word_str(w, reps), example=L.word_str(w, reps).replace("#", ""))


def crosscheck(ctx, rep, g, L, classes, reps, lang, M, whole):
    """the automaton of the accepted language agrees with a direct evaluation of the extracted PEG on every word
    `d.d.d` + suffix (and a few prefixes) up to a length bound — a consistency check of the M/F constructions"""
    import itertools
    rule = "PEG-CROSSCHECK"
    n = 5 if ctx.thorough else 3
    rep.rule(rule, 1000, "automaton vs direct PEG evaluation of the extracted grammar on enumerated class words")
    one = lambda name: sorted(classes[name])[0]
    d, dot = one("digit"), one(("lit", "."))
    core = [d, dot, d, dot, d]
    prefixes = [[], [one(("lit", "v"))], [one("space")], [one(("lit", "v")), one("space")], [one("space"), one(("lit", "V"))]]
    bad = 0
    total = 0
    syms = list(range(L.k))
    for pre in prefixes:
        for ln in range(0, n + 1):
            for suf in itertools.product(syms, repeat=ln):
                w = pre + core + list(suf)
                j = peg.eval_peg(g, classes, g["version"], w, 0)
                direct = (j == len(w)) if whole else (j is not None)
                auto = peg.dfa_accepts(lang, w)
                total += 1
                if direct != auto:
                    bad += 1
                    if bad <= 3:
                        rep.fail(rule, "engine/peg.py|%s|%s" % (rule, L.word_str(w, reps)),
                                 "automaton says %s, direct evaluation says %s for %r" % (auto, direct, L.word_str(w, reps)))
    rep.ok(rule, total - bad)
    rep.notes.append("PEG cross-check: %d words, %d disagreements" % (total, bad))


def ident_class(rep, prog, g):
    rep.rule("IDENT-CLASS", 1, "the identifier character class is exactly [0-9A-Za-z-] (in particular ASCII only)")
    clos = closures_in(g, "identifier") if "identifier" in g else []
    if not clos:
        rep.inconc("identifier() has no character-class closure")
        return
    for clo in clos:
        try:
            cps = char_class(prog, clo, REPS) if isinstance(clo, (Clo, FnClass)) else set(clo.chars)
        except Inconclusive as e:
            rep.inconc("identifier class: " + e.reason, e.where)
            continue
        want = set(cp for cp in REPS if alnum(cp) or cp == 0x2D)
        extra = sorted(cps - want)
        missing = sorted(want - cps)
        if not extra and not missing:
            rep.ok("IDENT-CLASS")
        else:
            if extra:
                kind = "non-ASCII with alnum low byte" if all(cp >= 0x100 for cp in extra) else "extra characters"
                ex = "1.2.3-ı (U+0131, low byte 0x31)" if kind.startswith("non-ASCII") else "1.2.3-%s" % "".join(chr(c) for c in extra[:3])
                rep.fail("IDENT-CLASS", "%s|IDENT-CLASS|%s" % (clo.key, kind),
                         "identifier class admits %d abstract characters outside [0-9A-Za-z-], e.g. code points with low byte %s "
                         "and high bits set" % (len(extra), hex(extra[0] & 0xFF)), example=ex)
            if missing:
                rep.fail("IDENT-CLASS", "%s|IDENT-CLASS|missing characters" % clo.key,
                         "identifier class lacks %s" % "".join(chr(c) for c in missing[:10]))
    rep.analysed_item("identifier class closure evaluated on 512 abstract characters (all bytes x high-bits-zero/non-zero)")


def guards(rep, prog):
    rep.rule("GUARD-NUMBER", 4, "number(): Ok(v) iff v <= MAX_SAFE_INTEGER, value returned unchanged")
    try:
        rows = E.number_table(prog)
    except Inconclusive as e:
        rep.inconc("number(): " + e.reason, e.where)
        rows = []
    mx = prog.consts.get("MAX_SAFE_INTEGER")
    if any(r["status"] == "inconclusive" for r in rows):
        # number() handles the digits itself: witness search on concrete digit strings around the bounds
        rep.rule("GUARD-NUMBER-WITNESS", 0, "number() on concrete digit strings (small, 14-16 digits, MAX_SAFE_INTEGER and its "
                                            "neighbours, around u64::MAX, leading zeros)")
        try:
            bad, ran = E.number_witness(prog)
            for text, exp, got in bad[:3]:
                cls_ = "rejects a valid component" if exp[0] == "ok" else ("accepts an oversized component" if got and got[0] == "ok" else "wrong error")
                rep.fail("GUARD-NUMBER-WITNESS", "number|GUARD-NUMBER-WITNESS|%s" % cls_,
                         "number() on %r gives %r, expected %r" % (text, got, exp), example="%s.0.0" % text)
            rep.ok("GUARD-NUMBER-WITNESS", max(0, ran - len(bad)))
            rep.analysed_item("number() interpreted on %d concrete digit strings, %d mismatches" % (ran, len(bad)))
        except Inconclusive as e:
            rep.inconc("GUARD-NUMBER-WITNESS: " + e.reason, e.where)
    for r in rows:
        cls = "parse=%s %s" % (r["parse"], "" if r["parse"] == "err" else ("v<=MAX" + ("(=)" if r["value"] == mx else "") if r["value"] <= mx else "v>MAX"))
        if r["status"] != "ok":
            if r["status"] == "inconclusive":
                rep.inconc("number(): " + r["error"].reason, r["error"].where)
            else:
                rep.fail("GUARD-NUMBER", "number|GUARD|panic %s" % cls, "panics: %s" % r["panic"])
            continue
        d = E.decode_number(prog, r["interp"], r["result"])
        accept = r["parse"] == "ok" and r["value"] <= mx
        if (d[0] == "ok") == accept and (d[0] != "ok" or (getattr(d[1], "name", None) == "value" and d[1].off == 0)):
            rep.ok("GUARD-NUMBER")
        else:
            rep.fail("GUARD-NUMBER", "number|GUARD|%s" % cls, "number() returns %s" % (d,))
    rep.rule("GUARD-LENGTH", 2, "Version::parse — and <Version as FromStr>::from_str, the entry point of str::parse and serde — reject "
                                "inputs longer than MAX_LENGTH before parsing and parse all others")
    maxlen = prog.consts.get("MAX_LENGTH", 256)
    for key in ("Version::parse", "<Version as std::str::FromStr>::from_str"):
        if not prog.has_body(key):
            if key == "Version::parse":
                rep.inconc("Version::parse not found")
            continue
        try:
            rows = E.entry_table(prog, key)
        except Inconclusive as e:
            rep.inconc("%s: %s" % (key, e.reason), e.where)
            continue
        seen = {}
        bad = [r for r in rows if r["status"] == "inconclusive"]
        if bad:
            rep.inconc("%s: %s" % (key, bad[0]["error"].reason), bad[0]["error"].where)
            continue
        for r in rows:
            if r["status"] != "ok":
                continue
            long = r["len"] > maxlen
            parsed = bool(r["parse_calls"])
            seen.setdefault(long, set()).add(parsed)
        if seen.get(True) == {False}:
            rep.ok("GUARD-LENGTH")
        else:
            rep.fail("GUARD-LENGTH", "%s|GUARD-LENGTH|over-long input parsed" % key, "inputs longer than MAX_LENGTH reach the grammar through %s" % key,
                     example="a 257-byte version through str::parse::<Version>() / serde" if "FromStr" in key else None)
        if seen.get(False) == {True}:
            rep.ok("GUARD-LENGTH")
        else:
            rep.fail("GUARD-LENGTH", "%s|GUARD-LENGTH|short input rejected" % key, "inputs of length <= MAX_LENGTH do not all reach the grammar through %s" % key)


def serde_delegation(ctx, rep):
    """feature serde: Deserialize for Version goes through str::parse -> FromStr -> Version::parse"""
    rep.rule("SERDE-VERSION", 2, "serde: Deserialize for Version = String then str::parse (FromStr -> Version::parse); Serialize = collect_str(Display)")
    try:
        prog = ctx.prog(features=("serde",))
    except Exception as e:
        rep.inconc("serde configuration cannot be analysed: %s" % str(e)[:300])
        return
    from .. import flow
    de = [k for k in prog.bodies if "Deserialize" in k and "Version" in k and k.endswith("::deserialize")]
    se = [k for k in prog.bodies if "Serialize" in k and "for Version" in k.replace("<Version as", "for Version") and k.endswith("::serialize")]
    se = [k for k in prog.bodies if k.endswith("::serialize") and "Version" in k]
    ok_de = bool(de) and all(flow.delegates_to_parse(prog, k, "<Version as std::str::FromStr>::from_str", "Version::parse") for k in de)
    for k in de:
        if flow.deserializes_borrowed_str(prog, k):
            ok_de = False
            rep.fail("SERDE-VERSION", "Deserialize for Version|SERDE|borrowed str", "Deserialize takes the text as a borrowed `&str`: it fails "
                     "whenever the deserializer cannot lend the string (readers, serde_json::Value, escaped text)")
    if ok_de:
        rep.ok("SERDE-VERSION")
    else:
        rep.fail("SERDE-VERSION", "Deserialize for Version|SERDE|delegation", "Deserialize does not go through str::parse / FromStr / Version::parse (found %s)" % de)
    ok_se = bool(se) and all(any("collect_str" in c for c in flow.reach_callees(prog, k)[0]) for k in se)
    if ok_se:
        rep.ok("SERDE-VERSION")
    else:
        rep.fail("SERDE-VERSION", "Serialize for Version|SERDE|delegation", "Serialize does not use collect_str(self) (found %s)" % se)
    rep.analysed_item("serde feature: %s, %s" % (de, se))
