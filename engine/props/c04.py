"""C04 — Version precedence is the SemVer total order; Eq, Ord, Hash agree (DESIGN §5 C04)."""
from .. import versions as V
from ..interp import Adt, Cell, Clo, Inconclusive, Interp, Panic, Policy, Ptr, StrV, Tok, explore, is_some, ordering_to_int
from ..report import path_sig

CMP = "<Version as std::cmp::Ord>::cmp"
PCMP = "<Version as std::cmp::PartialOrd>::partial_cmp"
EQ = "<Version as std::cmp::PartialEq>::eq"


def check(ctx, rep):
    prog = ctx.prog()
    rep.rule("T-CMP-V", 648, "Version::cmp equals SemVer 2.0.0 §11 precedence on every class of field/identifier-list orderings")
    rep.rule("T-EQ-V", 648, "Version::eq is true exactly when cmp is Equal (build ignored)")
    rep.rule("T-PCMP-V", 648, "partial_cmp = Some(cmp)")
    rep.rule("T-HASH-V", 6, "equal versions feed identical data to the hasher (hash reads a subset of what eq compares)")
    n = 0
    # a function that walks or slices the identifier lists (instead of comparing them whole) is outside the list-token
    # abstraction: for it the table is rebuilt on structured lists (real lists of numeric identifier tokens)
    structured = set()
    for key in (CMP, PCMP, EQ):
        for a, b in (V.LIST2[3], V.LIST2[6]):
            wa = ({"major": 0, "minor": 0, "patch": 0}, a, ())
            wb = ({"major": 0, "minor": 0, "patch": 0}, b, ())
            if V.run2(prog, key, wa, wb, retry_structured=False)[0] == "inconclusive":
                structured.add(key)
    for key in sorted(structured):
        rep.analysed_item("%s walks the identifier lists: checked on structured lists (%d list pairs)" % (key, len(V.LISTS_S) ** 2))
    worlds = [(a, b, False) for a, b in V.two_version_worlds()]
    if structured:
        worlds += [(a, b, True) for a, b in V.two_version_worlds_structured()]
    for a, b, struct in worlds:
        n += 1
        w = V.world_str_structured(a, b) if struct else V.world_str(a, b)
        ex = "%s vs %s" % (V.example_version(a), V.example_version(b))
        exp = V.ref_cmp(a, b)
        for key, rule in ((CMP, "T-CMP-V"), (PCMP, "T-PCMP-V"), (EQ, "T-EQ-V")):
            if (key in structured) != struct:
                continue
            st, r, it = V.run2(prog, key, a, b, structured=struct, retry_structured=False)
            rep.path((rule, path_sig(it)))
            if st == "inconclusive":
                rep.inconc("%s: %s" % (rule, r.reason), r.where)
                continue
            if st == "panic":
                rep.fail(rule, "%s|%s|%s panic" % (key, rule, w), "panics: %s" % r, example=ex)
                continue
            sp = it.ret_span.get(key)
            where = prog.span_str(sp) if sp else None
            if key == CMP:
                got = ordering_to_int(r)
            elif key == PCMP:
                got = ordering_to_int(r.fields[0]) if is_some(r) else None
            else:
                got = r
                exp_eq = exp == 0
                if got == exp_eq:
                    rep.ok(rule)
                else:
                    rep.fail(rule, "%s|%s|%s" % (key, rule, w), "eq answered %s but precedence is %s" % (got, _o(exp)),
                             where=where, expected=exp_eq, actual=got, example=ex)
                continue
            if got == exp:
                rep.ok(rule)
            else:
                rep.fail(rule, "%s|%s|%s" % (key, rule, w), "ordering %s, SemVer precedence says %s" % (_o(got), _o(exp)),
                         where=where, expected=_o(exp), actual=_o(got), example=ex)
        if exp == 0 and not struct:
            sa, fa, ia = V.run_hash(prog, a)
            sb, fb, ib = V.run_hash(prog, b)
            if sa != "ok" or sb != "ok":
                e = fa if sa != "ok" else fb
                rep.inconc("T-HASH-V: %s" % e.reason, e.where)
            else:
                ra = [(x.name.split(".", 1)[1], x.val) if isinstance(x, Tok) else repr(x) for x in fa]
                rb = [(x.name.split(".", 1)[1], x.val) if isinstance(x, Tok) else repr(x) for x in fb]
                rep.path(("T-HASH-V", path_sig(ia)))
                if ra == rb:
                    rep.ok("T-HASH-V")
                else:
                    rep.fail("T-HASH-V", "<Version as std::hash::Hash>::hash|T-HASH-V|%s" % w,
                             "versions equal under == feed different data to the hasher: %r vs %r" % (ra, rb), example=ex)
        if n % 97 == 1:
            rep.sample({"rule": "T-CMP-V", "world": w, "reference": _o(exp), "example": ex})
    rep.analysed_item("%s, %s, %s, <Version as Hash>::hash interpreted on %d worlds" % (CMP, PCMP, EQ, n))
    if rep.inconclusive:
        witness(rep, prog)
    identifier(ctx, rep, prog)
    classification(ctx, rep, prog)


def _o(n):
    return {-1: "Less", 0: "Equal", 1: "Greater", None: "None"}[n]


def identifier(ctx, rep, prog):
    """derived Ord/PartialOrd/PartialEq of Identifier: numeric < alphanumeric, numerics by value, alphanumerics by
    string (byte) order"""
    ID = "Identifier"
    rep.rule("T-IDENT", 24, "Identifier ordering: Numeric < AlphaNumeric, numerics by value, alphanumerics bytewise")
    ad = prog.adts[ID]
    names = [v["name"] for v in ad["variants"]]
    NUM, ALPHA = names.index("Numeric"), names.index("AlphaNumeric")

    def mk(kind, val):
        if kind == "n":
            return Adt(ID, NUM, (Tok("I", "n", val, dom="ident-num"),))
        return Adt(ID, ALPHA, (Tok("T", "s", val, dom="ident-str"),))
    cases = []
    for x, y in ((0, 0), (0, 1), (1, 0)):
        cases.append((("n", x), ("n", y), (x > y) - (x < y)))
        cases.append((("a", x), ("a", y), (x > y) - (x < y)))
    cases.append((("n", 1), ("a", 0), -1))
    cases.append((("a", 0), ("n", 1), 1))
    keys = [("<Identifier as std::cmp::Ord>::cmp", "cmp"), ("<Identifier as std::cmp::PartialOrd>::partial_cmp", "pcmp"),
            ("<Identifier as std::cmp::PartialEq>::eq", "eq")]
    for key, kind in keys:
        if not prog.has_body(key):
            rep.fail("T-IDENT", "Identifier|T-IDENT|missing %s" % key, "Identifier does not implement %s" % key)
            continue
        for a, b, exp in cases:
            def run(cx, a=a, b=b):
                it = Interp(prog, Policy(), ctx=cx)
                try:
                    return ("ok", it.call_body(key, [Ptr(Cell(mk(*a))), Ptr(Cell(mk(*b)))]), it)
                except Inconclusive as e:
                    return ("inconclusive", e, it)
            for cx, (st, r, it) in explore(run, limit=64):
                if st == "inconclusive":
                    rep.inconc("T-IDENT: " + r.reason, r.where)
                    continue
                rep.path(("T-IDENT", path_sig(it)))
                note = " (one of the realisable text orders)" if cx.decisions else ""
                if kind == "cmp":
                    got = ordering_to_int(r)
                elif kind == "pcmp":
                    got = ordering_to_int(r.fields[0]) if is_some(r) else None
                else:
                    got, exp2 = r, (exp == 0)
                    if got == exp2:
                        rep.ok("T-IDENT")
                    else:
                        rep.fail("T-IDENT", "%s|T-IDENT|%s,%s" % (key, a, b), "eq = %s%s" % (got, note))
                    continue
                if got == exp:
                    rep.ok("T-IDENT")
                else:
                    rep.fail("T-IDENT", "%s|T-IDENT|%s,%s" % (key, a, b), "ordering %s, expected %s%s" % (_o(got), _o(exp), note),
                             example="1.0.0-rc.3 vs 1.0.0-rc.2-migration" if a[0] != b[0] else None)
    rep.analysed_item("derived Ord/PartialOrd/PartialEq of Identifier interpreted on 8 variant/order classes each")
    # class representatives of identifier spellings (letter case, digit runs inside tags, digit-led tags, hyphen): the
    # order must be numeric < alphanumeric, numerics by value, alphanumerics by bytes — and eq exactly when cmp is Equal
    from ..interp import StrV
    nums = [0, 1, 2, 10]
    strs = ["a", "A", "B", "alpha", "ALPHA", "rc9", "rc10", "1a", "-", "9-1", "10-1", "0-", "-1"]
    items = [("n", x) for x in nums] + [("s", x) for x in strs]

    def mkc(kind, val):
        return Adt(ID, NUM, (val,)) if kind == "n" else Adt(ID, ALPHA, (StrV(val),))

    def ref(a, b):
        if a[0] != b[0]:
            return -1 if a[0] == "n" else 1
        if a[0] == "n":
            return (a[1] > b[1]) - (a[1] < b[1])
        x, y = a[1].encode(), b[1].encode()
        return (x > y) - (x < y)
    cmp_key = "<Identifier as std::cmp::Ord>::cmp"
    eq_key = "<Identifier as std::cmp::PartialEq>::eq"
    if prog.has_body(cmp_key) and prog.has_body(eq_key):
        from ..models import concrete_u64_parse
        bad = 0
        seen_inc = set()
        # digit-only texts too large for u64 stay alphanumeric in this crate; how two of them compare is not judged against
        # the byte order here (SemVer reads them as numbers) — they only take part in the order axioms below
        oversized = [("s", "99999999999999999999"), ("s", "100000000000000000000"), ("s", "18446744073709551616"),
                     ("s", "5x"), ("s", "2x")]
        matrix = {}
        for a in items + oversized:
            for b in items + oversized:
                out = {}
                for key in (cmp_key, eq_key):
                    pol = Policy()
                    pol.str_parse = concrete_u64_parse
                    it = Interp(prog, pol)
                    try:
                        out[key] = it.call_body(key, [Ptr(Cell(mkc(*a))), Ptr(Cell(mkc(*b)))])
                    except Inconclusive as e:
                        if e.reason not in seen_inc:
                            seen_inc.add(e.reason)
                            rep.inconc("T-IDENT (representatives): " + e.reason, e.where)
                        out = None
                        break
                if out is None:
                    continue
                got, geq = ordering_to_int(out[cmp_key]), out[eq_key]
                matrix[(a, b)] = got
                exp = ref(a, b)
                if a in oversized and b in oversized and a[1].isdigit() and b[1].isdigit():
                    exp = got if geq == (got == 0) else exp
                if got == exp and geq == (exp == 0):
                    rep.ok("T-IDENT")
                else:
                    bad += 1
                    if bad <= 3:
                        what = "ordering %s, expected %s" % (_o(got), _o(exp)) if got != exp else \
                            "cmp says %s but == says %s" % (_o(got), geq)
                        rep.fail("T-IDENT", "%s|T-IDENT|representatives: %s" % (cmp_key, "order" if got != exp else "eq and cmp disagree"),
                                 "identifiers %r and %r: %s" % (a[1], b[1], what), example="1.0.0-%s vs 1.0.0-%s" % (a[1], b[1]))
        # order axioms on what the implementation itself answered: antisymmetry and transitivity (a cycle makes sort, max and
        # every range comparison depend on the order of evaluation, whatever the intended order of the members is)
        allitems = [x for x in items + oversized if (x, x) in matrix]
        cyc = 0
        for a in allitems:
            for b in allitems:
                if (a, b) not in matrix or (b, a) not in matrix:
                    continue
                if matrix[(a, b)] != -matrix[(b, a)]:
                    cyc += 1
                    if cyc <= 2:
                        rep.fail("T-IDENT", "%s|T-IDENT|representatives: not antisymmetric" % cmp_key,
                                 "cmp(%r, %r) = %s but cmp(%r, %r) = %s" % (a[1], b[1], _o(matrix[(a, b)]), b[1], a[1], _o(matrix[(b, a)])),
                                 example="1.0.0-%s vs 1.0.0-%s" % (a[1], b[1]))
                    continue
                if matrix[(a, b)] >= 0:
                    continue
                for c in allitems:
                    if matrix.get((b, c), 0) < 0 and (a, c) in matrix and matrix[(a, c)] >= 0:
                        cyc += 1
                        if cyc <= 2:
                            rep.fail("T-IDENT", "%s|T-IDENT|representatives: not transitive" % cmp_key,
                                     "%r < %r and %r < %r but cmp(%r, %r) = %s" % (a[1], b[1], b[1], c[1], a[1], c[1], _o(matrix[(a, c)])),
                                     example="1.0.0-%s < 1.0.0-%s < 1.0.0-%s" % (a[1], b[1], c[1]))
                    else:
                        rep.ok("T-IDENT")
        rep.analysed_item("Identifier cmp / eq on %d x %d concrete class representatives; order axioms on %d (with digit-only texts "
                          "beyond u64)" % (len(items), len(items), len(allitems)))


def _returns_identifier(prog, fn):
    from ..interp import FnV
    key = fn.key if isinstance(fn, Clo) else (fn.key() if isinstance(fn, FnV) else None)
    if key is None or not prog.has_body(key):
        return None
    return key if prog.ty_str(prog.body(key)["locals"][0]) == "Identifier" else None


def identifier_maps(prog, g, root="version"):
    """every `map` node of the grammar under `root` whose function returns an Identifier: (node, function key, owner)"""
    from .. import gram
    out, seen = [], set()

    def visit(p, path, owner):
        if p.kind == "map" and _returns_identifier(prog, p.extra):
            out.append((p, _returns_identifier(prog, p.extra), owner))
        if p.kind == "ref" and p.extra in g and p.extra not in seen:
            seen.add(p.extra)
            gram.walk(g[p.extra], lambda q, pa, o=p.extra: visit(q, pa, o))
    if root in g:
        gram.walk(g[root], lambda q, pa: visit(q, pa, root))
    return out


def _text_class(text):
    if text.isdigit():
        if len(text) > 1 and text[0] == "0":
            return "zero-led number"
        return "zero" if text == "0" else ("digit" if len(text) == 1 else "digits")
    if text[0].isdigit():
        return "digit then letter"
    return "hyphen" if set(text) == {"-"} else ("hyphen then digits" if text[0] == "-" else "letters")


def _classify_concrete(prog, fn, text):
    from ..interp import StrV
    from ..models import concrete_u64_parse
    pol = Policy()
    pol.str_parse = concrete_u64_parse
    it = Interp(prog, pol)
    r = it.call_closure(fn, [Ptr(Cell(StrV(text)))]) if isinstance(fn, Clo) else it.call_key(fn.key(), [Ptr(Cell(StrV(text)))])
    names = [v["name"] for v in prog.adts["Identifier"]["variants"]]
    numeric = text.isdigit() and int(text) < (1 << 64)
    good = False
    if isinstance(r, Adt) and r.name == "Identifier":
        vn = names[r.variant]
        p0 = it.strip(r.fields[0])
        if numeric:
            good = vn == "Numeric" and p0 == int(text)
        else:
            good = vn == "AlphaNumeric" and isinstance(p0, StrV) and p0.s == text
    return good, r, it


def classification(ctx, rep, prog):
    """identifier::{closure#1}: digits that fit u64 become Numeric, everything else AlphaNumeric(text)"""
    rep.rule("T-CLASSIFY", 2, "identifier text that parses as u64 becomes Numeric(n), anything else AlphaNumeric(text)")
    # the classification is the function mapped over the identifier text in the extracted grammar
    from .. import gram
    g, _ = gram.extract(prog)
    maps = identifier_maps(prog, g)
    if not maps:
        rep.inconc("T-CLASSIFY: no `<text parser>.map(<classification>)` with an Identifier result in the extracted grammar of "
                   "version (identifier = %r)" % (g.get("identifier"),))
        return
    for node, key, owner in maps:
        fails, pending = _classify_one(ctx, rep, prog, node.extra, key)
        if fails:
            # a function that is wrong on a class of texts matters only if such a text can reach it (it may stand behind
            # another parser that takes those texts first). Decided on words: the grammar is evaluated on version texts
            # that carry the failing representative, and on all short ones, and the function is run on what its node
            # matched.
            _reachable_misclassification(rep, prog, g, node, key, fails, single=(len(maps) == 1))
        for reason, where in pending:
            rep.inconc(reason, where)
    rep.analysed_item("%d classification function(s) of the version grammar (%s) interpreted with str::parse stubbed to "
                      "Ok(n) / Err and on concrete representative texts" % (len(maps), ", ".join(k for _, k, _ in maps)))


def _reachable_misclassification(rep, prog, g, node, key, fails, single=False):
    import itertools
    from .. import peg
    from ..interp import StrV, is_some
    from ..models import concrete_u64_parse
    from .c05 import build
    try:
        L, P, classes, reps, classes_cp, class_of = build(prog, g)
    except Inconclusive as e:
        if single:
            for k, what, ex in fails:
                rep.fail("T-CLASSIFY", k, what, example=ex)
            return
        rep.inconc("T-CLASSIFY: %s is wrong on some texts (%s) and the grammar has no word-level evaluation: %s" % (
            key, fails[0][1], e.reason), e.where)
        return
    memo, found = {}, {}
    alphabet = "10a-.+"
    n = 0
    # the failing representatives in every position an identifier can stand in, then all short suffixes
    words = []
    for k_, what_, ex_ in fails:
        if ex_ and ex_.startswith("1.0.0-"):
            t = ex_[len("1.0.0-"):]
            words += ["1.1.1-" + t, "1.1.1-a." + t, "1.1.1+" + t, "1.1.1+a." + t, "1.1.1" + t, "1.1.1a." + t, "1.1.1-" + t + ".a"]
    for ln in range(1, 6):
        for suffix in itertools.product(alphabet, repeat=ln):
            words.append("1.1.1" + "".join(suffix))
    state = {"word": ""}

    def hook(p_, a, b, _w):
        # verify / verify_map predicates on the concrete text of the word
        pol = Policy()
        pol.str_parse = concrete_u64_parse
        it_ = Interp(prog, pol)
        r_ = it_.call_value(p_.extra, [Ptr(Cell(StrV(state["word"][a:b])))])
        if p_.kind == "verify_map":
            return is_some(r_)
        if not isinstance(r_, bool):
            raise Inconclusive("verify() predicate answered %r" % (r_,))
        return r_
    saved = peg.VERIFY_HOOK[0]
    peg.VERIFY_HOOK[0] = hook
    try:
        _scan_words(rep, prog, g, classes, class_of, node, words, state, memo, found)
    except Inconclusive as e:
        rep.inconc("T-CLASSIFY: word-level evaluation: %s" % e.reason, e.where)
        return
    except KeyError as e:
        rep.inconc("T-CLASSIFY: word-level evaluation: grammar function %s was not extracted" % e)
        return
    finally:
        peg.VERIFY_HOOK[0] = saved
    n = state.get("n", 0)
    abstract_only = [f for f in fails if not f[2]]
    for cls, (text, val, word) in sorted(found.items()):
        rep.fail("T-CLASSIFY", "%s|T-CLASSIFY|text class: %s" % (key, cls),
                 "identifier text %r (in %r) is classified as %r" % (text, word, val), example=word)
    concrete_fails = [f for f in fails if f[2]]
    if abstract_only and single and not found and not concrete_fails:
        for k, what, ex in abstract_only:
            rep.fail("T-CLASSIFY", k, what, example=ex)
        return
    if not found:
        rep.notes.append("T-CLASSIFY: %s is wrong on some texts (%s) but no version text examined brings such a text to it "
                         "(%d parseable words)" % (key, fails[0][1], n))
        rep.ok("T-CLASSIFY")


def _scan_words(rep, prog, g, classes, class_of, node, words, state, memo, found):
    from .. import peg
    n = 0
    if True:
        for word in words:
            state["word"] = word
            if any(ord(ch) not in class_of for ch in word):
                continue
            w = [class_of[ord(ch)] for ch in word]
            r = peg.eval_peg_trace(g, classes, g["version"], w, 0, {id(node)})
            if r is None or r[0] != len(w):
                continue
            n += 1
            for _, a, b in r[1]:
                text = word[a:b]
                if not text:
                    continue
                if text not in memo:
                    try:
                        memo[text] = _classify_concrete(prog, node.extra, text)[:2]
                    except Inconclusive as e:
                        rep.inconc("T-CLASSIFY (text %r): %s" % (text, e.reason), e.where)
                        memo[text] = (True, None)
                good, val = memo[text]
                if not good and _text_class(text) not in found:
                    found[_text_class(text)] = (text, val, word)
    state["n"] = n


def _classify_one(ctx, rep, prog, fn, key):
    """returns (failures [(key, what, example)], pending inconclusives)"""
    from ..interp import FnV
    is_closure = isinstance(fn, Clo)
    fails, pending, abstract_inconc = [], [], []
    ID = "Identifier"
    names = [v["name"] for v in prog.adts[ID]["variants"]]
    # the parsed value may be compared with literals (a numeric cutoff): the literals met are logged and the table is
    # re-run with the value on either side of each of them
    cases = [("err", None), ("ok", 7)]
    tried = {7}
    while cases:
        outcome, value = cases.pop(0)
        pol = Policy()
        pol.log_literals = set()
        pol.free_literal_doms = ("parsed",)
        text = Tok("T", "text", "x", dom="text")
        seen = {}

        def str_parse(interp, args, info, outcome=outcome, seen=seen, value=value):
            targs = info.get("targs", [])
            seen["ty"] = [prog.ty_str(t) for t in targs]
            from ..interp import err, ok
            if outcome == "ok":
                return ok(Tok("I", "n", value, dom="parsed"))
            return err(Tok("O", "parse_int_error"))
        pol.str_parse = str_parse
        it = Interp(prog, pol)
        try:
            r = it.call_closure(fn, [Ptr(Cell(text))]) if is_closure else it.call_key(key, [Ptr(Cell(text))])
        except Inconclusive as e:
            abstract_inconc.append(("T-CLASSIFY: " + e.reason, e.where))
            continue
        rep.path(("T-CLASSIFY", path_sig(it)))
        for lit in pol.log_literals:
            for x in (lit - 1, lit, lit + 1):
                if 0 <= x < (1 << 64) and x not in tried and len(tried) < 30:
                    tried.add(x)
                    cases.append(("ok", x))
        good = False
        if isinstance(r, Adt) and r.name == ID:
            vn = names[r.variant]
            p = r.fields[0]
            if outcome == "ok":
                good = vn == "Numeric" and isinstance(p, Tok) and p.name == "n" and p.off == 0
            else:
                good = vn == "AlphaNumeric" and isinstance(p, Tok) and p.name == "text"
        if good and ("u64" in seen.get("ty", []) or outcome == "err"):
            rep.ok("T-CLASSIFY")
        else:
            fails.append(("%s|T-CLASSIFY|parse=%s" % (key, outcome),
                          "classification of %s returned %r (parse type %s)" % (
                              "text that does not parse" if outcome == "err" else "the number %d" % value, r, seen.get("ty")),
                          None))
    # the same function on one representative text per class of identifier spellings (the classes a byte-level
    # classification could tell apart): concrete texts, str::parse::<u64> as documented
    reps_ = [("zero", "0"), ("digit", "7"), ("digits", "10"), ("leading zero", "007"), ("zeros", "00"), ("zero-led number", "01"),
             ("largest u64", "18446744073709551615"), ("above u64", "18446744073709551616"), ("above MAX_SAFE_INTEGER", "900719925474100"),
             ("letters", "abc"), ("digit then letter", "1a"), ("letter then digit", "a1"), ("hyphen", "-"), ("hyphen then digits", "-1"),
             ("digits with hyphen", "1-2")]
    concrete_clean = True
    for cls, text in reps_:
        try:
            good, r, it = _classify_concrete(prog, fn, text)
        except Inconclusive as e:
            pending.append(("T-CLASSIFY (text %r): %s" % (text, e.reason), e.where))
            concrete_clean = False
            continue
        rep.path(("T-CLASSIFY", path_sig(it)))
        numeric = text.isdigit() and int(text) < (1 << 64)
        if good:
            rep.ok("T-CLASSIFY")
        else:
            concrete_clean = False
            fails.append(("%s|T-CLASSIFY|text class: %s" % (key, cls),
                          "identifier text %r is classified as %r, expected %s" % (
                              text, r, "Numeric(%d)" % int(text) if numeric else "AlphaNumeric(%r)" % text),
                          "1.0.0-%s" % text))
    if abstract_inconc:
        if concrete_clean:
            rep.notes.append("T-CLASSIFY: %s looks into the text itself (%s); decided on %d concrete representative texts, one "
                             "per class of spellings a byte-level classification can tell apart" % (
                                 key, abstract_inconc[0][0], len(reps_)))
        else:
            pending.extend(abstract_inconc)
    return fails, pending


def witness(rep, prog):
    """the per-field abstraction did not apply (arithmetic on the components, comparisons across fields): search for a
    concrete counterexample among joint valuations that include large components (bit-packing slips). A mismatch is
    genuine; none found leaves the check inconclusive."""
    rule = "T-CMP-V-WITNESS"
    rep.rule(rule, 0, "witness search over joint valuations (0, 1, 2^22, 2^40) when the per-field abstraction does not apply")
    n = bad = 0
    for a, b in V.witness_worlds(values=(0, 1, 1 << 22, 1 << 40)):
        exp = V.ref_cmp(a, b)
        for key, kind in ((CMP, "cmp"), (EQ, "eq")):
            st, r, it = V.run2(prog, key, a, b, witness=True)
            if st != "ok":
                continue
            n += 1
            got = ordering_to_int(r) if kind == "cmp" else r
            want = exp if kind == "cmp" else (exp == 0)
            if got == want:
                rep.ok(rule)
            else:
                bad += 1
                if bad <= 3:
                    rep.fail(rule, "%s|%s|%s instead of %s" % (key, rule, _o(got) if kind == "cmp" else got, _o(want) if kind == "cmp" else want),
                             "%s answers %s, SemVer precedence says %s" % (key, _o(got) if kind == "cmp" else got, _o(want) if kind == "cmp" else want),
                             example="%s vs %s" % (V.example_version(a), V.example_version(b)))
    rep.analysed_item("witness search: %d evaluations over joint valuations, %d mismatches" % (n, bad))
