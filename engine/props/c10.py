"""C10 — allows_all(A, B) true guarantees containment (DESIGN §5 C10)."""
from .. import invariant
from .common import interval_table, range_level1, set_table


def check(ctx, rep):
    prog = ctx.prog()
    invariant.check_invariant(ctx, rep, prog)
    rows_all = interval_table(ctx, rep, prog, "allows_all", "T-ALL", 1004,
                              "BoundSet::allows_all(a,b) = a.lower cut <= b.lower cut and b.upper cut <= a.upper cut")
    rows_dif = interval_table(ctx, rep, prog, "difference", "T-DIF", 1004,
                              "BoundSet::difference(b,a) is None exactly when b is inside a")
    rows_any = interval_table(ctx, rep, prog, "allows_any", "T-ANY", 1004, "overlap")
    # allows_all(a,b) <=> difference(b,a) == None ; allows_all(a,b) => allows_any(a,b)
    rep.rule("T-ALL-vs-DIF", 1004, "single alternatives: allows_all(a,b) is true exactly when b.difference(a) is None")
    rep.rule("T-ALL-implies-ANY", 1, "allows_all(a,b) implies allows_any(a,b)")

    def swap_key(k):
        # row key "self=X other=Y order:…" with tokens named by side; the swapped row exchanges a*/b* names
        return k
    dif = {}
    for r in rows_dif:
        dif[(r["key"], r["variant"])] = r
    anyr = {(r["key"], r["variant"]): r for r in rows_any}
    for r in rows_all:
        if r["status"] != "ok" or "inconclusive" in r:
            continue
        sk = _swapped(r["key"])
        d = dif.get((sk, r["variant"]))
        if d is not None and d["status"] == "ok" and "inconclusive" not in d:
            if (r["actual"] is True) == (d["actual"] == "None"):
                rep.ok("T-ALL-vs-DIF")
            else:
                rep.fail("T-ALL-vs-DIF", "range::BoundSet::allows_all|T-ALL-vs-DIF|%s" % r["key"],
                         "allows_all = %s but other.difference(self) = %s" % (r["actual"], d["actual"]),
                         example=r["example"])
        a = anyr.get((r["key"], r["variant"]))
        if a is not None and a["status"] == "ok" and r["actual"] is True:
            if a["actual"] is True:
                rep.ok("T-ALL-implies-ANY")
            else:
                rep.fail("T-ALL-implies-ANY", "range::BoundSet::allows_all|T-ALL-implies-ANY|%s" % r["key"],
                         "allows_all is true but allows_any is false", example=r["example"])
    sizes = [(1, 1), (2, 1), (3, 1)]   # |A|+1 generators: 4 is the largest exhaustive world set (2^15 worlds)
    set_table(ctx, rep, prog, "allows_all", "E-SET-allows_all", 137,
              "Range::allows_all(A, B) with one alternative in B: true implies B inside union A", sizes=sizes)
    # "A.allows_any(B) is also true": Range::allows_any is exact (overlap) on concrete interval shapes, so it is true
    # whenever B lies inside A
    range_level1(ctx, rep, prog, "allows_any")


def _swapped(key):
    """the key of the row with self and other exchanged (token names follow the side)"""
    # "self=[..al..ah..] other=[..bl..bh..] order:…"
    tr = {"al": "bl", "ah": "bh", "bl": "al", "bh": "ah"}
    head, order = key.rsplit(" order:", 1)
    s, o = head[len("self="):].split(" other=")

    def ren(x):
        for k in ("al", "ah", "bl", "bh"):
            x = x.replace("(%s)" % k, "(#%s)" % tr[k])
        return x.replace("#", "")
    groups = [sorted(tr.get(t, t) for t in g.split("=")) for g in order.split("<")] if order != "-" else None
    order2 = "<".join("=".join(g) for g in groups) if groups else "-"
    return "self=%s other=%s order:%s" % (ren(o), ren(s), order2)
