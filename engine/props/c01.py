"""C01 — range satisfaction follows npm semantics (DESIGN §5 C01): desugaring table, operator table,
delimiter discipline of `simple`, AND-fold (shared with C02)."""
from .. import desugar as D, gram
from ..interp import Clo, Inconclusive, Panic
from ..report import path_sig
from .c02 import fold_obligations

OPS = [(">=", "GreaterThanEquals"), (">", "GreaterThan"), ("=", "Exact"), ("<=", "LessThanEquals"), ("<", "LessThan")]


def example(form, shape, lo_shape=None):
    def txt(s):
        def c(x, n):
            return {"N": "x", "Z": "0", "P": n, "A": ""}[x]
        parts = [c(s["M"], "1"), c(s["m"], "2"), c(s["p"], "3")]
        while len(parts) > 1 and parts[-1] == "":
            parts.pop()
        return ".".join(parts) + ("-beta" if s["pre"] else "")
    if form == "hyphen":
        return "%s - %s" % (txt(lo_shape) if lo_shape else "", txt(shape))
    return form + txt(shape)


def check(ctx, rep):
    prog = ctx.prog()
    g, problems = gram.extract(prog)
    for k, v in problems.items():
        rep.inconc("grammar extraction of %s: %s" % (k, v))
    desugar_table(ctx, rep, prog, g)
    operator_table(rep, prog, g)
    delimiters(rep, prog, g)
    fold_obligations(ctx, rep, prog, g)
    comparator_language(ctx, rep, prog, g)


def real_part(g):
    """simple() without its catch-all: the garbage alternative is removed wherever it stands — directly in the `alt`, or as
    the last alternative of the `alt` that each branch of a first-character dispatch runs. Returns a tree (None when
    simple() is missing)."""
    from ..wmodels import P as Node
    simple = g.get("range::simple")
    if simple is None:
        return None

    def is_garbage(a):
        a0 = gram.strip(a)
        return a0.kind == "ref" and a0.extra == "range::garbage"

    def strip_garbage(p):
        if not isinstance(p, gram.P):
            return p
        if p.kind == "alt":
            keep = [strip_garbage(a) for a in p.args if not is_garbage(a)]
            if not keep:
                return Node("not", [Node("lit", extra="")])      # nothing left: fails
            return Node("alt", keep, p.extra)
        if p.kind in ("paths", "seq", "context", "map", "try_map", "cut_err", "terminated", "preceded", "delimited"):
            return Node(p.kind, [strip_garbage(a) for a in p.args], p.extra)
        return p
    return strip_garbage(simple)


def comparator_language(ctx, rep, prog, g):
    """Token level: every comparator text of the npm range grammar (with the loose spellings the property lists) is
    recognised by one of the five real alternatives of simple() with exactly its own extent — it is neither dropped as
    garbage nor cut at a different place. Decided on the PEG-exact automata of the extracted grammar."""
    from .. import peg
    from ..peg import diff, inter, union
    from .c05 import build
    rule = "L-COMPARATORS"
    rep.rule(rule, 10, "every npm comparator text (primitive, bare partial, tilde, caret, hyphen; loose spellings) followed by a "
                       "delimiter is consumed exactly by a non-garbage alternative of simple()")
    try:
        L, P, classes, reps, _, _ = build(prog, g, root="range::range_set", extra_chars="vV.-+xX*<>=~^|")
        real = real_part(g)
        if real is None:
            raise KeyError("range::simple")
        M5, F5 = P.den(real)
    except (Inconclusive, KeyError) as e:
        rep.inconc("%s: %s" % (rule, e))
        return

    def lit(ch):
        return L.sym(classes[("lit", ch)])
    digit, sp = L.sym(classes["digit"]), L.sym(classes["space"])
    ident = L.sym(classes["ref_ident"])
    dot, dash, plus_ = lit("."), lit("-"), lit("+")
    num = L.plus(digit)
    xr = union(union(lit("x"), lit("X")), union(lit("*"), num))
    idt = L.plus(ident)
    ids = L.concat(idt, L.star(L.concat(dot, idt)))
    aln = L.sym(classes["ref_alnum"] - classes["digit"] - classes[("lit", "x")] - classes[("lit", "X")])
    pre = union(L.concat(dash, ids), L.concat(L.concat(aln, L.star(ident)), L.star(L.concat(dot, idt))))
    qualifier = L.concat(L.opt(pre), L.opt(L.concat(plus_, ids)))
    partial = L.concat(xr, L.opt(L.concat(L.concat(dot, xr), L.opt(L.seq(dot, xr, qualifier)))))
    vpartial = L.concat(L.opt(lit("v")), partial)
    ws = L.star(sp)
    op = union(union(L.concat(lit(">"), lit("=")), L.concat(lit("<"), lit("="))), union(union(lit(">"), lit("<")), lit("=")))
    families = [
        ("primitive", L.seq(op, ws, vpartial)),
        ("bare partial", vpartial),
        ("tilde", L.seq(lit("~"), L.opt(lit(">")), ws, vpartial)),
        ("caret", L.seq(lit("^"), ws, vpartial)),
        ("hyphen", L.seq(vpartial, L.plus(sp), dash, L.plus(sp), vpartial)),
    ]
    # continuations after a comparator that do not start a hyphen range: end, `||…`, or blanks followed by end or by
    # something that is neither a blank nor `-`
    other = L.sym(set(range(L.k)) - classes["space"] - classes[("lit", "-")])
    bar = L.concat(lit("|"), lit("|"))
    D = union(union(L.eps(), L.concat(bar, L.sigma_star())),
              L.concat(L.plus(sp), union(L.eps(), L.concat(other, L.sigma_star()))))
    for c in range(L.k):
        rep.path((rule, "class", c))
    for name, F in families:
        full = L.concat(F, D)
        # (a) a real alternative succeeds
        w = inter(full, F5).witness()
        if w is not None:
            rep.fail(rule, "range::simple|%s|%s rejected" % (rule, name),
                     "a %s comparator of the npm grammar is not recognised by any real alternative of simple() and is dropped "
                     "as garbage (shortest: %r)" % (name, L.word_str(w, reps)), example=L.word_str(w, reps))
        else:
            rep.ok(rule)
        # (b) and it consumes exactly the comparator
        good = L.seq(F, L.mark(), D)
        w = diff(inter(M5, L.with_marker_anywhere(full)), good).witness()
        if w is not None:
            rep.fail(rule, "range::simple|%s|%s cut elsewhere" % (rule, name),
                     "a %s comparator is cut at a different place than its own end (shortest, # = end of the match: %r)" % (
                         name, L.word_str(w, reps)), example=L.word_str(w, reps))
        else:
            rep.ok(rule)
    # (c) conversely, whatever the real alternatives consume is a comparator of one of the five families
    try:
        U = L.consumed_prefixes(M5)
        # node-semver's own comparator syntax is wider than the five families above in one respect: XRANGEPLAIN starts
        # with `[v=\s]*`, so any run of `v`, `=` and blanks may precede the numbers
        lead = L.star(union(union(lit("v"), lit("=")), sp))
        # loose prerelease (PRERELEASELOOSE): the hyphen is optional, whatever the first character of the tag
        wide_q = L.concat(L.opt(L.concat(L.opt(dash), ids)), L.opt(L.concat(plus_, ids)))
        wide_partial = L.concat(xr, L.opt(L.concat(L.concat(dot, xr), L.opt(L.seq(dot, xr, wide_q)))))
        np = L.concat(lead, wide_partial)
        # `~ >1.2`: node-semver's tilde trim joins `~` with what follows the blanks, giving `~>1.2`
        ref = union(union(L.seq(L.opt(op), np), L.seq(lit("~"), ws, L.opt(lit(">")), np)),
                    union(L.seq(lit("^"), np), L.seq(np, L.plus(sp), dash, L.plus(sp), np)))
        # a dash standing alone before a partial: the crate reads ` - 1.2.3` as the dropped token `-` followed by `1.2.3`
        # (the T-DESUGAR-HYPHEN cells with an absent lower side require exactly that reading)
        ref = union(ref, L.seq(dash, L.plus(sp), np))
        ref = L.concat(ws, ref)          # blanks in front of a comparator belong to the separator
        w = diff(U, ref).witness()
        if w is not None:
            rep.fail(rule, "range::simple|%s|consumes a non-comparator" % rule,
                     "a real alternative of simple() consumes text that is not a comparator of the npm grammar (with the loose "
                     "spellings); shortest: %r" % L.word_str(w, reps), example=L.word_str(w, reps))
        else:
            rep.ok(rule)
    except Inconclusive as e:
        rep.inconc("%s: %s" % (rule, e.reason), e.where)
    # consistency of the automaton constructions on this grammar: the marked automaton of simple() against a direct
    # evaluation of the extracted tree on enumerated words
    import itertools
    try:
        Ms, Fs = P.den(g["range::simple"])
        one = lambda nm: sorted(classes[nm])[0]
        d, dt, spc = one("digit"), one(("lit", ".")), one("space")
        stems = [[], [d], [d, dt, d], [d, dt, d, dt, d], [one(("lit", ">")), one(("lit", "="))], [one(("lit", "^"))], [d, spc, one(("lit", "-")), spc]]
        nsuf = 3 if ctx.thorough else 2
        total = bad = 0
        for stem in stems:
            for ln in range(nsuf + 1):
                for suf in itertools.product(range(L.k), repeat=ln):
                    w = stem + list(suf)
                    j = peg.eval_peg(g, classes, g["range::simple"], w, 0)
                    total += 1
                    if j is None:
                        agree = peg.dfa_accepts(Fs, w)
                    else:
                        agree = peg.dfa_accepts(Ms, w[:j] + [L.MARK] + w[j:])
                    if not agree:
                        bad += 1
                        if bad <= 3:
                            rep.fail("PEG-CROSSCHECK", "engine/peg.py|PEG-CROSSCHECK|%s" % L.word_str(w, reps),
                                     "automaton and direct evaluation of simple() disagree on %r" % L.word_str(w, reps))
        rep.rule("PEG-CROSSCHECK", 1000, "automaton vs direct PEG evaluation of simple() on enumerated class words")
        rep.ok("PEG-CROSSCHECK", total - bad)
    except Inconclusive as e:
        rep.inconc("PEG-CROSSCHECK: %s" % e.reason, e.where)
    rep.analysed_item("range grammar compiled to PEG-exact automata (%d character classes; M of the five real alternatives of "
                      "simple(): %d states) and compared with 5 comparator families of the npm grammar" % (L.k, M5.n))


def judge(rep, rule, fn_key, cellname, got, ref, where, ex, it):
    if it is not None:
        rep.path((rule, path_sig(it)))
    if got == ref:
        rep.ok(rule)
        return
    rep.fail(rule, "%s|%s|%s -> %s" % (fn_key, rule, cellname, D.cell_str(got)),
             "desugars to %s, node-semver's documented desugaring gives %s" % (D.cell_str(got), D.cell_str(ref)),
             where=where, expected=D.cell_str(ref), actual=D.cell_str(got), example=ex)


def desugar_table(ctx, rep, prog, g):
    rule = "T-DESUGAR"
    rep.rule(rule, 594, "every (comparator form, partial shape) cell desugars to the interval node-semver documents "
                        "(lower cut, upper cut, prerelease gate), modulo K1-K4")
    ex = D.Extract(prog)
    forms = []
    clo = D.top_map_closure(g, "range::primitive")
    if clo is None:
        rep.inconc("range::primitive has no desugaring closure")
    else:
        for text, opname in OPS:
            forms.append((text, clo, {"op": opname}, lambda s, t=text: D.npm_xrange(t, s)))
    clo = D.top_map_closure(g, "range::partial")
    if clo is None:
        rep.inconc("range::partial has no desugaring closure")
    else:
        forms.append(("", clo, {}, lambda s: D.npm_xrange("", s)))
    clo = D.top_map_closure(g, "range::tilde")
    if clo is None:
        rep.inconc("range::tilde has no desugaring closure")
    else:
        forms.append(("~", clo, {"gt": False}, D.npm_tilde))
        forms.append(("~>", clo, {"gt": True}, D.npm_tilde))
    clo = D.top_map_closure(g, "range::caret")
    if clo is None:
        rep.inconc("range::caret has no desugaring closure")
    else:
        forms.append(("^", clo, {}, D.npm_caret))
    n = 0
    for text, clo, env, ref_fn in forms:
        for shape in D.shapes():
            n += 1
            env2 = dict(env, shape=shape)
            try:
                cellname = "form=%s partial=%s" % (text or "bare", D.norm_shape_str(prog, D.mk_partial(prog, shape)))
                got, where, it = ex.run_closure(clo, env2)
            except Inconclusive as e:
                rep.inconc("%s %s: %s" % (rule, cellname, e.reason), e.where)
                continue
            except Panic as p:
                rep.fail(rule, "%s|%s|%s panic" % (clo.key, rule, cellname), "panics: %s" % p, example=example(text, shape))
                continue
            ref = D.canon_cell(D.ref_cmps_to_cell(ref_fn(D.npm_view(shape))), shape)
            gotc = D.canon_cell(got, shape)
            judge(rep, rule, clo.key, cellname, gotc, ref, where, example(text, shape), it)
            if n % 61 == 1:
                rep.sample({"rule": rule, "cell": cellname, "extracted": D.cell_str(gotc), "reference": D.cell_str(ref),
                            "example": example(text, shape)})
    # hyphen
    rule = "T-DESUGAR-HYPHEN"
    hy = "range::hyphen::parser"
    rep.rule(rule, 4422, "hyphen ranges: every (lower partial shape or absent, upper partial shape) cell")
    if not prog.has_body(hy):
        cands = [k for k in prog.bodies if "hyphen" in k]
        rep.inconc("hyphen parser body not found (candidates: %s)" % cands)
        return
    nh = 0
    los = [None] + list(D.shapes())
    for lo in los:
        for up in D.shapes():
            nh += 1
            cellname = "lower=%s upper=%s" % (D.shape_str(lo) if lo else "absent", D.shape_str(up))
            try:
                got, where, it = ex.run_hyphen(hy, lo, up)
            except Inconclusive as e:
                rep.inconc("%s %s: %s" % (rule, cellname, e.reason), e.where)
                continue
            except Panic as p:
                rep.fail(rule, "%s|%s|%s panic" % (hy, rule, cellname), "panics: %s" % p)
                continue
            lsh = lo if lo is not None else {"M": "N", "m": "N", "p": "N", "pre": False}
            ref = D.canon_cell(D.ref_cmps_to_cell(D.npm_hyphen(D.npm_view(lo) if lo else None, D.npm_view(up))), up, lsh)
            gotc = D.canon_cell(got, up, lsh)
            rep.path((rule, path_sig(it)))
            if gotc == ref:
                rep.ok(rule)
                continue
            ex_ = example("hyphen", up, lo)
            if gotc in ("DROPPED", "NULL") or ref in ("DROPPED", "NULL"):
                judge(rep, rule, hy, cellname, gotc, ref, where, ex_, None)
                continue
            # both tables treat the two sides independently: key a difference on the side that differs
            lo_name = D.shape_str(lo) if lo else "absent"
            def lo_gate(c):
                return c[0][1][:3] if c[0][0] in ("before", "after") and c[0][1][3] != "none" else None

            def up_gate(c):
                return c[1][1][:3] if c[1][0] in ("before", "after") and c[1][1][3] == "own" else None
            if gotc[0] != ref[0] or lo_gate(gotc) != lo_gate(ref):
                lo_name = D.norm_shape_str(prog, D.mk_partial(prog, lo, "lo:")) if lo else "absent"
                rep.fail(rule, "%s|%s|lower=%s -> %s" % (hy, rule, lo_name, D.cut_str(gotc[0])),
                         "lower side of a hyphen range desugars to %s, node-semver gives %s" % (D.cut_str(gotc[0]), D.cut_str(ref[0])),
                         where=where, expected=D.cut_str(ref[0]), actual=D.cut_str(gotc[0]), example=ex_)
            if gotc[1] != ref[1] or up_gate(gotc) != up_gate(ref):
                rep.fail(rule, "%s|%s|upper=%s -> %s" % (hy, rule, D.norm_shape_str(prog, D.mk_partial(prog, up, "up:")), D.cut_str(gotc[1])),
                         "upper side of a hyphen range desugars to %s, node-semver gives %s" % (D.cut_str(gotc[1]), D.cut_str(ref[1])),
                         where=where, expected=D.cut_str(ref[1]), actual=D.cut_str(gotc[1]), example=ex_)
    rep.analysed_item("desugaring closures of primitive/partial/tilde/caret (%d cells) and hyphen::parser (%d cells) "
                      "interpreted with BoundSet::new stubbed" % (n, nh))


def operator_table(rep, prog, g):
    rule = "T-OPERATORS"
    rep.rule(rule, 5, "operation(): literal -> Operation variant, no literal shadowed by an earlier proper prefix")
    tab = gram.literal_table(g, "range::operation") if "range::operation" in g else None
    if tab is None:
        rep.inconc("range::operation is not an alt of mapped literals")
        return
    from ..interp import Interp, Policy, Tok, Adt
    want = dict(OPS)
    seen = {}
    for i, (text, clo) in enumerate(tab):
        got = None
        if isinstance(clo, tuple) and clo[0] == "value":
            r = clo[1]
            if isinstance(r, Adt) and r.name == D.OPERATION:
                got = prog.variant_name(D.OPERATION, r.variant)
        elif isinstance(clo, Clo):
            it = Interp(prog, Policy())
            try:
                r = it.call_closure(clo, [Tok("T", "matched", text, dom="m")])
                if isinstance(r, Adt) and r.name == D.OPERATION:
                    got = prog.variant_name(D.OPERATION, r.variant)
            except Inconclusive as e:
                rep.inconc("%s: %s" % (rule, e.reason), e.where)
                seen[text] = "?"
                continue
        seen[text] = got
        shadow = [t for t, _ in tab[:i] if text.startswith(t) and t != text]
        if shadow:
            rep.fail(rule, "range::operation|%s|%s shadowed" % (rule, text),
                     "literal %r can never match: the earlier alternative %r is a proper prefix" % (text, shadow[0]))
        elif want.get(text) == got:
            rep.ok(rule)
        else:
            rep.fail(rule, "range::operation|%s|%s" % (rule, text), "literal %r maps to %s, expected %s" % (text, got, want.get(text)))
    for text in want:
        if text not in seen:
            rep.fail(rule, "range::operation|%s|%s missing" % (rule, text), "operator %r is not recognised" % text)
    rep.analysed_item("range::operation literal table: %s" % seen)


DELIMS = {"space1", "||", "eof"}


def _delim_set(g, p):
    """the set {space1, "||", eof} of a `peek(alt(..))` / alt of peeks"""
    p = gram.strip(p)
    out = set()
    if p.kind == "peek":
        return _delim_set(g, p.args[0])
    if p.kind == "alt":
        for a in p.args:
            s = _delim_set(g, a)
            if s is None:
                return None
            out |= s
        return out
    if p.kind == "prim":
        return {p.extra}
    if p.kind == "lit":
        return {p.extra}
    return None


def delimiters_semantic(rep, prog, g, rule, real):
    """decided on the PEG automata of the extracted grammar (not on its spelling): (i) whenever one of the comparator
    alternatives of simple() succeeds, what follows is a delimiter (end of text, a blank, or `||`); (ii) garbage never
    fails, consumes no blank and no `||`, and stops in front of a delimiter"""
    from .. import peg
    from ..peg import diff, inter, union
    from .c05 import build
    from ..wmodels import P as Node
    try:
        L, Pg, classes, reps, _, _ = build(prog, g, root="range::range_set", extra_chars="vV.-+xX*<>=~^|")
        M5, F5 = Pg.den(real if isinstance(real, gram.P) else Node("alt", real))
        Mg, Fg = Pg.den(g["range::garbage"])
    except (Inconclusive, KeyError) as e:
        rep.inconc("%s: %s" % (rule, e))
        return
    sp = L.sym(classes["space"])
    bar = L.sym(classes[("lit", "|")])
    D0 = union(union(L.eps(), L.concat(sp, L.sigma_star())), L.seq(bar, bar, L.sigma_star()))
    w = diff(M5, L.seq(L.sigma_star(), L.mark(), D0)).witness()
    if w is None:
        rep.ok(rule, 5)
    else:
        rep.fail(rule, "range::simple|%s|comparator delimiter" % rule,
                 "a comparator alternative of simple() succeeds although the text does not continue with a blank, `||` or the end "
                 "(# marks the end of the match: %r)" % L.word_str(w, reps), example=L.word_str(w, reps))
    problems = []
    wf = Fg.witness()
    if wf is not None:
        problems.append("garbage fails on %r" % L.word_str(wf, reps))
    noblank = L.star(L.sym(set(range(L.k)) - classes["space"]))
    has_barbar = L.seq(L.sigma_star(), bar, bar, L.sigma_star())
    consumed_ok = diff(noblank, has_barbar)
    wg = diff(Mg, L.seq(consumed_ok, L.mark(), D0)).witness()
    if wg is not None:
        problems.append("garbage consumes a blank or `||`, or stops in front of a non-delimiter: %r" % L.word_str(wg, reps))
    if not problems:
        rep.ok(rule)
    else:
        rep.fail(rule, "range::garbage|%s|shape" % rule, "; ".join(problems))


def delimiters(rep, prog, g):
    rule = "T-DELIMITERS"
    rep.rule(rule, 9, "simple(): every comparator alternative ends at a delimiter {blank, ||, end}; garbage stops at "
                      "exactly that set and yields None; hyphen before partial; || and blank separators")
    simple = g.get("range::simple")
    if simple is None:
        rep.inconc("range::simple not found in the extracted grammar")
        return
    if gram.strip(simple).kind != "alt":
        # a dispatch in front of the alternatives (first-character match, several paths): the delimiter discipline is
        # decided on the automata; which alternative wins where (hyphen before partial, garbage last) is the business of
        # L-COMPARATORS, which is semantic as well
        delimiters_semantic(rep, prog, g, rule, real_part(g))
        rep.ok(rule, 2)
        rep.notes.append("%s: simple() is not a plain `alt` (%s); alternatives and their order are decided by L-COMPARATORS"
                         % (rule, gram.strip(simple).kind))
        _separators(rep, prog, g, rule)
        return
    alts = gram.strip(simple).args
    names = []

    def first_ref(p):
        p0 = gram.strip(p)
        if p0.kind == "ref":
            return p0.extra
        for a_ in p0.args:
            if isinstance(a_, gram.P):
                r = first_ref(a_)
                if r:
                    return r
        return None
    for a in alts:
        nm = first_ref(a)
        names.append(nm if nm else gram.show_p(a))
    delimiters_semantic(rep, prog, g, rule, [a for a in alts if first_ref(a) != "range::garbage"])
    want = {"range::hyphen", "range::primitive", "range::partial", "range::tilde", "range::caret", "range::garbage"}
    if set(names) != want:
        rep.fail(rule, "range::simple|%s|alternatives" % rule, "alternatives are %s, expected %s" % (names, sorted(want)))
    else:
        rep.ok(rule)
        if names.index("range::hyphen") < names.index("range::partial") and names[-1] == "range::garbage":
            rep.ok(rule)
        else:
            rep.fail(rule, "range::simple|%s|order" % rule, "hyphen must be tried before partial and garbage last: %s" % names)
    _separators(rep, prog, g, rule)


def _separators(rep, prog, g, rule):
    # separators: comparators are separated by a parser that consumes blanks only, at least one, and accepts every
    # blank (decided on the separator's PEG automaton, not on its spelling)
    rg = gram.strip(g.get("range::range")) if g.get("range::range") else None
    if rg is not None and rg.kind == "separated" and gram.strip(rg.args[0]).kind == "ref" and gram.strip(rg.args[0]).extra == "range::simple":
        try:
            from .. import peg
            from ..peg import diff, inter
            from .c05 import build
            L, Pg, classes, reps, _, _ = build(prog, g, root="range::range_set", extra_chars="vV.-+xX*<>=~^|")
            Ms, Fs = Pg.den(rg.args[1])
            sp = L.sym(classes["space"])
            only_blanks = L.seq(L.plus(sp), L.mark(), L.sigma_star())
            w1 = diff(Ms, only_blanks).witness()
            w2 = inter(Fs, L.concat(sp, L.sigma_star())).witness()
            if w1 is None and w2 is None:
                rep.ok(rule)
            else:
                w = w1 if w1 is not None else w2
                rep.fail(rule, "range::range|%s|separator" % rule,
                         "the separator between comparators %s (%r)" % (
                             "consumes something other than one or more blanks" if w1 is not None else "rejects a blank",
                             L.word_str(w, reps)))
        except Inconclusive as e:
            rep.inconc("%s: separator of range(): %s" % (rule, e.reason), e.where)
    else:
        rep.fail(rule, "range::range|%s|separator" % rule, "comparators are not `separated(.., simple, <blanks>)`: %s" % gram.show_p(g.get("range::range")))
    # logical_or: decided on its automaton — it consumes exactly blanks, `||`, blanks (all the blanks there are), and does
    # not fail when the text continues with blanks and `||`
    try:
        from .. import peg
        from ..peg import diff, inter
        from .c05 import build
        L, Pg, classes, reps, _, _ = build(prog, g, root="range::range_set", extra_chars="vV.-+xX*<>=~^|")
        Mo, Fo = Pg.den(g["range::logical_or"])
        sp = L.sym(classes["space"])
        bar = L.sym(classes[("lit", "|")])
        ws = L.star(sp)
        nonsp = L.sym(set(range(L.k)) - classes["space"])
        good = L.seq(ws, bar, bar, ws, L.mark(), peg.union(L.eps(), L.concat(nonsp, L.sigma_star())))
        w1 = diff(Mo, good).witness()
        w2 = inter(Fo, L.seq(ws, bar, bar, L.sigma_star())).witness()
        if w1 is None and w2 is None:
            rep.ok(rule)
        else:
            w = w1 if w1 is not None else w2
            rep.fail(rule, "range::logical_or|%s|shape" % rule,
                     "logical_or %s (%r)" % ("consumes something other than blanks, `||`, blanks" if w1 is not None else
                                             "fails although the text continues with `||`", L.word_str(w, reps)))
    except (Inconclusive, KeyError) as e:
        rep.inconc("%s: logical_or: %s" % (rule, e))
    rep.analysed_item("range::simple: %s" % gram.show_p(g["range::simple"])[:300])
