"""C09 — allows_any is overlap (DESIGN §5 C09)."""
from .. import invariant
from .common import interval_table, set_table


def check(ctx, rep):
    prog = ctx.prog()
    invariant.check_invariant(ctx, rep, prog)
    rows_any = interval_table(ctx, rep, prog, "allows_any", "T-ANY", 1004,
                              "BoundSet::allows_any = max lower cut < min upper cut")
    rows_int = interval_table(ctx, rep, prog, "intersect", "T-INT", 1004,
                              "BoundSet::intersect is Some exactly when the cuts overlap")
    # allows_any(a,b) == intersect(a,b).is_some(), row by row; symmetric
    rep.rule("T-ANY-vs-INT", 1004, "allows_any(a,b) equals intersect(a,b).is_some() on every row")
    by_key = {(r["key"], r["variant"]): r for r in rows_int}
    for r in rows_any:
        o = by_key.get((r["key"], r["variant"]))
        if o is None or "inconclusive" in r or "inconclusive" in o or r["status"] != "ok" or o["status"] != "ok":
            continue
        if (r["actual"] is True) == (o["actual"] != "None"):
            rep.ok("T-ANY-vs-INT")
        else:
            rep.fail("T-ANY-vs-INT", "range::BoundSet::allows_any|T-ANY-vs-INT|%s" % r["key"],
                     "allows_any = %s but intersect = %s" % (r["actual"], o["actual"]), example=r["example"])
    set_table(ctx, rep, prog, "allows_any", "E-SET-allows_any", 223,
              "Range::allows_any = some pair of alternatives overlaps = (union A) & (union B) non-empty")
    set_table(ctx, rep, prog, "intersect", "E-SET-intersect", 223,
              "Range::intersect is Some exactly when some pair overlaps")
