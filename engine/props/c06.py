"""C06 — no input makes any public operation panic, overflow or hang (DESIGN §5 C06).
Inventory of every panic-capable construct of the crate; each must be discharged by a named rule."""
import re

from .. import desugar as D, errors as E, flow, gram, intervals
from ..interp import Adt, Cell, Inconclusive, Interp, Panic, Policy, Ptr, Tok
from ..models import Formatter
from ..report import path_sig

DESUGAR_OWNERS = re.compile(r"^range::(primitive|partial|tilde|caret)::\{closure#\d+\}$|^range::hyphen::parser$")
FROM_SIGNED = re.compile(r"^<Version as std::convert::From<\((i8|i16|i32|i64|isize)(, \1){2,3}\)>>::from$")


def site_key(s):
    return "%s|%s|%s" % (s["owner"], s["kind"], re.sub(r"_\d+", "_", s["detail"]))


def check(ctx, rep):
    prog = ctx.prog()
    sites = flow.panic_sites(prog)
    rep.rule("INVENTORY", 10, "every Assert terminator and every call of a panicking std function in a crate body is "
                              "discharged by exactly one named rule")
    discharged = {}

    # ---------------- evidence gathered by interpretation
    env = intervals.Env(prog)
    visited_add = visited_add_sites(prog, rep)
    dif_rows = intervals.table_op(prog, env, "difference", variants=("lt", "cmp"))
    dif_panics = [r for r in dif_rows if r["status"] == "panic"]
    dif_inconc = [r for r in dif_rows if "inconclusive" in r]
    for r in dif_inconc[:3]:
        rep.inconc("D-DIFF: " + r["inconclusive"][0], r["inconclusive"][1])
    for r in dif_rows:
        rep.path(("T-DIF", r["sig"]))
    sat_ok = unreachable_arms(prog, env, rep)
    any_ok = range_any(prog, rep)
    entry = entry_points(prog, rep)
    partial = E.stream_is_partial(prog)

    for s in sites:
        owner, kind = s["owner"], s["kind"]
        where = prog.span_str(s["span"])
        rule = None
        why = None
        if owner.startswith("SemverError::location"):
            if "inconclusive" in (entry.get("Version::parse"), entry.get("range::Range::parse")):
                continue
            if entry.get("Version::parse") == "ok" and entry.get("range::Range::parse") == "ok":
                lt = location_evidence(ctx, prog, rep)
                if lt is None:
                    continue
                if lt:
                    rule, why = "D-LOC", ("no (text, offset) class of the location() table reaches a panic; offsets are 0, len or a "
                                          "stream position of the caller's string (C17 E2), hence <= len and on a char boundary")
        elif kind == "panic_fmt" and owner in ("range::BoundSet::satisfies", "<range::BoundSet as std::fmt::Display>::fmt"):
            if sat_ok.get(owner) is None:
                continue        # the supporting table was inconclusive (already reported as such)
            if sat_ok.get(owner):
                rule, why = "D-INV", "unreachable! arm: dead for every (Lower, Upper) shaped BoundSet (INV-LU); no abstract case reaches it"
        elif kind == "unwrap" and owner == "range::Range::any":
            if any_ok:
                rule, why = "D-NEW", "BoundSet::new(Lower(Unbounded), Upper(Unbounded)) is Some"
        elif kind == "unwrap" and owner == "range::BoundSet::difference":
            if not dif_panics and not dif_inconc:
                rule, why = "D-DIFF", "no row of the difference table (all shapes x weak orders) reaches unwrap with None"
            else:
                for r in dif_panics[:50]:
                    bad = sorted(set(c[0] for c in r["cells"] if not c[2]))
                    if bad:
                        rep.fail("D-DIFF", "range::Bound::cmp|D-DIFF|cell=%s" % bad[0],
                                 "BoundSet::difference reaches unwrap() on None: %s" % r["key"], where=r.get("panic_where"), example=r["example"])
                    else:
                        rep.fail("D-DIFF", "range::BoundSet::difference|D-DIFF|%s" % r["key"],
                                 "BoundSet::difference reaches unwrap() on None", where=r.get("panic_where"), example=r["example"])
                continue
        elif kind == "assert" and s["msg"] == "Overflow" and "Add" in s["detail"]:
            if DESUGAR_OWNERS.match(owner):
                if (owner, s["bb"]) in visited_add:
                    rule, why = "D-NUM", "operand is a component parsed by number() (<= MAX_SAFE_INTEGER) plus the constant 1"
                else:
                    why = "this `+` is not reached with a parsed component and the constant 1 in any cell of the desugaring table"
            elif stored_component_plus_one(prog, owner, s):
                rule, why = "D-NUM-STORED", "operand is a component of a Version stored in a Range (INV-NUM: <= MAX_SAFE_INTEGER + 1) plus 1"
        elif kind == "assert" and s["msg"] == "Overflow" and "Sub" in s["detail"] and owner in E_ENTRIES:
            dead = flow.errmode_incomplete_dead_blocks(prog, prog.bodies[owner])
            if s["bb"] in dead and not partial:
                rule, why = "D-PARTIAL", "only reachable through ErrMode::Incomplete, which winnow raises for Partial streams only"
            elif entry.get(owner) == "inconclusive":
                continue
            elif entry.get(owner) == "ok":
                rule, why = "D-PTR", "pointer difference between the error position and the start of the caller's string (same buffer, later position)"
            else:
                why = "the subtraction is not a (position - start of the caller's string) difference: %s" % entry.get(owner)
        elif kind == "panic_fmt" and FROM_SIGNED.match(owner):
            rule, why = "D-PRE", "debug_assert on a negative component: outside the input domain of the property (precondition)"
        if rule is None and kind == "assert" and s["msg"] == "Overflow" and const_arith_is_safe(prog, s):
            rule, why = "D-CONST", "arithmetic on two constants that does not overflow"
        if rule is None:
            rep.fail("INVENTORY", "%s" % site_key(s), "undischarged panic site: %s %s%s" % (
                kind, s["detail"], (" — " + why) if why else ""), where=where)
        else:
            rep.ok("INVENTORY")
            discharged.setdefault(rule, []).append("%s @%s" % (owner, where))
    for rule, lst in sorted(discharged.items()):
        rep.notes.append("%s discharges %d sites" % (rule, len(lst)))
        rep.sample({"rule": rule, "sites": len(lst), "first": lst[0]})
    rep.analysed_item("%d panic-capable sites in %d bodies" % (len(sites), len(prog.bodies)))
    progress(rep, prog)
    termination(rep, prog)


E_ENTRIES = ("Version::parse", "range::Range::parse")


def const_arith_is_safe(prog, s):
    """an overflow assertion whose checked operation has two constant integer operands is evaluated here"""
    body = prog.bodies[s["owner"]]
    bb = body["blocks"][s["bb"]]
    for st in reversed(bb["stmts"]):
        if st["k"] == "assign" and st["rv"].get("k") == "binop" and st["rv"]["op"].endswith("WithOverflow"):
            a, b = st["rv"]["a"].get("const"), st["rv"]["b"].get("const")
            if not (a and b and a.get("kind") == "int" and b.get("kind") == "int"):
                return False
            x, y = int(a["v"]), int(b["v"])
            t = prog.types[st["rv"]["ty"]]
            bits, signed = t.get("bits", 64), t.get("signed", False)
            op = st["rv"]["op"]
            r = x + y if op.startswith("Add") else (x - y if op.startswith("Sub") else (x * y if op.startswith("Mul") else None))
            if r is None:
                return False
            lo, hi = (-(1 << (bits - 1)), (1 << (bits - 1)) - 1) if signed else (0, (1 << bits) - 1)
            return lo <= r <= hi
    return False


def stored_component_plus_one(prog, owner, s):
    """`x.field + 1` where x is a local of type Version inside a method of BoundSet / Range (its versions are stored
    range components, bounded by INV-NUM)"""
    m = re.search(r"Overflow\(Add, copy \(_(\d+)\.(\d+): u64\), const 1_u64\)", s["detail"])
    if not m or not (owner.startswith("range::Range::") or owner.startswith("range::BoundSet::")):
        return False
    body = prog.bodies[owner]
    return prog.ty_str(body["locals"][int(m.group(1))]) == "Version"


_LOC = {}


def location_evidence(ctx, prog, rep):
    """True: no panic in the location() table; False: some class panics; None: inconclusive (reported)"""
    if "v" in _LOC:
        return _LOC["v"]
    from .. import location
    rows = location.table(prog, 4)
    v = True
    for r in rows:
        rep.path(("location", r["sig"]))
        if r["status"] == "inconclusive":
            rep.inconc("D-LOC: %s" % r["error"][0], r["error"][1])
            v = None
            break
        if r["status"] == "panic":
            rep.fail("D-LOC", "SemverError::location|D-LOC|panic", "location() panics for text class %s at valid offset %d: %s" % (
                r["word"], r["offset"], r["error"]))
            v = False
            break
    rep.analysed_item("SemverError::location interpreted on %d (text, offset) classes for reachability of its panic sites" % len(rows))
    _LOC["v"] = v
    return v


def loc_rule(s):
    """frozen instances of SemverError::location (confirmed by reading; conditional on the offset provenance rule
    of C17, which the caller has re-checked): offset <= len and on a char boundary."""
    d = s["detail"]
    if s["kind"] == "index" and "RangeTo<usize>" in d and ("for [u8]" in d or "for [T]" in d):
        return "D-LOC", "bytes[..offset]: offset <= len (E2)"
    if s["kind"] == "index" and "String" in d and "RangeFrom<usize>" in d:
        return "D-LOC", "input[line_begin..] / input[offset..]: 0, one past a newline, or the offset itself (char boundaries by E2)"
    if s["kind"] == "assert" and "Sub" in d:
        return "D-LOC", "offset - pos with pos < offset (position in a prefix of length offset) / pointer difference inside one buffer"
    return None, None


def visited_add_sites(prog, rep):
    """(owner, bb) of every `+` executed in the desugaring tables with an integer token and a small constant"""
    visited = set()
    g, _ = gram.extract(prog)
    ex = D.Extract(prog)
    import sys

    def collect(it):
        for o in it.obligations:
            if o[0] == "add" and isinstance(o[2], Tok) and o[2].kind == "I" and o[3] == 1 and len(o) > 4:
                visited.add(o[4])
    forms = []
    for fn, envs in (("range::primitive", [{"op": o} for o in ("GreaterThanEquals", "GreaterThan", "Exact", "LessThanEquals", "LessThan")]),
                     ("range::partial", [{}]), ("range::tilde", [{"gt": False}, {"gt": True}]), ("range::caret", [{}])):
        clo = D.top_map_closure(g, fn)
        if clo is None:
            continue
        for env in envs:
            for shape in D.shapes():
                try:
                    _, _, it = ex.run_closure(clo, dict(env, shape=shape))
                    collect(it)
                    rep.path(("desugar", path_sig(it)))
                except (Inconclusive, Panic):
                    pass
    if prog.has_body("range::hyphen::parser"):
        for lo in [None] + list(D.shapes()):
            for up in D.shapes():
                try:
                    _, _, it = ex.run_hyphen("range::hyphen::parser", lo, up)
                    collect(it)
                except (Inconclusive, Panic):
                    pass
    return visited


def unreachable_arms(prog, env, rep):
    """no (Lower, Upper) shaped BoundSet reaches the unreachable! arms of satisfies / Display"""
    res = {}
    for key in ("range::BoundSet::satisfies", "<range::BoundSet as std::fmt::Display>::fmt"):
        good = True
        n = 0
        for lo in intervals.SHAPES:
            for up in intervals.SHAPES:
                names = [x for x, s in (("lo", lo), ("up", up)) if s != "U"] + ["v"]
                for w in intervals.weak_orders(names):
                    lob = ("L", lo, intervals.vtok("lo", w["lo"]) if lo != "U" else None)
                    upb = ("U", up, intervals.vtok("up", w["up"]) if up != "U" else None)
                    run = intervals.Run(prog, env)
                    bs = intervals.build_set(env, (lob, upb))
                    if key.endswith("satisfies"):
                        from .. import versions as V
                        v = V.gate_token("v", w["v"], False, (0, 0, 0), prog)
                        st, val = run.call(key, [Ptr(Cell(bs)), Ptr(Cell(v))])
                    else:
                        st, val = run.call(key, [Ptr(Cell(bs)), Ptr(Cell(Formatter()))])
                    n += 1
                    rep.path((key, path_sig(run.interp)))
                    if good is None and st != "panic":
                        continue
                    if st == "panic":
                        good = False
                        rep.fail("D-INV", "%s|D-INV|lower=%s upper=%s" % (key, lo, up), "reaches a panic: %s" % val)
                    elif st == "inconclusive":
                        good = None if good is not False else False
                        rep.inconc("D-INV %s: %s" % (key, val.reason), val.where)
        res[key] = good
        rep.analysed_item("%s interpreted on %d (shape, order) cases for reachability of its unreachable! arms" % (key, n))
    return res


def range_any(prog, rep):
    it = Interp(prog, Policy(), overrides=dict(intervals.LEVEL1))
    try:
        r = it.call_body("range::Range::any", [])
        return isinstance(r, Adt) and r.name == "range::Range"
    except Panic as p:
        rep.fail("D-NEW", "range::Range::any|D-NEW|panic", "Range::any() panics: %s" % p)
    except Inconclusive as e:
        rep.inconc("D-NEW: " + e.reason, e.where)
    return False


def entry_points(prog, rep):
    """no arithmetic panic on any live path of the entry points, and every pointer difference is
    (error position) - (start of the caller's string)"""
    out = {}
    partial = E.stream_is_partial(prog)
    for key in E_ENTRIES:
        if not prog.has_body(key):
            out[key] = "missing"
            continue
        try:
            rows = E.entry_table(prog, key, with_incomplete=partial)
        except Inconclusive as e:
            rep.inconc("entry table %s: %s" % (key, e.reason), e.where)
            out[key] = "inconclusive"
            continue
        verdict = "ok"
        for r in rows:
            rep.path(("entry", r["sig"]))
            if r["status"] == "panic":
                verdict = "panic: %s" % r["panic"]
                rep.fail("D-LEN", "%s|D-LEN|%s" % (key, r["panic"].kind), "arithmetic panic while handling input of length class %s: %s" % (r["len"], r["panic"]))
            elif r["status"] == "inconclusive":
                verdict = "inconclusive"
                rep.inconc("entry table %s: %s" % (key, r["error"].reason), r["error"].where)
            for o in r["obligations"]:
                if o[0] == "ptrdiff" and (o[2], o[3]) != ("ptr(errpos)", "ptr(caller)"):
                    verdict = "pointer difference %s - %s" % (o[2], o[3])
        out[key] = verdict
        rep.analysed_item("%s: %d paths examined for arithmetic panics" % (key, len(rows)))
    return out


def progress(rep, prog):
    rep.rule("PROGRESS", 1, "every repetition combinator's progress-carrying argument (separator of `separated`, element of "
                            "`repeat`/`repeat_till`) cannot succeed without consuming input")
    g, problems = gram.extract(prog)
    for k, v in problems.items():
        rep.inconc("grammar extraction of %s: %s" % (k, v))
    for fn, comb, role, arg, node in gram.repetitions(g):
        if gram.nullable(g, arg):
            rep.fail("PROGRESS", "%s|PROGRESS|%s %s nullable" % (fn, comb, role),
                     "the %s of %s in %s can match the empty string: %s (winnow asserts progress and panics under debug "
                     "assertions)" % (role, comb, fn, gram.show_p(arg)))
        else:
            rep.ok("PROGRESS")
    rep.analysed_item("%d repetition combinator sites checked for progress" % len(gram.repetitions(g)))


def termination(rep, prog):
    rep.rule("NO-RECURSION", 1, "the crate's call graph (calls, closures, fn items) has no cycle")
    cycles, graph = flow.call_graph_cycles(prog)
    if cycles:
        for c in cycles:
            rep.fail("NO-RECURSION", "%s|NO-RECURSION|cycle" % c[0], "recursive cycle: %s" % " -> ".join(c))
    else:
        rep.ok("NO-RECURSION")
    rep.rule("BOUNDED-LOOPS", 0, "every CFG loop of a crate body is driven by a std collection iterator")
    n = 0
    for key, body in sorted(prog.bodies.items()):
        comps = flow.cfg_sccs(body)
        n += len(comps)
        bad = flow.unbounded_loops(body)
        for comp in bad:
            sp = body["blocks"][comp[0]]["term"]["span"]
            rep.fail("BOUNDED-LOOPS", "%s|BOUNDED-LOOPS|loop" % key, "loop without a collection iterator driving it (blocks %s)" % comp,
                     where=prog.span_str(sp))
        for _ in range(len(comps) - len(bad)):
            rep.ok("BOUNDED-LOOPS")
    rep.analysed_item("%d CFG loops in %d bodies; call graph of %d nodes" % (n, len(prog.bodies), len(graph)))
