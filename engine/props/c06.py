"""C06 — no input makes any public operation panic, overflow or hang (DESIGN §5 C06).
Inventory of every panic-capable construct of the crate; each must be discharged by a named rule."""
import re

from .. import desugar as D, errors as E, flow, gram, intervals
from ..interp import Adt, Cell, Inconclusive, Interp, Panic, Policy, Ptr, Tok
from ..models import Formatter
from ..report import path_sig

FROM_SIGNED = re.compile(r"^<Version as std::convert::From<\((i8|i16|i32|i64|isize)(, \1){2,3}\)>>::from$")


def site_key(s):
    return "%s|%s|%s" % (s["owner"], s["kind"], re.sub(r"_\d+", "_", s["detail"]))


class Family(object):
    """a set of root functions whose inputs a table enumerates exhaustively (under the stated invariant), with the
    bodies the table's interpretations entered / had answered by stubs. verdict: True = no row reaches a panic,
    False = some row does (reported), None = inconclusive (reported)."""

    def __init__(self, name, rule, why, roots, verdict, cov=(), kinds=None, why_bad=None):
        self.name, self.rule, self.why, self.roots, self.verdict = name, rule, why, set(roots), verdict
        self.entered, self.stubbed = set(), set()
        self.kinds = kinds
        self.why_bad = why_bad
        for c in cov:
            self.add_cov(c)

    def add_cov(self, c):
        self.entered.update(c["calls"])
        self.stubbed.update(c["stubbed"])


def family_membership(prog, families):
    """fam_of[g] = families whose tables cover every call of g: roots, and (recursively) private functions all of
    whose crate callers are covered by families that did not stub g. A function nobody calls is covered (dead)
    unless it is public API."""
    _, graph = flow.call_graph_cycles(prog)
    callers = {k: set() for k in prog.bodies}
    for k, cs in graph.items():
        for c in cs:
            if c != k:
                callers[c].add(k)
    fam_of = {}
    for f in families:
        for r in f.roots:
            fam_of.setdefault(r, set()).add(f)
    roots = set(fam_of)

    def external(g):
        b = prog.bodies[g]
        return b.get("vis") == "pub" and b["def_kind"] in ("Fn", "AssocFn")
    dead = set()
    changed = True
    while changed:
        changed = False
        for g in prog.bodies:
            if g in roots or g in dead or external(g):
                continue
            cs = callers[g]
            if not cs:
                dead.add(g)
                changed = True
                continue
            fams = set()
            good = True
            for c in cs:
                if c in dead:
                    continue
                fc = fam_of.get(c)
                if not fc or any(g in f.stubbed for f in fc):
                    good = False
                    break
                fams |= fc
            if good and fam_of.get(g) != fams and (fams or all(c in dead for c in cs)):
                if not fams:
                    dead.add(g)
                else:
                    fam_of[g] = fams
                changed = True
    return fam_of, dead


def check(ctx, rep):
    prog = ctx.prog()
    sites = flow.panic_sites(prog)
    rep.rule("INVENTORY", 10, "every Assert terminator and every call of a panicking std function in a crate body is "
                              "discharged by exactly one named rule")
    discharged = {}

    # ---------------- evidence gathered by interpretation: one family of roots per table
    env = intervals.Env(prog)
    families = []
    families.append(desugar_family(prog, rep))
    dif_rows = intervals.table_op(prog, env, "difference", variants=("lt", "cmp"))
    dif_panics = [r for r in dif_rows if r["status"] == "panic"]
    dif_inconc = [r for r in dif_rows if "inconclusive" in r]
    for r in dif_inconc[:3]:
        rep.inconc("D-DIFF: " + r["inconclusive"][0], r["inconclusive"][1])
    for r in dif_rows:
        rep.path(("T-DIF", r["sig"]))
    for r in dif_panics[:50]:
        bad = sorted(set(c[0] for c in r["cells"] if not c[2]))
        if bad:
            rep.fail("D-DIFF", "range::Bound::cmp|D-DIFF|cell=%s" % bad[0],
                     "BoundSet::difference reaches a panic: %s" % r["key"], where=r.get("panic_where"), example=r["example"])
        else:
            rep.fail("D-DIFF", "range::BoundSet::difference|D-DIFF|%s" % r["key"],
                     "BoundSet::difference reaches a panic (unwrap() on None)", where=r.get("panic_where"), example=r["example"])
    families.append(Family("difference", "D-DIFF", "no row of the difference table (all shapes x weak orders) reaches a panic",
                           ["range::BoundSet::difference"],
                           False if dif_panics else (None if dif_inconc else True), [r["cov"] for r in dif_rows if "cov" in r],
                           why_bad="the difference table reaches a panic"))
    def by_pattern(s_):
        if s_["kind"] == "assert" and s_.get("msg") == "Overflow":
            if "Add" in s_["detail"] and (version_component_plus_one(prog, s_) or small_add_on_size_is_safe(prog, s_)):
                return True
            return const_arith_is_safe(prog, s_)
        if s_["kind"] == "assert" and s_.get("msg") == "BoundsCheck":
            return index_bounded_by_type(prog, s_)
        return False
    families.extend(unreachable_arms(prog, env, rep, [s_ for s_ in sites if not by_pattern(s_)]))
    families.append(range_any(prog, rep))
    entry, entry_fams = entry_points(prog, rep)
    families.extend(entry_fams)
    if all(entry.get(k) == "ok" for k in E_ENTRIES):
        families.append(location_family(ctx, prog, rep))
    elif "inconclusive" in entry.values():
        families.append(Family("location", "D-LOC", "", ["SemverError::location"], None))
    families.extend(order_families(prog, env, rep))
    signed = [k for k in prog.bodies if FROM_SIGNED.match(k)]
    families.append(Family("from-signed", "D-PRE", "debug_assert on a negative component: outside the input domain of the "
                           "property (precondition)", signed, True, kinds=("panic_fmt",)))
    fam_of, dead = family_membership(prog, families)

    for s in sites:
        owner, kind = s["owner"], s["kind"]
        where = prog.span_str(s["span"])
        rule = why = None
        fams = fam_of.get(owner)
        if owner in dead:
            rule, why = "D-DEAD", "the enclosing private function is not called from anywhere in the crate"
        elif fams:
            fams = [f for f in fams if f.kinds is None or kind in f.kinds]
            if fams and any(f.verdict is None for f in fams):
                continue          # the supporting table was inconclusive (already reported as such)
            if fams and all(f.verdict for f in fams):
                f = sorted(fams, key=lambda f: f.name)[0]
                rule, why = f.rule, f.why
                if owner not in f.roots:
                    why += " (helper reached only from %s)" % ", ".join(sorted(f.roots))[:160]
            elif fams:
                why = "; ".join(f.why_bad or ("the %s table does not hold" % f.name) for f in fams if f.verdict is False)
        if rule is None and kind == "assert" and s["msg"] == "Overflow" and "Add" in s["detail"] and version_component_plus_one(prog, s):
            rule, why = "D-NUM-STORED", ("operand is a numeric component of a Version (the property's domain and INV-NUM bound it by "
                                         "MAX_SAFE_INTEGER + 1) plus 1")
        if rule is None and kind == "assert" and s["msg"] == "Overflow" and "Add" in s["detail"] and small_add_on_size_is_safe(prog, s):
            rule, why = "D-SIZE", ("a small constant added to a 64-bit collection length or to a counter that only ever grows by small "
                                   "constants from a constant: lengths are at most isize::MAX, and a counter cannot reach 2^64 in "
                                   "feasible time (termination is the BOUNDED-LOOPS / NO-RECURSION rules)")
        if rule is None and kind == "assert" and s["msg"] == "BoundsCheck" and index_bounded_by_type(prog, s):
            rule, why = "D-INDEX-TYPE", "the index is a widening cast of a value whose type cannot reach the constant length of the array"
        if rule is None and kind == "assert" and s["msg"] == "Overflow" and const_arith_is_safe(prog, s):
            rule, why = "D-CONST", "arithmetic on two constants that does not overflow"
        if rule is None and kind == "assert" and const_condition_holds(prog, s):
            rule, why = "D-CONST", "the asserted condition is computed from two constants and holds (division by a non-zero constant)"
        if rule is None and kind == "assert" and s["msg"] == "Overflow" and "Add" in s["detail"] and remainder_add_is_safe(prog, s):
            rule, why = "D-REM", "a constant added to a remainder by a constant (or to a value just tested to be below one): fits the type"
        if rule is None and why is None and (kind == "index" or (kind == "assert" and s["msg"] == "BoundsCheck")) and not fam_of.get(owner):
            # an index / slice expression in a function no table covers: whether the index is in range is a property of
            # values that no rule here decides; reported as undecided, not as a violation (hand-written scanning code
            # is full of such sites and is usually right)
            rep.inconc("INVENTORY: index site in %s is not covered by any table (%s)" % (owner, s["detail"][:80]), where)
            continue
        if rule is None and why is None and kind == "assert" and s["msg"] in ("Overflow", "BoundsCheck", "DivisionByZero", "RemainderByZero"):
            # arithmetic no rule here bounds: a concrete run of the enclosing function decides when it can (a panic is a
            # genuine violation with its input); otherwise the site stays undecided rather than reported
            w = arithmetic_witness(prog, owner)
            if w and w[0] == "no-panic":
                rep.inconc("INVENTORY: %s %s in %s is not discharged by any rule; %d concrete runs of %s reach no panic" % (
                    kind, s["detail"][:80], owner, w[1], w[2]), where)
                continue
            if w and w[0] == "panic":
                rep.fail("INVENTORY", "%s" % site_key(s), "undischarged panic site: %s %s — %s panics on %s" % (
                    kind, s["detail"], w[2], w[1]), where=where, example=w[1])
                continue
        if rule is None:
            rep.fail("INVENTORY", "%s" % site_key(s), "undischarged panic site: %s %s%s" % (
                kind, s["detail"], (" — " + why) if why else ""), where=where)
        else:
            rep.ok("INVENTORY")
            discharged.setdefault(rule, []).append("%s @%s" % (owner, where))
    for rule, lst in sorted(discharged.items()):
        rep.notes.append("%s discharges %d sites" % (rule, len(lst)))
        rep.sample({"rule": rule, "sites": len(lst), "first": lst[0]})
    helpers = sorted(g for g, fs in fam_of.items() if not any(g in f.roots for f in fs))
    rep.analysed_item("%d panic-capable sites in %d bodies; %d table families, %d helper bodies covered through the call graph" % (
        len(sites), len(prog.bodies), len(families), len(helpers)))
    progress(rep, prog)
    termination(rep, prog)


E_ENTRIES = ("Version::parse", "range::Range::parse")


_WITNESS_MEMO = {}


def arithmetic_witness(prog, owner):
    """run the function that owns a panic site (for a closure: the function it is written in) on concrete arguments when
    all its parameters are integers, &str, bool, char or a &mut Formatter. Returns ("panic", input text, function),
    ("no-panic", number of runs, function) or None when the function cannot be run this way."""
    import itertools
    from ..interp import Interp, Policy, StrV
    from ..models import Formatter, concrete_u64_parse
    fn = owner.split("::{closure")[0]
    if fn in _WITNESS_MEMO:
        return _WITNESS_MEMO[fn]
    res = None
    if fn in prog.bodies and not prog.bodies[fn].get("type_params"):
        body = prog.bodies[fn]
        ints = [0, 1, 9, 10, 255, (1 << 32) + 5, 900719925474099, 10 ** 19, (1 << 64) - 1]
        strs = ["0", "7", "10", "007", "18446744073709551615", "18446744073709551616", "99999999999999999999",
                "00000000000000000000", "123456789012345678901", "a", "", "1a"]
        per = []
        for i in range(body["arg_count"]):
            t = prog.types[body["locals"][i + 1]]
            ts = prog.ty_str(body["locals"][i + 1])
            if t.get("k") == "int":
                top = (1 << (t.get("bits", 64) - (1 if t.get("signed") else 0))) - 1
                per.append([("%d" % v, v) for v in ints if v <= top])
            elif ts == "&str":
                per.append([(repr(v), StrV(v)) for v in strs])
            elif ts == "bool":
                per.append([("false", False), ("true", True)])
            elif ts == "char":
                per.append([(repr(c), ord(c)) for c in "09a-."])
            elif ts.startswith("&mut std::fmt::Formatter"):
                per.append([("fmt", "FMT")])
            else:
                per = None
                break
        if per is not None and body["arg_count"] > 0:
            runs = 0
            for combo in itertools.islice(itertools.product(*per), 400):
                pol = Policy()
                pol.witness = True
                pol.str_parse = concrete_u64_parse
                it = Interp(prog, pol)
                args = [Ptr(Cell(Formatter())) if v == "FMT" else (Ptr(Cell(v)) if isinstance(v, StrV) else v) for _, v in combo]
                try:
                    it.call_body(fn, args)
                    runs += 1
                except Panic:
                    res = ("panic", "%s(%s)" % (fn, ", ".join(n for n, _ in combo)), fn)
                    break
                except Inconclusive:
                    continue
            if res is None and runs:
                res = ("no-panic", runs, fn)
    _WITNESS_MEMO[fn] = res
    return res


def const_condition_holds(prog, s):
    """an assertion whose condition is computed in the same block from two constants (`10 == 0` in front of a division by
    the constant 10) and evaluates to the expected value: it can never fail"""
    body = prog.bodies[s["owner"]]
    bb = body["blocks"][s["bb"]]
    tm = bb["term"]
    if tm["k"] != "assert":
        return False
    c = tm["cond"].get("move") or tm["cond"].get("copy")
    if not c or c["p"]:
        return False
    for st in reversed(bb["stmts"]):
        if st["k"] == "assign" and not st["place"]["p"] and st["place"]["l"] == c["l"]:
            rv = st["rv"]
            if rv.get("k") != "binop" or rv["op"] not in ("Eq", "Ne", "Lt", "Le", "Gt", "Ge"):
                return False
            a, b = rv["a"].get("const"), rv["b"].get("const")
            if not (a and b and a.get("kind") == "int" and b.get("kind") == "int"):
                return False
            x, y = int(a["v"]), int(b["v"])
            val = {"Eq": x == y, "Ne": x != y, "Lt": x < y, "Le": x <= y, "Gt": x > y, "Ge": x >= y}[rv["op"]]
            return val == tm["expected"]
    return False


def remainder_add_is_safe(prog, s):
    """Overflow(Add, const k, x) — or (x, const k) — where x is `(y % c)` for a constant c, possibly narrowed by a cast, or a
    narrowing of a value that the only way into this block has just tested to be `< c`: x <= c - 1, and k + c - 1 fits"""
    body = prog.bodies[s["owner"]]
    blocks = body["blocks"]
    bb = blocks[s["bb"]]
    add = None
    for st in reversed(bb["stmts"]):
        if st["k"] == "assign" and st["rv"].get("k") == "binop" and st["rv"]["op"] == "AddWithOverflow":
            add = st["rv"]
            break
    if add is None:
        return False
    ka, kb = add["a"].get("const"), add["b"].get("const")
    if bool(ka) == bool(kb):
        return False
    k = int((ka or kb)["v"])
    x = add["b"] if ka else add["a"]
    t = prog.types[add["ty"]]
    if t.get("signed"):
        return False
    hi = (1 << t.get("bits", 64)) - 1

    def opl(o):
        y = o.get("copy") or o.get("move")
        return y["l"] if y and not y["p"] else None

    def defs_in_block(l):
        return [st["rv"] for st in bb["stmts"] if st["k"] == "assign" and not st["place"]["p"] and st["place"]["l"] == l]
    l = opl(x)
    bound = None
    for _ in range(4):
        d = defs_in_block(l)
        if len(d) != 1:
            break
        rv = d[0]
        if rv.get("k") == "binop" and rv["op"] == "Rem" and rv["b"].get("const") and int(rv["b"]["const"]["v"]) >= 1:
            bound = int(rv["b"]["const"]["v"]) - 1
            break
        if rv.get("k") == "cast" and rv.get("kind") == "IntToInt":
            l = opl(rv["op"])
            continue
        if rv.get("k") == "use":
            l = opl(rv["op"])
            continue
        break
    if bound is None and l is not None:
        # guarded: the single predecessor of this block branches on `l < c` (true edge leads here), l not written since
        preds = [i for i, b2 in enumerate(blocks) if s["bb"] in flow.successors(body, i)]
        if len(preds) == 1:
            pb = blocks[preds[0]]
            tm = pb["term"]
            if tm["k"] == "switch":
                d = opl(tm["discr"])
                for st in pb["stmts"]:
                    if st["k"] == "assign" and not st["place"]["p"] and st["place"]["l"] == d and st["rv"].get("k") == "binop" \
                            and st["rv"]["op"] == "Lt" and st["rv"]["b"].get("const"):
                        a_l = opl(st["rv"]["a"])
                        srcs = {a_l}
                        for s2 in pb["stmts"]:
                            if s2["k"] == "assign" and not s2["place"]["p"] and s2["place"]["l"] == a_l and s2["rv"].get("k") == "use":
                                srcs.add(opl(s2["rv"]["op"]))
                        chain = {l}
                        for s2 in bb["stmts"]:
                            if s2["k"] == "assign" and not s2["place"]["p"] and s2["place"]["l"] in chain and s2["rv"].get("k") == "use":
                                chain.add(opl(s2["rv"]["op"]))
                        true_targets = [tm["otherwise"]] if all(int(v) == 0 for v, _ in tm["targets"]) else []
                        if (srcs & chain) and s["bb"] in true_targets:
                            bound = int(st["rv"]["b"]["const"]["v"]) - 1
    return bound is not None and bound >= 0 and k + bound <= hi


def const_arith_is_safe(prog, s):
    """an overflow assertion whose checked operation has two constant integer operands is evaluated here"""
    body = prog.bodies[s["owner"]]
    bb = body["blocks"][s["bb"]]
    for st in reversed(bb["stmts"]):
        if st["k"] == "assign" and st["rv"].get("k") == "binop" and st["rv"]["op"].endswith("WithOverflow"):
            a, b = st["rv"]["a"].get("const"), st["rv"]["b"].get("const")
            if not (a and b and a.get("kind") == "int" and b.get("kind") == "int"):
                return False
            x, y = int(a["v"]), int(b["v"])
            t = prog.types[st["rv"]["ty"]]
            bits, signed = t.get("bits", 64), t.get("signed", False)
            op = st["rv"]["op"]
            r = x + y if op.startswith("Add") else (x - y if op.startswith("Sub") else (x * y if op.startswith("Mul") else None))
            if r is None:
                return False
            lo, hi = (-(1 << (bits - 1)), (1 << (bits - 1)) - 1) if signed else (0, (1 << bits) - 1)
            return lo <= r <= hi
    return False


def index_bounded_by_type(prog, s):
    """BoundsCheck { len: const N, index: x } where x = (y as usize) and the type of y has fewer than N values"""
    m = re.search(r"BoundsCheck \{ len: const (\d+)_usize, index: (?:copy|move) _(\d+) \}", s["detail"])
    if not m:
        return False
    n, idx = int(m.group(1)), int(m.group(2))
    body = prog.bodies[s["owner"]]
    defs = [st["rv"] for bb in body["blocks"] for st in bb["stmts"]
            if st["k"] == "assign" and not st["place"]["p"] and st["place"]["l"] == idx]
    if len(defs) != 1 or defs[0].get("k") != "cast" or defs[0].get("kind") != "IntToInt":
        return False
    # `*self as usize` for a field-less enum: the cast operand is the discriminant of a place of that enum type
    src = defs[0]["op"].get("move") or defs[0]["op"].get("copy")
    if src and not src["p"]:
        sdefs = [st["rv"] for bb in body["blocks"] for st in bb["stmts"]
                 if st["k"] == "assign" and not st["place"]["p"] and st["place"]["l"] == src["l"]]
        if len(sdefs) == 1 and sdefs[0].get("k") == "discr":
            pl = sdefs[0]["place"]
            t = prog.types[body["locals"][pl["l"]]]
            for pe in pl["p"]:
                if pe[0] == "deref" and t.get("k") == "ref":
                    t = prog.types[t["ty"]]
                else:
                    t = None
                    break
            if t and t.get("k") == "adt" and t["adt"] in prog.adts:
                vs = prog.adts[t["adt"]]["variants"]
                ds = [int(v["discr"]) if v.get("discr") is not None else i for i, v in enumerate(vs)]
                return all(0 <= d < n for d in ds)
    ft = prog.types[defs[0]["from"]]
    if ft.get("k") == "bool":
        return n >= 2
    if ft.get("k") != "int" or ft.get("signed"):
        return False
    return (1 << ft.get("bits", 64)) <= n


LEN_LIKE = ("::len", "::count", "::capacity", "::position", "::rposition")


def small_add_on_size_is_safe(prog, s):
    """`x + c` (c <= 16) where x is a 64-bit unsigned local defined only by std length-like calls, constants, or
    `x' + small constant` of such locals (a monotone counter)"""
    body = prog.bodies[s["owner"]]
    bb = body["blocks"][s["bb"]]
    add = None
    for st in reversed(bb["stmts"]):
        if st["k"] == "assign" and st["rv"].get("k") == "binop" and st["rv"]["op"] == "AddWithOverflow":
            add = st["rv"]
            break
    if add is None:
        return False
    t = prog.types[add["ty"]]
    if t.get("k") != "int" or t.get("signed") or t.get("bits", 64) < 64:
        return False
    cst = add["b"].get("const")
    if not (cst and cst.get("kind") == "int" and 0 <= int(cst["v"]) <= 16):
        return False
    defs = {}
    for b2 in body["blocks"]:
        for st in b2["stmts"]:
            if st["k"] == "assign" and not st["place"]["p"]:
                defs.setdefault(st["place"]["l"], []).append(("rv", st["rv"]))
        tm = b2["term"]
        if tm["k"] == "call" and tm.get("dest") and not tm["dest"]["p"]:
            c = flow.callee_of(tm)
            defs.setdefault(tm["dest"]["l"], []).append(("call", flow.callee_key(c) if c else None))

    def local_of(op):
        for k in ("copy", "move"):
            if k in op and not op[k]["p"]:
                return op[k]["l"]
        return None

    def ok_local(l, seen):
        if l in seen:
            return True
        if l <= body["arg_count"] and l != 0:
            return False                        # a parameter: unknown value
        seen = seen | {l}
        ds = defs.get(l)
        if not ds:
            return False
        for kind, d in ds:
            if kind == "call":
                if not (d and d.endswith(LEN_LIKE) and d.startswith(("std::", "core::", "alloc::", "<std::", "<core::"))):
                    return False
                continue
            k = d.get("k")
            if k == "use":
                op = d["op"]
                if "const" in op:
                    if op["const"].get("kind") != "int" or int(op["const"]["v"]) > (1 << 32):
                        return False
                    continue
                src = None
                for kk in ("copy", "move"):
                    if kk in op:
                        pl = op[kk]
                        if not pl["p"]:
                            src = ("l", pl["l"])
                        elif len(pl["p"]) == 1 and pl["p"][0][0] == "field" and pl["p"][0][1] == 0:
                            src = ("sum", pl["l"])
                if src is None:
                    return False
                if src[0] == "l":
                    if not ok_local(src[1], seen):
                        return False
                else:
                    # field 0 of a checked-add tuple: the tuple must be `x' + small constant`
                    for k2, d2 in defs.get(src[1], []):
                        if k2 != "rv" or d2.get("k") != "binop" or d2["op"] != "AddWithOverflow":
                            return False
                        c2 = d2["b"].get("const")
                        if not (c2 and c2.get("kind") == "int" and 0 <= int(c2["v"]) <= 16):
                            return False
                        a2 = local_of(d2["a"])
                        if a2 is None or not ok_local(a2, seen):
                            return False
                    if not defs.get(src[1]):
                        return False
                continue
            return False
        return True
    a = local_of(add["a"])
    return a is not None and ok_local(a, frozenset())


def version_component_plus_one(prog, s):
    """`x.field + 1` where x is a local of type Version (or a reference to one) — directly or through a temporary that
    holds a copy of the field"""
    body = prog.bodies[s["owner"]]

    def is_version(l):
        return prog.ty_str(body["locals"][l]).lstrip("&").replace("mut ", "") == "Version"
    m = re.search(r"Overflow\(Add, (?:copy|move) \((?:\(\*_(\d+)\)|\*?_(\d+))\.(\d+): u64\), const 1_u64\)", s["detail"])
    if m:
        return is_version(int(m.group(1) or m.group(2)))
    m = re.search(r"Overflow\(Add, (?:copy|move) _(\d+), const 1_u64\)", s["detail"])
    if not m:
        return False
    tmp = int(m.group(1))
    defs = [st["rv"] for bb in body["blocks"] for st in bb["stmts"]
            if st["k"] == "assign" and not st["place"]["p"] and st["place"]["l"] == tmp]
    if len(defs) != 1 or defs[0].get("k") != "use":
        return False
    pl = defs[0]["op"].get("copy") or defs[0]["op"].get("move")
    if not pl or not pl["p"] or pl["p"][-1][0] != "field":
        return False
    if any(pe[0] not in ("deref", "field") for pe in pl["p"]):
        return False
    # the place is `(*…base).field`: base (after derefs) must be a Version and the field one of its u64 components
    return is_version(pl["l"]) and len([pe for pe in pl["p"] if pe[0] == "field"]) == 1


_LOC = {}


def location_family(ctx, prog, rep):
    """no (text, offset) class of the location() table reaches a panic"""
    from .. import location
    rows = location.table(prog, 4)
    v = True
    for r in rows:
        rep.path(("location", r["sig"]))
        if r["status"] == "inconclusive":
            rep.inconc("D-LOC: %s" % r["error"][0], r["error"][1])
            v = None
            break
        if r["status"] == "panic":
            rep.fail("D-LOC", "SemverError::location|D-LOC|panic", "location() panics for text class %s at valid offset %d: %s" % (
                r["word"], r["offset"], r["error"]))
            v = False
            break
    rep.analysed_item("SemverError::location interpreted on %d (text, offset) classes for reachability of its panic sites" % len(rows))
    if v is True:
        v = _offsets_premise(prog, rep, location)
    return Family("location", "D-LOC", "no (text, offset) class of the location() table reaches a panic; offsets are 0, len or a "
                  "stream position of the caller's string (C17 E2), hence <= len and on a char boundary",
                  ["SemverError::location"], v, [r["cov"] for r in rows if "cov" in r], why_bad="location() panics for a valid offset")


def _offsets_premise(prog, rep, location):
    """D-LOC's premise: the offsets location() receives are 0, len or stream positions. When an error constructor of an
    entry point stores something else that can fall inside a multi-byte character (a non-zero constant, len minus a
    constant) and location() panics at such offsets, the two sites together are a reachable panic."""
    ok_terms = {"const 0", "len(caller)", "ptr(errpos)-ptr(caller)"}
    odd = []
    for key in ("Version::parse", "range::Range::parse"):
        if not prog.has_body(key):
            continue
        try:
            rows = E.entry_table(prog, key)
        except Inconclusive:
            return True       # the constructors are judged by C17; nothing is added here
        for r in rows:
            if r["status"] != "ok":
                continue
            try:
                d = E.decode_error(prog, r["interp"], r["result"])
            except Inconclusive:
                continue
            if d is None or d["offset"] in ok_terms:
                continue
            t = d["offset"]
            if re.fullmatch(r"const [1-9]\d*", t) or re.fullmatch(r"len\(caller\)-\d+", t):
                odd.append((key, t))
    if not odd:
        return True
    try:
        rows = location.table(prog, 3, inside=True)
    except Inconclusive:
        return True
    rep.analysed_item("offset premise of D-LOC: %d error constructors store an offset that can fall inside a character (%s); "
                      "location() interpreted on %d such (text, offset) classes" % (len(odd), ", ".join(sorted(set(t for _, t in odd))), len(rows)))
    for r in rows:
        if r["status"] == "panic":
            key, t = odd[0]
            rep.fail("D-LOC", "SemverError::location|D-LOC|panic at an offset inside a character",
                     "%s stores the span offset `%s`, which falls inside a multi-byte character for suitable inputs, and location() "
                     "panics there (text class %s, offset %d): %s" % (key, t, r["word"], r["offset"], r["error"]),
                     example="an over-long input with a two-byte character across the stored offset, then err.location()")
            return False
    return True


def desugar_family(prog, rep):
    """the desugaring closures and the hyphen parser, run on every cell of the C01 tables (all raw partial shapes; numeric
    components are tokens bounded by MAX_SAFE_INTEGER, the interpreter admits only `token + small constant` on them)"""
    from ..interp import explore
    g, _ = gram.extract(prog)
    ex = D.Extract(prog)
    ex.may_fail = True
    roots, cov = [], []
    verdict = True

    def one(thunk, root, what):
        for _cx, _ in explore(lambda cx: one_outcome(thunk, root, what, cx), limit=64):
            pass

    def one_outcome(thunk, root, what, cx):
        nonlocal verdict
        from ..report import coverage
        try:
            _, _, it = thunk(cx)
        except Inconclusive as e:
            if verdict is not False:
                verdict = None
            rep.inconc("D-NUM %s: %s" % (what, e.reason), e.where)
            return
        except Panic as p:
            verdict = False
            rep.fail("D-NUM", "%s|D-NUM|%s" % (root, p.kind), "the desugaring reaches a panic for %s%s: %s" % (
                what, " when BoundSet::new answers None" if 1 in cx.decisions else "", p))
            return
        cov.append(coverage(it))
        for o in it.obligations:
            if o[0] == "add" and not (isinstance(o[2], Tok) and o[2].kind == "I" and isinstance(o[3], int) and 0 <= o[3] <= 16):
                verdict = False
                rep.fail("D-NUM", "%s|D-NUM|add" % root, "`+` on operands other than a parsed component and a small constant: %r + %r" % (o[2], o[3]))
        rep.path(("desugar", path_sig(it)))
    def closure_envs(tix, acc=None, depth=0):
        """what the argument of a desugaring closure is made of: a Partial, possibly with an Operation / an Option flag"""
        acc = acc if acc is not None else set()
        t = prog.types[tix]
        if depth < 4:
            if t.get("k") == "tuple":
                for x in t["tys"]:
                    closure_envs(x, acc, depth + 1)
            elif t.get("k") == "adt":
                acc.add(t["adt"])
        return acc
    forms = []
    for fn in sorted(g):
        # every grammar function whose outermost `map` takes a Partial (with an Operation, with an optional flag): found
        # by the type of the closure's argument, not by the function's name
        clo = D.top_map_closure(g, fn)
        if clo is None or not prog.has_body(clo.key) or len(prog.body(clo.key)["locals"]) < 3:
            continue
        made_of = closure_envs(prog.body(clo.key)["locals"][2])
        if D.PARTIAL not in made_of or not made_of <= {D.PARTIAL, D.OPERATION, "std::option::Option"}:
            continue
        if D.OPERATION in made_of:
            envs = [{"op": v["name"]} for v in prog.adts[D.OPERATION]["variants"]]
        elif "std::option::Option" in made_of:
            envs = [{"gt": False}, {"gt": True}]
        else:
            envs = [{}]
        forms.append((fn, envs))
    for fn, envs in forms:
        clo = D.top_map_closure(g, fn)
        if clo is None:
            continue
        roots.append(clo.key)
        for env in envs:
            for shape in D.shapes():
                one(lambda cx, env=env, shape=shape: ex.run_closure(clo, dict(env, shape=shape), ctx=cx), clo.key, "%s %s" % (env, shape))
                if verdict is None:
                    break
    hy = "range::hyphen::parser"
    if prog.has_body(hy):
        roots.append(hy)
        for lo in [None] + list(D.shapes()):
            for up in D.shapes():
                one(lambda cx, lo=lo, up=up: ex.run_hyphen(hy, lo, up, ctx=cx), hy, "hyphen %s - %s" % (lo, up))
            if verdict is None:
                break
    return Family("desugar", "D-NUM", "operand is a component parsed by number() (<= MAX_SAFE_INTEGER) plus a small constant; no cell "
                  "of the desugaring tables reaches a panic", roots, verdict, cov, why_bad="a cell of the desugaring table reaches a panic")


def _shape_signature(prog, key):
    """argument kinds of a function that can be enumerated by (bound-set shape, order) cases: exactly one BoundSet
    (by reference), then optionally a &Version and/or a &mut Formatter; None when the signature is different"""
    b = prog.bodies[key]
    kinds = []
    for i in range(b["arg_count"]):
        ts = prog.ty_str(b["locals"][i + 1])
        if ts == "&range::BoundSet":
            kinds.append("set")
        elif ts == "&Version":
            kinds.append("version")
        elif ts.startswith("&mut std::fmt::Formatter"):
            kinds.append("fmt")
        elif ts == "bool":
            kinds.append("bool")
        else:
            return None
    if kinds.count("set") != 1 or kinds.count("version") > 1 or kinds.count("fmt") > 1 or kinds.count("bool") > 2:
        return None
    return kinds


def unreachable_arms(prog, env, rep, sites=()):
    """no (Lower, Upper) shaped BoundSet reaches a panic (the unreachable! arms) in satisfies / Display — and in any
    other function that has panic-capable sites and takes one BoundSet (plus a version / a formatter): the (Lower, Upper)
    shape is an invariant of every BoundSet (INV-LU), so the enumeration covers every call of such a function"""
    res = []
    from ..report import coverage
    from .. import versions as V
    keys = ["range::BoundSet::satisfies", "<range::BoundSet as std::fmt::Display>::fmt"]
    for o in sorted(set(s["owner"] for s in sites)):
        if o not in keys and prog.bodies[o]["def_kind"] in ("Fn", "AssocFn") and _shape_signature(prog, o):
            keys.append(o)
    for key in keys:
        if not prog.has_body(key):
            continue
        sig = _shape_signature(prog, key)
        if sig is None:
            rep.inconc("D-INV: %s does not have the (&BoundSet[, &Version][, bool][, &mut Formatter]) signature" % key)
            res.append(Family(key, "D-INV", "", [key], None))
            continue
        good = True
        n = 0
        cov = []
        for lo in intervals.SHAPES:
            for up in intervals.SHAPES:
                names = [x for x, s_ in (("lo", lo), ("up", up)) if s_ != "U"] + (["v"] if "version" in sig else [])
                import itertools as _it
                for w, flags in _it.product(list(intervals.weak_orders(names)) if names else [{}],
                                            list(_it.product((False, True), repeat=sig.count("bool")))):
                    flags = list(flags)
                    lob = ("L", lo, intervals.vtok("lo", w["lo"]) if lo != "U" else None)
                    upb = ("U", up, intervals.vtok("up", w["up"]) if up != "U" else None)
                    run = intervals.Run(prog, env)
                    bs = intervals.build_set(env, (lob, upb))
                    args = []
                    for k in sig:
                        if k == "set":
                            args.append(Ptr(Cell(bs)))
                        elif k == "version":
                            args.append(Ptr(Cell(V.gate_token("v", w["v"], False, (0, 0, 0), prog))))
                        elif k == "bool":
                            args.append(flags.pop(0))
                        else:
                            args.append(Ptr(Cell(Formatter())))
                    st, val = run.call(key, args)
                    n += 1
                    rep.path((key, path_sig(run.interp)))
                    cov.append(coverage(run.interp))
                    if good is None and st != "panic":
                        continue
                    if st == "panic":
                        good = False
                        rep.fail("D-INV", "%s|D-INV|lower=%s upper=%s" % (key, lo, up), "reaches a panic: %s" % val)
                    elif st == "inconclusive":
                        good = None if good is not False else False
                        rep.inconc("D-INV %s: %s" % (key, val.reason), val.where)
        res.append(Family(key, "D-INV", "unreachable! arm: dead for every (Lower, Upper) shaped BoundSet (INV-LU); no abstract "
                          "case reaches a panic", [key], good, cov, why_bad="a (Lower, Upper) shaped BoundSet reaches a panic"))
        rep.analysed_item("%s interpreted on %d (shape, order) cases for reachability of its unreachable! arms" % (key, n))
    return res


def order_families(prog, env, rep):
    """further functions that the tables of the neighbouring properties enumerate exhaustively; re-run here only for
    reachability of panics (bounds checks on lookup tables, unwraps): Bound::cmp, BoundSet::new, the two-set
    operations, Version::{cmp, partial_cmp, eq, diff}"""
    from .. import versions as V
    from ..report import coverage
    fams = []

    def fam(name, roots, rows, status_of, why):
        verdict = True
        cov = []
        for r in rows:
            st = status_of(r)
            if "cov" in r:
                cov.append(r["cov"])
            if st == "panic":
                verdict = False
                rep.fail("D-TABLE", "%s|D-TABLE|panic" % roots[0], "%s reaches a panic: %s" % (roots[0], r.get("error") or r.get("problems") or r.get("key")))
                break
            if st == "inconclusive" and verdict:
                verdict = None
        if verdict is None:
            rep.inconc("D-TABLE %s: a row of the table is inconclusive" % roots[0])
        fams.append(Family(name, "D-TABLE", why, roots, verdict, cov, why_bad="a row of the %s table reaches a panic" % name))
    rows = intervals.table_cmp(prog, env)
    fam("bound-cmp", [intervals.BOUND_CMP], rows, lambda r: r["status"],
        "no cell of the Bound::cmp table (every pair of bound kinds x order of the versions) reaches a panic")
    rows = intervals.table_new(prog, env)
    fam("boundset-new", ["range::BoundSet::new"], rows,
        lambda r: "panic" if r["status"] == "panic" else ("inconclusive" if "inconclusive" in r else "ok"),
        "no (lower, upper, order) case of BoundSet::new reaches a panic")
    for op, key in (("intersect", "range::BoundSet::intersect"), ("allows_any", "range::BoundSet::allows_any"),
                    ("allows_all", "range::BoundSet::allows_all")):
        rows = intervals.table_op(prog, env, op)
        fam("boundset-" + op, [key], rows,
            lambda r: "panic" if r["status"] == "panic" else ("inconclusive" if "inconclusive" in r else "ok"),
            "no row of the %s table (all shapes x weak orders) reaches a panic" % op)
    for key, zero in (("Version::diff", True), ("<Version as std::cmp::Ord>::cmp", False),
                      ("<Version as std::cmp::PartialOrd>::partial_cmp", False), ("<Version as std::cmp::PartialEq>::eq", False)):
        if not prog.has_body(key):
            continue
        rows = []
        for a, b in V.two_version_worlds(with_zero=zero):
            st, r, it = V.run2(prog, key, a, b)
            rows.append({"status": st, "cov": coverage(it), "error": str(r) if st != "ok" else None})
            if st != "ok":
                break
        fam(key, [key], rows, lambda r: r["status"],
            "no world of the %s table (field orderings x identifier-list valuations) reaches a panic" % key)
    return fams


def range_any(prog, rep):
    from ..report import coverage
    it = Interp(prog, Policy(), overrides=dict(intervals.LEVEL1))
    v = False
    try:
        r = it.call_body("range::Range::any", [])
        v = isinstance(r, Adt) and r.name == "range::Range"
    except Panic as p:
        rep.fail("D-NEW", "range::Range::any|D-NEW|panic", "Range::any() panics: %s" % p)
    except Inconclusive as e:
        rep.inconc("D-NEW: " + e.reason, e.where)
        v = None
    return Family("any", "D-NEW", "Range::any() is interpreted and returns a Range (its constructor call yields Some)",
                  ["range::Range::any"], v, [coverage(it)], why_bad="Range::any() panics")


def entry_points(prog, rep):
    """no arithmetic panic on any live path of the entry points, and every pointer difference is
    (error position) - (start of the caller's string)"""
    out = {}
    fams = []
    from ..report import coverage
    partial = E.stream_is_partial(prog)
    keys = list(E_ENTRIES) + [k for k in ("<Version as std::str::FromStr>::from_str", "<range::Range as std::str::FromStr>::from_str")
                              if prog.has_body(k)]
    for key in keys:
        if not prog.has_body(key):
            out[key] = "missing"
            continue
        try:
            rows = E.entry_table(prog, key, with_incomplete=partial)
        except Inconclusive as e:
            rep.inconc("entry table %s: %s" % (key, e.reason), e.where)
            out[key] = "inconclusive"
            continue
        verdict = "ok"
        cov = [coverage(r["interp"]) for r in rows if r.get("interp") is not None]
        for r in rows:
            rep.path(("entry", r["sig"]))
            if r["status"] == "panic":
                verdict = "panic: %s" % r["panic"]
                rep.fail("D-LEN", "%s|D-LEN|%s" % (key, r["panic"].kind), "arithmetic panic while handling input of length class %s: %s" % (r["len"], r["panic"]))
            elif r["status"] == "inconclusive":
                verdict = "inconclusive"
                rep.inconc("entry table %s: %s" % (key, r["error"].reason), r["error"].where)
            for o in r["obligations"]:
                if o[0] == "ptrdiff" and (o[2], o[3]) != ("ptr(errpos)", "ptr(caller)"):
                    verdict = "pointer difference %s - %s" % (o[2], o[3])
        out[key] = verdict
        fams.append(Family(key, "D-PTR", "no path of the entry table reaches a panic: the subtraction is the pointer difference between "
                           "the error position and the start of the caller's string (same buffer, later position); the "
                           "ErrMode::Incomplete arm is dead for a complete stream",
                           [key], True if verdict == "ok" else (None if verdict == "inconclusive" else False), cov,
                           why_bad="the subtraction is not a (position - start of the caller's string) difference: %s" % verdict))
        rep.analysed_item("%s: %d paths examined for arithmetic panics" % (key, len(rows)))
    for key in E_ENTRIES:
        if out.get(key) in ("missing",):
            pass
        elif out.get(key) == "inconclusive" and not any(key in f.roots for f in fams):
            fams.append(Family(key, "D-PTR", "", [key], None))
    return out, fams


def progress(rep, prog):
    rep.rule("PROGRESS", 1, "every repetition combinator's progress-carrying argument (separator of `separated`, element of "
                            "`repeat`/`repeat_till`) cannot succeed without consuming input")
    g, problems = gram.extract(prog)
    for k, v in problems.items():
        rep.inconc("grammar extraction of %s: %s" % (k, v))
    def unknown_refs(p, seen=()):
        p0 = gram.strip(p)
        if p0.kind == "ref":
            if p0.extra not in g:
                return [p0.extra]
            if p0.extra in seen:
                return []
            return unknown_refs(g[p0.extra], seen + (p0.extra,))
        out = []
        for a_ in p0.args:
            if isinstance(a_, gram.P):
                out += unknown_refs(a_, seen)
        return out
    for fn, comb, role, arg, node in gram.repetitions(g):
        missing = unknown_refs(arg)
        if missing:
            rep.inconc("PROGRESS: the %s of %s in %s refers to %s, whose grammar was not extracted" % (role, comb, fn, missing[0]))
            continue
        if gram.nullable(g, arg):
            rep.fail("PROGRESS", "%s|PROGRESS|%s %s nullable" % (fn, comb, role),
                     "the %s of %s in %s can match the empty string: %s (winnow asserts progress and panics under debug "
                     "assertions)" % (role, comb, fn, gram.show_p(arg)))
        else:
            rep.ok("PROGRESS")
    rep.analysed_item("%d repetition combinator sites checked for progress" % len(gram.repetitions(g)))


def termination(rep, prog):
    rep.rule("NO-RECURSION", 1, "the crate's call graph (calls, closures, fn items) has no cycle")
    cycles, graph = flow.call_graph_cycles(prog)
    if cycles:
        for c in cycles:
            rep.fail("NO-RECURSION", "%s|NO-RECURSION|cycle" % c[0], "recursive cycle: %s" % " -> ".join(c))
    else:
        rep.ok("NO-RECURSION")
    rep.rule("BOUNDED-LOOPS", 0, "every CFG loop of a crate body is driven by a std collection iterator")
    n = 0
    for key, body in sorted(prog.bodies.items()):
        comps = flow.cfg_sccs(body)
        n += len(comps)
        bad = flow.unbounded_loops(body, prog, key)
        for comp in bad:
            sp = body["blocks"][comp[0]]["term"]["span"]
            rep.fail("BOUNDED-LOOPS", "%s|BOUNDED-LOOPS|loop" % key, "loop without a collection iterator driving it (blocks %s)" % comp,
                     where=prog.span_str(sp))
        for _ in range(len(comps) - len(bad)):
            rep.ok("BOUNDED-LOOPS")
    rep.analysed_item("%d CFG loops in %d bodies; call graph of %d nodes" % (n, len(prog.bodies), len(graph)))
